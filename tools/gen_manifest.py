#!/usr/bin/env python3
"""Regenerates /verif/MANIFEST.json from the table below (single source of truth)."""
import json, os

ROOT = os.path.dirname(os.path.dirname(os.path.abspath(__file__)))

# id -> dict(engine, category, technique, text, note, design_ref, thorough=True)
CHECKS = {
    "C01": dict(
        engine="E1-xplore", category="model_checking", design_ref="§3 C01/C11/C12",
        technique="explicit-state BFS (canonical-dump dedup) over app-script / packet-assembly interleavings and deviation-bounded network fates of two real stream endpoints wired back to back; perfect-network completion run from every state",
        text="Two real DataStreams+FlowController+reliable-frame-deque endpoints exchange real frame bytes (re-parsed by the real FrameReader). Every interleaving of the application scripts, reads and packet assembly is explored together with every network fate (reorder/delay, deliver-without-ack + late ack, loss incl. spurious, duplicate, late arrival after loss) up to 1 (thorough: 2) deviations; bytes read == bytes written in order exactly once, EOF only after the last byte; from every reachable state a perfect-network run must deliver everything, report EOF and complete flush/shutdown.",
        note="Streams of <= 6 bytes (thorough adds 2x9000 bytes), packet capacities 26..1200, 5 small scripts quick / 11 scripts thorough; ack/loss feedback mirrors qconnection's AckDataSpace/DataTracker call sequence; app polls use a no-op waker (wake-ups are C16's subject)."),
    "C02": dict(
        engine="E3-netsim", category="fault_enumeration", design_ref="§3 C02",
        technique="stateless exhaustive enumeration of per-datagram network fates (deviation-bounded) over the whole real client+server stack on a single-threaded tokio runtime with a virtual clock and an in-memory network",
        text="Unmodified dquic client and echo server (real rustls handshake) over an in-memory ProductIO. Liveness profile: every schedule with <= 1 deviation (drop, dup, delay, 4 truncations, 14 bit-flip classes at every datagram) for 4 workload/config pairs, plus <= 2 deviations over the first 12 (thorough: 40) datagrams: handshake completes, every byte is echoed intact, all tasks finish. Safety profile: from every datagram index on drop / corrupt / truncate / duplicate everything: nothing corrupt is delivered, nobody panics, the application ends within 25 virtual seconds.",
        note="Determinism is self-tested per workload (fault-free run twice, identical trace signature); multi-threaded scheduling, migration, 0-RTT and Retry are out of reach; transfers of a few kB."),
    "C03": dict(
        engine="E0-enum", category="exploration", design_ref="§3 C03",
        technique="exhaustive enumeration of byte strings (all strings over a 12-byte alphabet up to length 5-7 with every first byte, every prefix / single-position substitution of a corpus of valid encodings) through the real decoders; plus every 0-2 byte (thorough: 0-3 byte) payload sealed into a real packet of each type, decrypted by the real code and run through the real per-packet frame loop",
        text="PacketReader (dcid len 0/8/20), FrameReader (4 packet types), transport-parameter parsers and nom sub-parsers are run on ~14 M (thorough ~530 M) systematically enumerated inputs; no panic, progress on every Ok item, no out-of-input lengths, prescribed error kinds, malformed datagrams dropped. Part `payload`: 66 471 payloads x 4 packet types (thorough 68 M) through CipherPacket::decrypt_* and qconnection::space::read_plain_packet: an empty packet is a PROTOCOL_VIOLATION, otherwise the connection error raised and the frames dispatched equal what FrameReader yields on the same bytes.",
        note="Exhaustive over the stated input families, not over all byte strings; in-process: a panic is caught per input, an abort inside a decoder (allocation failure) is turned into a violation naming the input by a SIGABRT handler, a stack overflow would still be a machinery failure."),
    "C04": dict(
        engine="E0-enum", category="exploration", design_ref="§3 C04",
        technique="exhaustive enumeration of boundary-value products of every numeric frame field after short legitimate histories, delivered through the wire (real writer + real FrameReader) to the real handlers; cost measured by a counting allocator and watchdogged child processes (checked and prod profiles)",
        text="ACK (sent journal call sequence of AckDataSpace, RcvdJournal::on_rcvd_ack, ArcCC::on_ack_rcvd), packet-number decode + on_rcvd_pn + ACK generation, NEW_CONNECTION_ID / RETIRE_CONNECTION_ID, MAX_DATA / MAX_STREAM_DATA / MAX_STREAMS / STREAM / RESET_STREAM / STOP_SENDING / CRYPTO: every field over 13 boundary values + state-relative values after 0-2 legitimate steps: allocation <= 64 KiB + 256 x (frame size + records held), return within 3 s under a 2 GiB address-space limit, prescribed error for never-sent / negative / over-limit / impossible identifiers with state unchanged, no panic.",
        note="Histories of at most 3 packets / ids; Data epoch, client role, NewReno; far cases (field >= state + 10^6) run in child processes; ECN counts and > 2 extra ACK ranges not enumerated."),
    "C05": dict(
        engine="E0-enum", category="exploration", design_ref="§3 C05",
        technique="exhaustive enumeration of boundary-value products of every encodable value, encoded with the crate's writers and decoded with the real readers in every permitted packet type",
        text="All frame kinds x flag combinations x boundary varints/byte-field lengths, headers, cids, addresses, tokens, transport-parameter sets: bytes written == encoding_size() <= max_encoding_size(), decode == original with exact consumption, Package::dump into exactly the announced size succeeds and into one byte less fails cleanly; STREAM/CRYPTO admission composition over every remaining-space value.",
        note="Boundary sets stand in for the 62-bit domains; values outside the RFC-valid domain (e.g. zero-length cid in preferred_address) are excluded."),
    "C06": dict(
        engine="E0-enum", category="exploration", design_ref="§3 C06",
        technique="exhaustive enumeration of packet shapes and of every single-bit corruption, through the real PacketWriter/encrypt path and the real PacketReader -> CipherPacket::decrypt_* receive path with keys from a real in-process rustls handshake",
        text="Every packet type x cid length x payload size x pn length round-trips bit-for-bit; every single-bit flip of every packet (all 8*len positions), wrong pn positions, wrong-key views and key-update scenarios must be dropped without delivering frames and without a connection error.",
        note="Handshake keys are fresh per run (random), signatures and counts are key-independent; Retry integrity not modelled."),
    "C07": dict(
        engine="E1-xplore", category="model_checking", design_ref="§3 C07",
        technique="explicit-state BFS over begin/record/build/abandon/ack/loss histories of the real ArcSentJournal (pn uniqueness) + exhaustive enumeration of (pn, largest_acked, receiver position) triples through PacketNumber encode -> wire -> decode + controlled-scheduler (CHESS-style, preemption-bounded, exhaustive) exploration of 2-3 logical threads assembling packets through the real tx::PacketWriter over one shared journal",
        text="(d) part `tx`: six scenarios (two/three paths, full and trivial writers, abandoned assembly, concurrent ACK processing), every schedule within preemption bound 3 (2 for three threads; thorough: unbounded) with scheduling points inside the assembly: no packet number is used twice as AEAD nonce input, per-path numbers increase, reported number == protected number, journal numbers the next packet above all sent. (a) every history <= 7 ops (thorough 9) of packet assemblies (0-2 frames, trivial, build_with_time/build_trivial, abandoned guards) interleaved with acks/losses: every built packet's number is strictly larger than all earlier ones, abandoned assemblies consume nothing; (b) ~14 M (thorough 290 M) triples: decode(encode(pn, la), expected) == pn.",
        note="(a) <= 3-4 packets; (b) boundary sets for pn and distances; (c) E3 monitor: packet numbers in captured qlog packet_sent events strictly increase per (endpoint, space) in every execution with <= 1 deviation."),
    "C08": dict(
        engine="E1-xplore", category="model_checking", design_ref="§3 C08",
        technique="explicit-state BFS to closure over operation histories of the real RecvBuf, of the real stream receiver state machine (through a DataStreams endpoint and its flow-controlled frame entry) and of the real crypto-stream receiver, against a covered-offset-set reference",
        text="Part `recver`: every reachable state of the real stream receiver (uni and bidi, windows exactly the stream length) and crypto receiver for streams of 3-7 (thorough: up to 10) bytes under every frame slice incl. empty and FIN-only frames and reads of 1/2/8 bytes: reads give exactly the contiguous prefix, end of stream exactly when everything and the final size arrived, no legitimate frame refused. Every reachable state of the real RecvBuf for streams of 3/6/8 (thorough: up to 12) position-identifying bytes under all recv(off,len) slices, capacity-limited reads and try_next is visited (closure: histories of any length) and the reassembly/charging oracle is evaluated on every transition.",
        note="Stream length bounded; contents position-identifying; dedup on the complete Debug dump of the real object (128-bit hash)."),
    "C09": dict(
        engine="E1-xplore", category="model_checking", design_ref="§3 C09",
        technique="explicit-state BFS to closure over operation histories of the real SendBuf against a per-byte colour reference, plus a perfect-network completion run from every state",
        text="Every reachable state of the real SendBuf for 3-4 byte streams (thorough: 5-6) under writes, window extensions, pick-ups with all cap/flow limits, acks / loss reports of every previously picked range (and the empty FIN range) and resend_flighting; oracle per pick + completion liveness from every state.",
        note="Stream length bounded; ack/loss ranges are previously picked ranges as the property quantifies; predicate capacity >= 1."),
    "C10": dict(
        engine="E1-xplore", category="model_checking", design_ref="§3 C10",
        technique="explicit-state BFS (canonical-dump dedup, virtual clock) over histories of the real ArcRcvdJournal and ArcSentJournal + exhaustive capacity sweep of ACK generation",
        text="Received side: arrivals of pn 0..5 in any order with duplicates, ACK generation at every capacity from minimum-1 upward, peer acknowledging ACK-carrying packets, expiry; generated frames acknowledge only received numbers, report the requested largest, cover everything not yet confirmed when space allows, always fit. Sent side: packets with 0-2 frames / trivial / skipped, ACKs of every subset, losses, fast retransmit, clock advances; exactly the frames of newly acked packets are reported once, frames of lost packets are offered for retransmission. Sweep: 2..81 one-packet ranges x every capacity.",
        note="pn alphabet 0..6, <= 3-4 sent packets, depth <= 7-9; a guard is never abandoned after record_frame (no call site can)."),
    "C11": dict(
        engine="E1-xplore", category="model_checking", design_ref="§3 C01/C11/C12",
        technique="explicit-state BFS over the two-endpoint stream pipe with tiny unequal flow-control parameters (send side) + exhaustive enumeration of hostile frames after short histories through the real FlowControlledDataStreams (receive side)",
        text="Send side: with the six initial flow-control parameters set to permutations of (2,5,9) and connection windows 0/4/64, every STREAM frame on the wire stays within the per-stream limit and the connection limit the sender has received, each byte is charged once (sent_data == distinct bytes at quiescence), advertised MAX_* never decrease. Receive side: every STREAM/RESET_STREAM shape beyond the stream or connection limit, with and without FIN, yields FLOW_CONTROL_ERROR.",
        note="Quick tier runs some configurations under a 15 s cap (reported in caps_hit when not closed); streams <= 7 bytes; the real reader raises windows to 2 MB after the first read."),
    "C12": dict(
        engine="E1-xplore", category="model_checking", design_ref="§3 C01/C11/C12",
        technique="explicit-state BFS over the two-endpoint stream pipe with stream-count limits 0..3 and both concurrency strategies (local opens) + exhaustive enumeration of peer frames x stream-id classes after short legitimate histories (peer side)",
        text="Local opens never exceed the count the peer has granted as known to the opener; MAX_STREAMS never decreases; every stream is offered to accept exactly once. Peer side: every frame kind x (initiator, direction) x index {0,max-1,max,max+1,2^60-1} x 19 payload shapes, for both roles, counts {0,1,3}^2, both strategies, 3 prefixes: stream-limit / stream-state / flow-control verdicts per RFC 9000; two-frame final-size contradictions; implicit opening of lower-numbered streams exactly once.",
        note="Final-size clauses are demanded only while the receiving part of the stream is still open (the RFC's 'even after closed' is a SHOULD)."),
    "C13": dict(
        engine="E1-xplore", category="model_checking", design_ref="§3 C13",
        technique="explicit-state BFS (depth 6-7 quick / 7-9 thorough, deviation budget 1-2, canonical-state dedup incl. the congestion-control snapshot hook) over send / ack-shape / clock-advance / tick histories of the real ArcCC with a recording Feedback, plus a no-ack liveness run from every distinct state and a window-fill search",
        text="For both roles x {no handshake keys, handshake keys, confirmed}: every loss report is justified by a later acknowledged packet and the packet or time threshold (judged against two RFC 9002 5.3 reference RTT estimators), acknowledged packets are never declared lost, bytes_in_flight equals the ledger, cwnd >= 2 datagrams, at most one reduction per recovery period, growth only outside recovery, no quota while the window is full; from every state with no further acks every outstanding ack-eliciting packet is lost or probed, successive PTOs double, the connection is eventually abandoned.",
        note="<= 5 packets outstanding; NewReno only (BBR is unreachable: todo!()); receive side (on_pkt_rcvd / need_ack) not driven."),
    "C14": dict(
        engine="E1-xplore", category="model_checking", design_ref="§3 C14",
        technique="explicit-state BFS to closure over operation histories of real ArcLocalCids on a real QuicRouter and of real ArcRemoteCids with path cells",
        text="Local ids: set_limit, RETIRE_CONNECTION_ID for every sequence number incl. never-issued/repeated/reordered, creating/dropping a second connection on the shared router: consecutive numbering, unretired <= limit, one replacement per accepted retirement, unissued retirement rejected, every id ever issued routes to exactly its own connection while live and is unrouted afterwards. Remote ids: NEW_CONNECTION_ID (seq < 6, any order, duplicates, retire-prior-to), paths applying/borrowing/releasing/retiring cells: borrowed id stable, retire-prior-to honoured, one RETIRE per abandoned id, limit enforced.",
        note="seq < 6, <= 3 paths, limits 2..4; ids are the real random ones (masked in the canonical state)."),
    "C15": dict(
        engine="E1-xplore", category="model_checking", design_ref="§3 C15",
        technique="explicit-state BFS to closure over arrival / burst / grant / abort histories of the real AntiAmplifier + Constraints + ArcSendWaker driven by a line-by-line mirror of the Burst call protocol; plus controlled-scheduler exploration (all schedules, preemption bound 3 / unbounded) of a parked sender vs on_rcvd / grant / abort on the real AntiAmplifier with its pre-emption hooks",
        text="Until granted, total sent <= 3 x total received after every step, the credit reported by balance() never exceeds 3*rcvd - sent (no wrap), sending resumes after rcvd/grant, abort reports the path gone, a parked sender is woken.",
        note="(a) the burst loop is mirrored line by line in the harness (a change inside burst.rs is seen only after the mirror is updated); (b) E3 monitor on the real stack: cumulative bytes from the server to the unvalidated client address <= 3x received, at every datagram, max_segments 1/4/16, every execution with <= 1 deviation; (c) part `wake`: the resume clause as a waiter/notifier protocol under every interleaving of the hook points inside on_rcvd / balance."),
    "C16": dict(
        engine="E2-sched", category="model_checking", design_ref="§3 C16",
        technique="controlled scheduler (CHESS style): stateless DFS over all interleavings of logical waiter/notifier threads at lock-region granularity plus sched_point hooks, preemption bound 3 (thorough: unbounded); deadlock with the condition true = lost wake-up",
        text="For each hand-written waiter/notifier protocol (SendWaker incl. the attempt-then-wait pattern, AsyncDeque, ArcReceiving, transport parameters, local stream ids with a stale waiter, stream writer window/flush/shutdown, stream reader data/FIN/reset/error, listener accept, SendBuffer vs burst loop, AntiAmplifier balance vs rcvd/grant/abort, and the extension scenarios in c16b.rs) every schedule of 2-4 logical threads is executed on the real code; a waiter asleep after every notifier ran is a lost wake-up; results are checked against the sequential expectation.",
        note="Interleavings inside one lock region and weak-memory effects are out of scope; scenarios have <= 4 threads."),
    "C17": dict(
        engine="E2-sched", category="model_checking", design_ref="§3 C17",
        technique="controlled-scheduler DFS over racing ArcConnState transitions with a terminated() waiter (a), component-level close scenarios (b, c16b.rs), and E3 enumeration of close events at every datagram index x {client, server, both} plus idle-timeout pairs (c)",
        text="(a) all schedules of enter_handshaked / enter_closing(e1) / enter_closing(e2) / enter_draining with pre-emption between CAS and SetOnce::set: state codes never go backwards, the terminating error is fixed exactly once by the call that won, waiters complete. (c) closing at every point of the fault-free run by either or both sides: every application future completes within 30 virtual seconds, no panic, nothing corrupt; idle connections terminate no earlier than the effective idle timeout (min non-zero) and not much later.",
        note="(c) close points are datagram indexes of the fault-free run of 2 (thorough 4) workloads; protocol-error and lost-path closes are covered only through C02's safety profile."),
    "C18": dict(
        engine="E0-enum", category="exploration", design_ref="§3 C18",
        technique="exhaustive enumeration of transport-parameter blobs (each id x boundary/illegal values x role, all pairs of illegal choices, unknown/duplicate ids) against an independent RFC 9000 18.2/7.3/7.4 legality table, plus enumeration of cid-binding orders, idle-timeout pairs and 0-RTT remembered-parameter comparisons on the real Parameters state machine; plus enumeration of all 3^8 {smaller, equal, larger} shapes of new vs remembered limits through two real TLS handshakes (full, then resumed) between a rustls server session and the real ClientTlsSession",
        text="parse_from_bytes accepts exactly the legal sets and answers everything else with TRANSPORT_PARAMETER_ERROR, never a panic; readiness iff the declared cids equal the observed ones in both arrival orders with waiters woken; idle timeout = min non-zero; remembered parameters honoured only if nothing shrank; every accepted set is applied to the real consumers without panic.",
        note="Boundary values + documented bounds +-1 per id; SHOULD-level rules (duplicates) are counted, not judged. Part `resume` judges the decision taken at the call site (qconnection/src/tls.rs): a reduced limit => 0-RTT not reported as accepted."),
    "C19": dict(
        engine="E0-enum", category="fault_enumeration", design_ref="§3 C19",
        technique="exhaustive enumeration of datagram sizes x peer maxima x remaining-space values x queue contents on the real DatagramFlow writer/assembler/reader, bytes re-parsed by the real FrameReader, plus an E1 closure over send/assemble/receive histories",
        text="A datagram is refused iff no DATAGRAM frame carrying it fits the peer's maximum; every emitted frame is exactly one queued datagram, unchanged, FIFO, a length-less frame only last with padding before it; oversize received frames yield PROTOCOL_VIOLATION; after a connection error everything fails with it.",
        note="(a) component level; (b) E3: k datagrams each way over the real stack with equal and unequal max_datagram_frame_size on the two sides (1200/1200, 65535/100, 100/65535, 1200/0, 0/1200), fault-free and every single-drop schedule: admission follows the peer's maximum — currently every accepted datagram is never transmitted (known finding), so the order/merge clauses are only exercised at component level."),
    "C20": dict(
        engine="E3-netsim", category="fault_enumeration", design_ref="§3 C20",
        technique="E3 enumeration of fate sequences (fault-free and every schedule with one deviation — drop, duplicate, delay; thorough also header bit flip, truncation, late replay — at a datagram) x exporter configurations {none, no-op, capturing, capturing+filter} over the whole stack built with the telemetry feature",
        text="Every event captured along client and server connection lifetimes serialises to a JSON object with time/name/data, parses back to an equal event and re-serialises identically; logging never panics; the datagram trace signature and all application-visible results are identical across exporter configurations for the same fate sequence.",
        note="Only events the transport really emits in these workloads are covered (handshake, transfer, loss, close; no migration); the compile-time 'telemetry off' build is not compared."),
}

NOT_YET = {
}

def main():
    props = [json.loads(l) for l in open(os.path.join(ROOT, "properties.jsonl"))]
    checks = []
    for p in props:
        c = CHECKS.get(p["id"])
        if not c:
            continue
        checks.append({
            "property_id": p["id"],
            "quick_cmd": f"./check {p['id']} --tier quick",
            "thorough_cmd": f"./check {p['id']} --tier thorough",
            "evidence_file": f"/verif/evidence/{p['id']}.json",
            "replay_cmd_template": f"./check {p['id']} --replay {{path}}",
            "engine": c["engine"],
            "level_claimed": {"category": c["category"], "text": c["text"], "design_ref": c["design_ref"]},
            "level_note": c["note"],
            "technique": c["technique"],
        })
    na = []
    for p in props:
        if p["id"] not in CHECKS:
            na.append({"property_id": p["id"], "reason": NOT_YET.get(p["id"], "check not built yet (work in progress; model checking applies, see DESIGN.md §3)")})
    hooks_commits = []
    hc = os.path.join(ROOT, "hooks_commits.txt")
    if os.path.exists(hc):
        hooks_commits = [l.split()[0] for l in open(hc) if l.strip()]
    m = {
        "version": 1,
        "setup_cmd": "./check --setup",
        "hooks": {
            "guard": "--cfg genmeta_gm_quic_verif",
            "enable": "RUSTFLAGS=\"--cfg genmeta_gm_quic_verif\" via /verif/harness/.cargo/config.toml [build] rustflags (harness workspace has path dependencies on /repo/*)",
            "baseline_off_cmd": "cd /repo && (cargo nextest run --workspace --no-fail-fast --offline || cargo test --workspace --no-fail-fast --offline)",
            "source_commits": hooks_commits,
            "add_only": True,
        },
        "engines": [
            {"name": "E0-enum", "path": "harness/mc-core/src/par.rs", "kind_free_text": "exhaustive value enumeration over finite boundary alphabets / all byte strings up to a length", "serves_properties": []},
            {"name": "E1-xplore", "path": "harness/mc-core/src/explore.rs", "kind_free_text": "explicit-state BFS (closure or depth/deviation bounded) over op histories of real objects with canonical-dump dedup", "serves_properties": [k for k, v in CHECKS.items() if v["engine"] == "E1-xplore"]},
            {"name": "E2-sched", "path": "harness/mc-core/src/sched.rs", "kind_free_text": "controlled scheduler: DFS over interleavings of logical threads with preemption bound", "serves_properties": [k for k, v in CHECKS.items() if v["engine"] == "E2-sched"]},
            {"name": "E3-netsim", "path": "harness/h-stack", "kind_free_text": "full client+server stack over in-memory datagram network, paused clock, DFS over per-datagram fates", "serves_properties": [k for k, v in CHECKS.items() if v["engine"] == "E3-netsim"]},
        ],
        "checks": checks,
        "not_applicable": na,
        "notes": "All checks are bounded exhaustive explorations of the real code; see DESIGN.md.",
    }
    json.dump(m, open(os.path.join(ROOT, "MANIFEST.json"), "w"), indent=1)
    print(f"{len(checks)} checks, {len(na)} not claimed")

if __name__ == "__main__":
    main()
