#!/usr/bin/env python3
"""Regenerates /verif/MANIFEST.json from the table below (single source of truth)."""
import json, os

ROOT = os.path.dirname(os.path.dirname(os.path.abspath(__file__)))

# id -> dict(engine, category, technique, text, note, design_ref, thorough=True)
CHECKS = {
    "C08": dict(
        engine="E1-xplore", category="model_checking", design_ref="§3 C08",
        technique="explicit-state BFS to closure over operation histories of the real RecvBuf against a covered-offset-set reference",
        text="Every reachable state of the real RecvBuf for streams of 3/6/8 (thorough: up to 12) position-identifying bytes under all recv(off,len) slices, capacity-limited reads and try_next is visited (closure: histories of any length) and the reassembly/charging oracle is evaluated on every transition.",
        note="Stream length bounded; contents position-identifying; dedup on the complete Debug dump of the real object (128-bit hash)."),
    "C09": dict(
        engine="E1-xplore", category="model_checking", design_ref="§3 C09",
        technique="explicit-state BFS to closure over operation histories of the real SendBuf against a per-byte colour reference, plus a perfect-network completion run from every state",
        text="Every reachable state of the real SendBuf for 3–4 byte streams (thorough: 5–6) under writes, window extensions, pick-ups with all cap/flow limits, acks / loss reports of every previously picked range (and the empty FIN range) and resend_flighting; oracle per pick + completion liveness from every state.",
        note="Stream length bounded; ack/loss ranges are previously picked ranges as the property quantifies; predicate capacity >= 1."),
}

NOT_YET = {}

def main():
    props = [json.loads(l) for l in open(os.path.join(ROOT, "properties.jsonl"))]
    checks = []
    for p in props:
        c = CHECKS.get(p["id"])
        if not c:
            continue
        checks.append({
            "property_id": p["id"],
            "quick_cmd": f"./check {p['id']} --tier quick",
            "thorough_cmd": f"./check {p['id']} --tier thorough",
            "evidence_file": f"/verif/evidence/{p['id']}.json",
            "replay_cmd_template": f"./check {p['id']} --replay {{path}}",
            "engine": c["engine"],
            "level_claimed": {"category": c["category"], "text": c["text"], "design_ref": c["design_ref"]},
            "level_note": c["note"],
            "technique": c["technique"],
        })
    na = []
    for p in props:
        if p["id"] not in CHECKS:
            na.append({"property_id": p["id"], "reason": NOT_YET.get(p["id"], "check not built yet (work in progress; model checking applies, see DESIGN.md §3)")})
    hooks_commits = []
    hc = os.path.join(ROOT, "hooks_commits.txt")
    if os.path.exists(hc):
        hooks_commits = [l.split()[0] for l in open(hc) if l.strip()]
    m = {
        "version": 1,
        "setup_cmd": "./check --setup",
        "hooks": {
            "guard": "--cfg genmeta_gm_quic_verif",
            "enable": "RUSTFLAGS=\"--cfg genmeta_gm_quic_verif\" via /verif/harness/.cargo/config.toml [build] rustflags (harness workspace has path dependencies on /repo/*)",
            "baseline_off_cmd": "cd /repo && (cargo nextest run --workspace --no-fail-fast --offline || cargo test --workspace --no-fail-fast --offline)",
            "source_commits": hooks_commits,
            "add_only": True,
        },
        "engines": [
            {"name": "E0-enum", "path": "harness/mc-core/src/par.rs", "kind_free_text": "exhaustive value enumeration over finite boundary alphabets / all byte strings up to a length", "serves_properties": []},
            {"name": "E1-xplore", "path": "harness/mc-core/src/explore.rs", "kind_free_text": "explicit-state BFS (closure or depth/deviation bounded) over op histories of real objects with canonical-dump dedup", "serves_properties": [k for k, v in CHECKS.items() if v["engine"] == "E1-xplore"]},
            {"name": "E2-sched", "path": "harness/mc-core/src/sched.rs", "kind_free_text": "controlled scheduler: DFS over interleavings of logical threads with preemption bound", "serves_properties": [k for k, v in CHECKS.items() if v["engine"] == "E2-sched"]},
            {"name": "E3-netsim", "path": "harness/h-stack", "kind_free_text": "full client+server stack over in-memory datagram network, paused clock, DFS over per-datagram fates", "serves_properties": [k for k, v in CHECKS.items() if v["engine"] == "E3-netsim"]},
        ],
        "checks": checks,
        "not_applicable": na,
        "notes": "All checks are bounded exhaustive explorations of the real code; see DESIGN.md.",
    }
    json.dump(m, open(os.path.join(ROOT, "MANIFEST.json"), "w"), indent=1)
    print(f"{len(checks)} checks, {len(na)} not claimed")

if __name__ == "__main__":
    main()
