#!/usr/bin/env python3
"""Regenerates the generated tables of DESIGN.md §9 (between BEGIN/END markers) from
known_findings.json and seeded/*/meta.json."""
import json, os, glob, re, subprocess
ROOT = os.path.dirname(os.path.dirname(os.path.abspath(__file__)))
kf = json.load(open(os.path.join(ROOT, "known_findings.json")))

def subject(h):
    try:
        return subprocess.check_output(["git", "-C", "/repo", "log", "--format=%s", "-1", h], text=True).strip()
    except Exception:
        return "?"

def fixed_table():
    rows = {}
    for e in kf:
        if e["status"] == "fixed":
            rows.setdefault(e["commit"], []).append(e)
    out = ["| commit | what the commit repairs | property · signature(s) that exposed it |", "|---|---|---|"]
    for h, es in sorted(rows.items(), key=lambda kv: (kv[1][0]["property"], kv[0])):
        sigs = "; ".join(f"{e['property']} `{e['signature'][:70]}`" for e in es)
        out.append(f"| `{h}` | {subject(h)[5:] if subject(h).startswith('fix: ') else subject(h)} | {sigs} |")
    return "\n".join(out)

def open_table():
    out = ["| property | signature | what fails (witness) |", "|---|---|---|"]
    for e in kf:
        if e["status"] == "open":
            out.append(f"| {e['property']} | `{e['signature'][:80]}` | {e['summary']} |")
    return "\n".join(out)

def seeds_table():
    out = ["| seed | breaks | needs in order to manifest | checks run → result |", "|---|---|---|---|"]
    for m in sorted(glob.glob(os.path.join(ROOT, "seeded", "*", "meta.json"))):
        d = json.load(open(m))
        res = []
        for c in d.get("checks_run_against_it", []):
            if "exit" in c:
                res.append(f"{c['check']} {c.get('tier','quick')}: exit {c['exit']} — " + ", ".join(f"`{s[:60]}`" for s in c.get("signatures", [])[:3]) + (f" ({c['note']})" if c.get("note") else ""))
            else:
                res.append(f"{c['check']}: {c.get('note','')}")
        out.append(f"| {d['id']} | {d['property']} | {d['needs_to_manifest'][:260]} | {' ; '.join(res)} |")
    return "\n".join(out)

p = os.path.join(ROOT, "DESIGN.md")
s = open(p).read()
for name, fn in [("fixed", fixed_table), ("open", open_table), ("seeds", seeds_table)]:
    b, e = f"<!-- BEGIN:{name} -->", f"<!-- END:{name} -->"
    if b in s and e in s:
        s = s[: s.index(b) + len(b)] + "\n" + fn() + "\n" + s[s.index(e):]
open(p, "w").write(s)
print("tables regenerated")
