#!/usr/bin/env python3
"""Adds an entry to known_findings.json.
usage: kf.py open  <Cxx> <signature> <summary>
       kf.py fixed <Cxx> <signature> <commit> <summary>
"""
import json, sys, os
p = os.path.join(os.path.dirname(os.path.dirname(os.path.abspath(__file__))), "known_findings.json")
d = json.load(open(p))
kind = sys.argv[1]
if kind == "open":
    _, _, prop, sig, summary = sys.argv
    e = {"property": prop, "signature": sig, "status": "open", "summary": summary}
else:
    _, _, prop, sig, commit, summary = sys.argv
    e = {"property": prop, "signature": sig, "status": "fixed", "commit": commit, "summary": summary,
         "line": f"fixed: property={prop} {commit} {summary}"}
d = [x for x in d if not (x["property"] == prop and x["signature"] == sig)]
d.append(e)
d.sort(key=lambda x: (x["property"], x["signature"]))
json.dump(d, open(p, "w"), indent=1)
print(len(d), "entries")
