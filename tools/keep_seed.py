#!/usr/bin/env python3
"""keep_seed.py <id> <property> <seedout dir> <demo command> <needs> <detected_by json>"""
import json, os, shutil, sys, glob
sid, prop, out, democmd, needs, detected = sys.argv[1:7]
dst = f"/verif/seeded/{sid}"
os.makedirs(dst, exist_ok=True)
shutil.copy(f"{out}/patch.diff", dst)
for f in glob.glob(f"{out}/demo_*") + glob.glob(f"{out}/notes.md"):
    shutil.copy(f, dst)
log = f"/tmp/seedverify-{sid}.log"
ran = []
if os.path.exists(log):
    lines = [l.rstrip() for l in open(log) if ("VERDICT" in l or "Summary" in l or "FAIL [" in l)]
    ran = lines[:12]
meta = {
    "id": sid,
    "property": prop,
    "breaks": prop,
    "needs_to_manifest": needs,
    "demo_command": democmd,
    "confirmed_in_scratch_worktree": {
        "procedure": "tools/verify_seed.sh: git worktree of /repo HEAD under /tmp; apply patch; demo test FAILS; cargo nextest run --workspace: all 306 baseline tests pass (only the demo tests fail); revert; demo PASSES",
        "log_excerpt": ran,
    },
    "checks_run_against_it": json.loads(detected),
}
json.dump(meta, open(f"{dst}/meta.json", "w"), indent=1)
print("kept", dst)
