#!/usr/bin/env python3
"""Prints the prompt given to a fresh sub-agent for seeding a property-breaking change."""
import json, sys
pid, n = sys.argv[1], (sys.argv[2] if len(sys.argv) > 2 else "a")
p = [json.loads(l) for l in open('/verif/properties.jsonl') if json.loads(l)['id'] == pid][0]
import glob, os
prev = []
for m in sorted(glob.glob(f"/verif/seeded/{pid}*/meta.json")):
    d = json.load(open(m))
    files = [l[6:].strip() for l in open(os.path.dirname(m) + "/patch.diff") if l.startswith("+++ b/")]
    prev.append(f"- a change in {', '.join(files)}: {d['needs_to_manifest']}")
avoid = ""
if prev:
    avoid = "7. Earlier seeded changes for this property (yours must be DIFFERENT: another code site, another clause of the statement, another mechanism):\n" + "\n".join(prev) + "\n\n"
wt = f"/tmp/seed-{pid}{n}"
out = f"/tmp/seedout-{pid}{n}"
print(f"""You are helping evaluate a verification framework for the Rust QUIC implementation genmeta/gm-quic (a cargo workspace at /repo, pinned commit). Your job: produce ONE realistic source change to gm-quic that BREAKS the semantic property below while the code still compiles and the repository's existing test suite still passes, plus a demonstration that fails with your change and passes without it.

The property (id {p['id']}, "{p['title']}"):
  Statement: {p['statement']}
  Quantified over: {p['quantifier']['text']}
  Code it is anchored in: {', '.join(p['anchors']['files'])}

Rules:
1. Work ONLY in your own scratch git worktree: run `git -C /repo worktree add --detach {wt} HEAD` and edit files under {wt}. Never edit /repo itself, never read or write anything under /verif. Use `CARGO_NET_OFFLINE=true` and `--offline` for all cargo commands (there is no network). Use `CARGO_TARGET_DIR={wt}/target`.
2. The change must be the kind of bug a maintainer could plausibly introduce (an off-by-one, a wrong comparison, a missed state update, a reordered pair of statements, a dropped wake-up, a wrong field, an optimisation that forgets a case) — small (a few lines, in non-test source files of the workspace crates). It must NOT be exposed by ordinary use at once: it should need something specific to manifest — a particular interleaving, a loss/fault at a particular point, a multi-step sequence of operations, an unusual (boundary) input, or two cooperating sites that each look fine alone. Do not touch existing tests. Do not add cfg flags or features.
3. The existing suite must still pass with your change: run `cd {wt} && CARGO_NET_OFFLINE=true cargo nextest run --workspace --no-fail-fast --offline` (fallback `cargo test --workspace --no-fail-fast --offline`); all 306 tests that pass on the unchanged tree must still pass. If a test fails, pick a different change.
4. Write a demonstration: a new Rust test file (e.g. {wt}/<crate>/tests/demo_{pid.lower()}{n}.rs using only the crate's public API, or a `#[cfg(test)]` module in a NEW file if private access is needed) that FAILS with your change applied and PASSES on the unchanged code. Verify both directions yourself (use `git diff > /tmp/x.diff; git apply -R /tmp/x.diff` in your worktree to test without the change; do NOT use `git stash` — stashes are shared with /repo).
5. Deliver into the directory {out}/ (create it): `patch.diff` (output of `git diff` for the source change ONLY, without the demo test, applicable with `git apply` at the repo root), the demo test file(s) with a short `demo_README.md` saying where the file goes and the exact command that runs it, and `notes.md` describing: what the change is, why it breaks the property, what specific circumstances are needed for it to manifest, and what you ran (with results).
6. When done, remove your worktree and its build output: `git -C /repo worktree remove --force {wt}`.

{avoid}Finish with a brief summary of what you delivered. Be efficient: builds take a minute or two; avoid rebuilding unnecessarily.""")
