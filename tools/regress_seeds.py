#!/usr/bin/env python3
"""Applies every kept seeded change to /repo in turn, runs the quick tier of the check(s) recorded
as catching it, and reports whether they still do. Usage: regress_seeds.py [seed ids...]
Writes /verif/seeded/REGRESSION.json. /repo must be clean; never run alongside other checks."""
import json, os, subprocess, sys, glob, time
os.chdir('/verif')
ids = sys.argv[1:] or sorted(os.path.basename(os.path.dirname(p)) for p in glob.glob('seeded/*/meta.json'))
out = {}
for sid in ids:
    meta = json.load(open(f'seeded/{sid}/meta.json'))
    checks = [c['check'] for c in meta['checks_run_against_it'] if c.get('exit') == 1]
    if not checks:
        out[sid] = {'status': 'no-catching-check-recorded'}
        continue
    patch = f'/verif/seeded/{sid}/patch.diff'
    t = time.time()
    r = subprocess.run(['tools/run_seed.sh', patch] + checks[:1], capture_output=True, text=True)
    line = [l for l in r.stdout.splitlines() if l.startswith('RESULT')]
    ok = any('exit=1' in l for l in line)
    out[sid] = {'check': checks[0], 'caught': ok, 'result': line[-1] if line else r.stdout[-300:] + r.stderr[-300:], 'seconds': round(time.time() - t)}
    print(sid, checks[0], 'CAUGHT' if ok else 'NOT CAUGHT', out[sid]['seconds'], 's', flush=True)
    json.dump(out, open('seeded/REGRESSION.json', 'w'), indent=1)
missed = [k for k, v in out.items() if not v.get('caught')]
print('not caught:', missed)
