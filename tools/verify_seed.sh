#!/bin/bash
# usage: verify_seed.sh <seed-id e.g. C08a> <seedout dir> <demo dest relative to repo root> <cargo test args for the demo, e.g. "-p qrecovery --test demo_c08a">
# Confirms in a scratch worktree: (1) patch applies, (2) demo FAILS with the patch, (3) the existing suite passes with the patch
# (only demo tests may fail), (4) demo PASSES without the patch. Writes /tmp/seedverify-<id>.log and a one-line verdict.
set -u
ID=$1; OUT=$2; DEST=$3; shift 3; DEMOARGS="$*"
WT=/tmp/seedcheck
LOG=/tmp/seedverify-$ID.log
export CARGO_NET_OFFLINE=true CARGO_TARGET_DIR=$WT/target
exec > "$LOG" 2>&1
if [ ! -d $WT ]; then git -C /repo worktree add --detach $WT HEAD || exit 3; fi
cd $WT && git checkout -q --detach $(git -C /repo rev-parse HEAD) && git checkout -q -- . && git clean -fdq -e target
git apply --check "$OUT/patch.diff" || { echo "VERDICT $ID: patch does not apply"; exit 1; }
git apply "$OUT/patch.diff"
mkdir -p "$(dirname "$DEST")"
for f in "$OUT"/demo_*.rs; do cp "$f" "$(dirname "$DEST")/"; done
# optional module registration for in-crate demos (demo_register.diff, demo_mod_line.diff, ...)
for d in "$OUT"/demo_*.diff; do [ -f "$d" ] && git apply "$d"; done
echo "=== demo with patch"; cargo test --offline $DEMOARGS 2>&1 | tail -25; DEMO_WITH=${PIPESTATUS[0]}
echo "=== suite with patch"; cargo nextest run --workspace --no-fail-fast --offline 2>&1 | grep -E "^\s+(FAIL|SIGABRT|TIMEOUT)|Summary|tests run" | sort | uniq -c | tail -30
git apply -R "$OUT/patch.diff"
echo "=== demo without patch"; cargo test --offline $DEMOARGS 2>&1 | tail -8; DEMO_WITHOUT=${PIPESTATUS[0]}
git checkout -q -- . ; git clean -fdq -e target
echo "VERDICT $ID: demo_with_patch_exit=$DEMO_WITH demo_without_patch_exit=$DEMO_WITHOUT (want nonzero / 0); see suite summary above"
