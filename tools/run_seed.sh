#!/bin/bash
# usage: run_seed.sh <patch.diff> <check id> [more check ids...]   (env TIER=quick|thorough)
# Applies the seeded change to /repo, runs the checks, reverts. Prints one line per check.
PATCH=$1; shift
TIER=${TIER:-quick}
cd /verif
git -C /repo diff --quiet || { echo "/repo has uncommitted changes"; exit 2; }
git -C /repo apply "$PATCH" || { echo "patch does not apply"; exit 2; }
# evidence and replay files written while the seeded change is applied are not evidence about /repo
rm -rf /tmp/evidence-backup && cp -r /verif/evidence /tmp/evidence-backup && cp -r /verif/replays /tmp/replays-backup 2>/dev/null
for c in "$@"; do
  out=$(./check $c --tier $TIER 2>&1); code=$?
  sigs=$(echo "$out" | grep -E "^  signature:" | sed 's/  signature: //' | tr '\n' ';' | cut -c1-300)
  echo "RESULT seed=$(basename $(dirname $PATCH)) check=$c tier=$TIER exit=$code signatures=[$sigs]"
done
git -C /repo checkout -- .
rm -rf /verif/evidence && mv /tmp/evidence-backup /verif/evidence
if [ -d /tmp/replays-backup ]; then rm -rf /verif/replays && mv /tmp/replays-backup /verif/replays; fi
git -C /repo status --short | head -3
