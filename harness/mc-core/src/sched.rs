//! E2 — controlled scheduler (CHESS style).
//!
//! Logical threads are OS threads that only run while they hold the baton. A *point* is:
//! the start of a logical thread, every explicit [`point`] (harness operation boundaries and
//! the `sched_point` hooks compiled into gm-quic under `--cfg genmeta_gm_quic_verif`), and
//! every [`sleep_until_woken`] (a task that returned `Poll::Pending` and waits for its
//! waker). At a point exactly one *enabled* thread is chosen: from the replay prefix, or by
//! default the current thread if it is still enabled, else the lowest id. A sleeping thread
//! is enabled iff its counting waker fired since it decided to sleep.
//!
//! [`explore`] enumerates all schedules by stateless DFS with a preemption bound (switching
//! away from a thread that is still enabled costs 1). Terminal states: all threads finished,
//! or *deadlock* (unfinished threads, none enabled) — the harness decides whether a deadlock
//! is a lost wake-up (the awaited condition holds) or legitimate.
use std::{
    cell::RefCell,
    collections::BTreeMap,
    sync::{
        Arc, Condvar, Mutex,
        atomic::{AtomicUsize, Ordering},
    },
    task::{Wake, Waker},
    time::{Duration, Instant},
};

use serde_json::{Value, json};

use crate::panics;

const WATCHDOG: Duration = Duration::from_secs(10);

#[derive(Debug, Clone, Copy, PartialEq, Eq)]
enum TStatus {
    /// has not reached its first point yet / running / waiting for the baton at a point
    Runnable,
    /// waiting for its waker; enabled iff `wakes > seen`
    Sleeping { seen: usize },
    /// found a lock taken by another logical thread (a `blocked:` hook point): enabled again
    /// once some thread has made progress (reached a normal point or finished) since
    Yielding { epoch: usize },
    Finished,
}

struct Thread {
    name: String,
    status: TStatus,
    waker: Arc<CountingWaker>,
    /// parked at a point (has handed the baton over / not yet started)
    parked: bool,
}

#[derive(Debug, Clone)]
pub struct Choice {
    /// number of enabled threads at this point
    pub enabled: usize,
    /// index chosen in canonical order (current first if enabled, then ascending ids)
    pub chosen: usize,
    /// was the thread that reached the point still enabled (so chosen != 0 is a preemption)
    pub current_enabled: bool,
    pub label: String,
    pub thread: usize,
}

struct State {
    threads: Vec<Thread>,
    current: Option<usize>,
    prefix: Vec<usize>,
    choices: Vec<Choice>,
    log: Vec<String>,
    deadlocked: bool,
    unfinished: Vec<String>,
    aborted: bool,
    divergence: Option<String>,
    /// number of normal points reached / threads finished so far
    progress: usize,
}

struct Shared {
    m: Mutex<State>,
    cv: Condvar,
}

/// The waker handed to gm-quic futures polled by a logical thread.
pub struct CountingWaker {
    wakes: AtomicUsize,
}

impl Wake for CountingWaker {
    fn wake(self: Arc<Self>) {
        self.wakes.fetch_add(1, Ordering::SeqCst);
    }
    fn wake_by_ref(self: &Arc<Self>) {
        self.wakes.fetch_add(1, Ordering::SeqCst);
    }
}

impl CountingWaker {
    pub fn count(&self) -> usize {
        self.wakes.load(Ordering::SeqCst)
    }
}

thread_local! {
    static CURRENT: RefCell<Option<(Arc<Shared>, usize)>> = const { RefCell::new(None) };
}

struct Aborted;

/// Handle given to each logical thread body.
pub struct Ctx {
    shared: Arc<Shared>,
    id: usize,
}

impl Ctx {
    pub fn id(&self) -> usize {
        self.id
    }

    /// A scheduling point: any enabled thread may run next.
    pub fn point(&self, label: &str) {
        yield_at(&self.shared, self.id, label, None);
    }

    /// The waker to poll gm-quic futures with.
    pub fn waker(&self) -> Waker {
        let st = self.shared.m.lock().unwrap();
        Waker::from(st.threads[self.id].waker.clone())
    }

    pub fn wake_count(&self) -> usize {
        let st = self.shared.m.lock().unwrap();
        st.threads[self.id].waker.count()
    }

    /// The caller polled at wake count `seen`, got `Pending`, and now sleeps until its waker
    /// fires. Returns normally once woken and scheduled; on deadlock the thread is unwound.
    pub fn sleep_until_woken(&self, seen: usize, label: &str) {
        yield_at(&self.shared, self.id, label, Some(seen));
    }

    /// Polls `f` until it is ready, sleeping (as an async task would) while it is pending.
    /// Every poll is preceded by a scheduling point.
    pub fn block_on<T>(&self, label: &str, mut f: impl FnMut(&mut std::task::Context<'_>) -> std::task::Poll<T>) -> T {
        let waker = self.waker();
        let mut cx = std::task::Context::from_waker(&waker);
        loop {
            self.point(&format!("{label}:poll"));
            let seen = self.wake_count();
            match f(&mut cx) {
                std::task::Poll::Ready(v) => return v,
                std::task::Poll::Pending => {
                    self.log(&format!("{label}:pending"));
                    self.sleep_until_woken(seen, &format!("{label}:sleep"));
                    self.log(&format!("{label}:woken"));
                }
            }
        }
    }

    /// Appends to the execution's observation log.
    pub fn log(&self, s: &str) {
        let mut st = self.shared.m.lock().unwrap();
        let name = st.threads[self.id].name.clone();
        st.log.push(format!("{name}: {s}"));
    }
}

/// Called by the gm-quic hook (`qbase::verif::sched_point`) — a no-op on threads that are not
/// logical threads of a running exploration.
pub fn hook_point(label: &'static str) {
    let cur = CURRENT.with(|c| c.borrow().clone());
    if let Some((shared, id)) = cur {
        if label.starts_with("blocked:") {
            yield_blocked(&shared, id, label);
        } else {
            yield_at(&shared, id, label, None);
        }
    }
}

fn enabled_list(st: &State, me: usize) -> (Vec<usize>, bool) {
    let is_enabled = |t: &Thread| match t.status {
        TStatus::Runnable => true,
        TStatus::Sleeping { seen } => t.waker.count() > seen,
        TStatus::Yielding { epoch } => st.progress > epoch,
        TStatus::Finished => false,
    };
    let me_enabled = is_enabled(&st.threads[me]);
    let mut v = Vec::new();
    if me_enabled {
        v.push(me);
    }
    for (i, t) in st.threads.iter().enumerate() {
        if i != me && is_enabled(t) {
            v.push(i);
        }
    }
    (v, me_enabled)
}

/// Picks the next thread to run (called with the state locked by the thread giving up the
/// baton) and wakes it.
fn schedule(shared: &Shared, st: &mut State, me: usize, label: &str) {
    let (enabled, me_enabled) = enabled_list(st, me);
    if enabled.is_empty() {
        st.current = None;
        if st.threads.iter().any(|t| t.status != TStatus::Finished) {
            st.deadlocked = true;
            st.unfinished = st
                .threads
                .iter()
                .filter(|t| t.status != TStatus::Finished)
                .map(|t| t.name.clone())
                .collect();
            st.aborted = true; // unwind the sleepers
        }
        shared.cv.notify_all();
        return;
    }
    let pos = st.choices.len();
    let chosen = if enabled.len() == 1 {
        0
    } else if pos < st.prefix.len() {
        let c = st.prefix[pos];
        if c >= enabled.len() {
            st.divergence = Some(format!(
                "replay prefix asks for choice {c} at point {pos} ({label}) but only {} threads are enabled",
                enabled.len()
            ));
            0
        } else {
            c
        }
    } else {
        0
    };
    // points with a single enabled thread are recorded too, so that positions are stable
    st.choices.push(Choice {
        enabled: enabled.len(),
        chosen,
        current_enabled: me_enabled,
        label: label.to_string(),
        thread: me,
    });
    st.current = Some(enabled[chosen]);
    shared.cv.notify_all();
}

/// The thread found a lock taken: it may only continue after another thread has run. If every
/// unfinished thread keeps arriving here the lock holder is asleep for ever: deadlock.
fn yield_blocked(shared: &Arc<Shared>, me: usize, label: &str) {
    let epoch = shared.m.lock().unwrap().progress;
    yield_with(shared, me, label, TStatus::Yielding { epoch });
}

fn yield_at(shared: &Arc<Shared>, me: usize, label: &str, sleep_seen: Option<usize>) {
    let status = match sleep_seen {
        Some(seen) => TStatus::Sleeping { seen },
        None => TStatus::Runnable,
    };
    yield_with(shared, me, label, status);
}

fn yield_with(shared: &Arc<Shared>, me: usize, label: &str, status: TStatus) {
    let mut st = shared.m.lock().unwrap();
    if st.aborted {
        drop(st);
        std::panic::resume_unwind(Box::new(Aborted));
    }
    if !matches!(status, TStatus::Yielding { .. }) {
        st.progress += 1;
    }
    st.threads[me].status = status;
    st.threads[me].parked = true;
    schedule(shared, &mut st, me, label);
    let deadline = Instant::now() + WATCHDOG;
    loop {
        if st.aborted {
            drop(st);
            std::panic::resume_unwind(Box::new(Aborted));
        }
        if st.current == Some(me) {
            break;
        }
        let (g, to) = shared.cv.wait_timeout(st, Duration::from_millis(200)).unwrap();
        st = g;
        if to.timed_out() && Instant::now() > deadline {
            eprintln!("machinery error: scheduler watchdog — thread {me} waited {WATCHDOG:?} at {label}; a logical thread is blocked on a real lock or stuck");
            std::process::exit(2);
        }
    }
    st.threads[me].status = TStatus::Runnable;
    st.threads[me].parked = false;
}

/// One finished execution.
#[derive(Debug, Clone)]
pub struct Execution {
    pub choices: Vec<Choice>,
    pub log: Vec<String>,
    pub deadlocked: bool,
    /// names of the threads that had not finished (deadlock only)
    pub unfinished: Vec<String>,
    pub panics: Vec<(String, panics::PanicInfo)>,
}

impl Execution {
    pub fn schedule(&self) -> Vec<usize> {
        self.choices.iter().map(|c| c.chosen).collect()
    }
    pub fn preemptions(&self) -> usize {
        self.choices.iter().filter(|c| c.current_enabled && c.chosen != 0).count()
    }
}

pub type Body = Box<dyn FnOnce(&Ctx) + Send + 'static>;

/// Runs one execution of the logical threads produced by `bodies` under the schedule prefix.
pub fn run_once(bodies: Vec<(String, Body)>, prefix: &[usize]) -> Execution {
    panics::install_hook();
    let n = bodies.len();
    let shared = Arc::new(Shared {
        m: Mutex::new(State {
            threads: bodies
                .iter()
                .map(|(name, _)| Thread {
                    name: name.clone(),
                    status: TStatus::Runnable,
                    waker: Arc::new(CountingWaker { wakes: AtomicUsize::new(0) }),
                    parked: false,
                })
                .collect(),
            current: None,
            prefix: prefix.to_vec(),
            choices: Vec::new(),
            log: Vec::new(),
            deadlocked: false,
            unfinished: Vec::new(),
            aborted: false,
            divergence: None,
            progress: 0,
        }),
        cv: Condvar::new(),
    });
    let panics_seen: Arc<Mutex<Vec<(String, panics::PanicInfo)>>> = Arc::new(Mutex::new(Vec::new()));
    let mut handles = Vec::new();
    for (id, (name, body)) in bodies.into_iter().enumerate() {
        let shared = shared.clone();
        let panics_seen = panics_seen.clone();
        handles.push(std::thread::spawn(move || {
            CURRENT.with(|c| *c.borrow_mut() = Some((shared.clone(), id)));
            let ctx = Ctx { shared: shared.clone(), id };
            // wait for the first baton
            {
                let mut st = shared.m.lock().unwrap();
                st.threads[id].parked = true;
                shared.cv.notify_all();
                while st.current != Some(id) && !st.aborted {
                    st = shared.cv.wait(st).unwrap();
                }
                if st.aborted {
                    st.threads[id].status = TStatus::Finished;
                    return;
                }
                st.threads[id].parked = false;
            }
            let r = panics::catch(|| body(&ctx));
            let mut st = shared.m.lock().unwrap();
            if let Err(p) = r {
                // `resume_unwind(Aborted)` (deadlock unwinding) does not run the panic hook, so
                // it has no recorded location; real panics do
                if p.location != "?" {
                    panics_seen.lock().unwrap().push((name.clone(), p));
                }
            }
            st.threads[id].status = TStatus::Finished;
            st.progress += 1;
            if st.current == Some(id) {
                schedule(&shared, &mut st, id, "exit");
            }
            CURRENT.with(|c| *c.borrow_mut() = None);
        }));
    }
    // start: wait until all threads are parked, then hand the baton to thread 0 (the choice of
    // the first thread is itself a scheduling decision)
    {
        let mut st = shared.m.lock().unwrap();
        while !st.threads.iter().all(|t| t.parked) {
            st = shared.cv.wait(st).unwrap();
        }
        let pos = st.choices.len();
        let chosen = if n > 1 && pos < st.prefix.len() { st.prefix[pos].min(n - 1) } else { 0 };
        st.choices.push(Choice {
            enabled: n,
            chosen,
            current_enabled: false,
            label: "start".into(),
            thread: usize::MAX,
        });
        st.current = Some(chosen);
        shared.cv.notify_all();
    }
    for h in handles {
        let _ = h.join();
    }
    let st = shared.m.lock().unwrap();
    if let Some(d) = &st.divergence {
        eprintln!("machinery error: {d}");
        std::process::exit(2);
    }
    Execution {
        choices: st.choices.clone(),
        log: st.log.clone(),
        deadlocked: st.deadlocked,
        unfinished: st.unfinished.clone(),
        panics: panics_seen.lock().unwrap().clone(),
    }
}

#[derive(Debug, Clone)]
pub struct SchedCfg {
    pub preemption_bound: usize,
    pub max_schedules: usize,
    pub time_cap: Duration,
}

impl Default for SchedCfg {
    fn default() -> Self {
        SchedCfg { preemption_bound: usize::MAX, max_schedules: 2_000_000, time_cap: Duration::from_secs(600) }
    }
}

#[derive(Debug, Default, Clone)]
pub struct SchedStats {
    pub schedules: u64,
    pub with_preemption: u64,
    pub deadlocks: u64,
    pub points: u64,
    pub max_points: usize,
    pub distinct_logs: u64,
    pub cap_hit: Option<String>,
    pub outcomes: BTreeMap<String, u64>,
    /// signature → (detail, schedule, log)
    pub violations: BTreeMap<String, (String, Vec<usize>, Vec<String>, u64)>,
    pub samples: Vec<Value>,
}

/// A scenario builds fresh shared state + logical thread bodies for one execution, and a
/// judge that inspects the finished execution: `Ok(outcome label)` or `Err((sig, detail))`.
pub trait Scenario: Sync {
    type Shared: Send + Sync + 'static;
    fn build(&self) -> (Arc<Self::Shared>, Vec<(String, Body)>);
    fn judge(&self, shared: &Self::Shared, exec: &Execution) -> Result<String, (String, String)>;
}

/// Stateless DFS over all schedules within the preemption bound.
pub fn explore<S: Scenario>(sc: &S, cfg: &SchedCfg) -> SchedStats {
    let started = Instant::now();
    let mut stats = SchedStats::default();
    let mut logs = std::collections::HashSet::new();
    let mut stack: Vec<Vec<usize>> = vec![vec![]];
    // determinism self-test on the default schedule
    {
        let (s1, b1) = sc.build();
        let e1 = run_once(b1, &[]);
        let (s2, b2) = sc.build();
        let e2 = run_once(b2, &[]);
        let _ = (s1, s2);
        if e1.log != e2.log || e1.schedule() != e2.schedule() {
            eprintln!("machinery error: the same schedule produced two different observation logs:\n{:?}\n{:?}", e1.log, e2.log);
            std::process::exit(2);
        }
    }
    while let Some(prefix) = stack.pop() {
        if stats.schedules as usize >= cfg.max_schedules {
            stats.cap_hit = Some(format!("schedule cap {} hit", cfg.max_schedules));
            break;
        }
        if started.elapsed() > cfg.time_cap {
            stats.cap_hit = Some(format!("time cap {:?} hit", cfg.time_cap));
            break;
        }
        let (shared, bodies) = sc.build();
        let exec = run_once(bodies, &prefix);
        stats.schedules += 1;
        stats.points += exec.choices.len() as u64;
        stats.max_points = stats.max_points.max(exec.choices.len());
        if exec.preemptions() > 0 {
            stats.with_preemption += 1;
        }
        if exec.deadlocked {
            stats.deadlocks += 1;
        }
        if logs.insert(crate::hash128(&exec.log.join("\n"))) {
            stats.distinct_logs += 1;
        }
        let mut fails: Vec<(String, String)> = Vec::new();
        for (who, p) in &exec.panics {
            fails.push((format!("panic/{}", p.class()), format!("thread {who} panicked at {}: {}", p.location, p.message)));
        }
        match sc.judge(&shared, &exec) {
            Ok(label) => *stats.outcomes.entry(label).or_default() += 1,
            Err(f) => fails.push(f),
        }
        for (sig, detail) in fails {
            stats
                .violations
                .entry(sig)
                .and_modify(|e| e.3 += 1)
                .or_insert_with(|| (detail, exec.schedule(), exec.log.clone(), 1));
        }
        if stats.samples.len() < 3 {
            stats.samples.push(json!({"schedule": exec.schedule(), "log": exec.log}));
        }
        // children: deviate at every point at or after the prefix
        let mut cost_before = 0usize;
        let costs: Vec<usize> = exec
            .choices
            .iter()
            .map(|c| {
                let b = cost_before;
                if c.current_enabled && c.chosen != 0 {
                    cost_before += 1;
                }
                b
            })
            .collect();
        for i in (prefix.len()..exec.choices.len()).rev() {
            let c = &exec.choices[i];
            for alt in (1..c.enabled).rev() {
                let cost = costs[i] + if c.current_enabled { 1 } else { 0 };
                if cost > cfg.preemption_bound {
                    continue;
                }
                let mut p: Vec<usize> = exec.choices[..i].iter().map(|c| c.chosen).collect();
                p.push(alt);
                stack.push(p);
            }
        }
    }
    stats
}

impl SchedStats {
    pub fn coverage(&self, rule: &str) -> crate::report::Coverage {
        let mut extra = serde_json::Map::new();
        extra.insert("schedules".into(), json!(self.schedules));
        extra.insert("schedules_with_preemption".into(), json!(self.with_preemption));
        extra.insert("deadlocks_observed".into(), json!(self.deadlocks));
        extra.insert("scheduling_points".into(), json!(self.points));
        extra.insert("max_points_per_schedule".into(), json!(self.max_points));
        extra.insert("distinct_observation_logs".into(), json!(self.distinct_logs));
        extra.insert("outcomes".into(), json!(self.outcomes));
        if let Some(c) = &self.cap_hit {
            extra.insert("cap_hit".into(), json!(c));
        }
        crate::report::Coverage {
            evaluations: self.schedules,
            distinct_nontrivial: self.distinct_logs,
            states: self.distinct_logs,
            transitions: self.points,
            traces: self.schedules,
            exhaustive: self.cap_hit.is_none(),
            rule: rule.to_string(),
            samples: self.samples.clone(),
            extra,
        }
    }
}

/// Files the violations of an exploration into the report.
pub fn file_violations(report: &mut crate::Report, sub: &str, stats: &SchedStats) {
    for (sig, (detail, schedule, log, _hits)) in &stats.violations {
        report.violation(sig, detail, json!({"sub": sub, "schedule": schedule, "log": log}));
    }
    if let Some(c) = &stats.cap_hit {
        report.caps_hit.push(format!("{sub}: {c}"));
    }
}
