//! E2 — controlled scheduler (filled in below).
