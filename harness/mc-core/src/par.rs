//! Deterministic parallel map: items are processed by `jobs()` threads, results come back in
//! input order, so verdicts and evidence do not depend on thread timing.
use std::sync::{
    Mutex,
    atomic::{AtomicUsize, Ordering},
};

pub fn par_map<T: Sync, R: Send>(items: &[T], f: impl Fn(&T) -> R + Sync) -> Vec<R> {
    let n = items.len();
    let next = AtomicUsize::new(0);
    let out: Mutex<Vec<Option<R>>> = Mutex::new((0..n).map(|_| None).collect());
    let jobs = crate::jobs().min(n.max(1));
    std::thread::scope(|sc| {
        for _ in 0..jobs {
            sc.spawn(|| {
                crate::panics::install_hook();
                loop {
                    let i = next.fetch_add(1, Ordering::Relaxed);
                    if i >= n {
                        break;
                    }
                    let r = f(&items[i]);
                    out.lock().unwrap()[i] = Some(r);
                }
            });
        }
    });
    out.into_inner()
        .unwrap()
        .into_iter()
        .map(|r| r.expect("worker died"))
        .collect()
}

/// Splits `0..n` into `parts` contiguous ranges.
pub fn ranges(n: usize, parts: usize) -> Vec<std::ops::Range<usize>> {
    let parts = parts.max(1);
    let step = n.div_ceil(parts).max(1);
    (0..n).step_by(step).map(|s| s..(s + step).min(n)).collect()
}
