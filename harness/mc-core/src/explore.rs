//! E1 — explicit-state search over operation histories of *real* objects.
//!
//! A state is the real object(s) plus the harness's reference model. Live objects do not
//! clone, so a state is represented by the operation history that reaches it and rebuilt by
//! replay. Search is level-synchronous BFS (so the first witness of a violation is a
//! shortest one) with canonical-state deduplication:
//!
//! * `max_depth = usize::MAX` ⇒ *closure*: the search ends when no new canonical state
//!   appears, which covers histories of unbounded length over the alphabet;
//! * otherwise depth-bounded; `max_cost` bounds the number of *deviations* (ops whose
//!   `cost` is non-zero) in a history.
//!
//! Dedup key = (canonical dump, deviations spent). Soundness: `canon` must contain the
//! complete state of the real object and of the reference model (the harnesses use the
//! `#[derive(Debug)]` dump of the real structures), the code is deterministic, hence equal
//! dumps have equal futures; BFS reaches each key first at its smallest depth, so the kept
//! representative has the largest remaining depth budget.
use std::{
    collections::{BTreeMap, HashSet},
    fmt::Debug,
    time::{Duration, Instant},
};

use serde::{Serialize, de::DeserializeOwned};
use serde_json::{Value, json};

use crate::{panics, report::Coverage};

#[derive(Debug, Clone)]
pub struct Fail {
    /// `clause/witness-class`
    pub sig: String,
    pub detail: String,
}

impl Fail {
    pub fn new(sig: impl Into<String>, detail: impl Into<String>) -> Fail {
        Fail { sig: sig.into(), detail: detail.into() }
    }
}

#[macro_export]
macro_rules! ensure {
    ($cond:expr, $sig:expr, $($arg:tt)*) => {
        if !($cond) {
            return Err($crate::Fail::new($sig, format!($($arg)*)));
        }
    };
}

pub trait System: Sized {
    type Op: Clone + Debug + Send + Sync + Serialize + DeserializeOwned;
    /// Enabled operations in this state, simplest / default first.
    fn ops(&self) -> Vec<Self::Op>;
    /// Deviation cost of an op (0 = default environment behaviour).
    fn cost(&self, _op: &Self::Op) -> u32 {
        0
    }
    /// Applies the op to the real object and to the reference model and evaluates the oracle.
    fn step(&mut self, op: &Self::Op) -> Result<(), Fail>;
    /// Complete canonical state (real object + reference).
    fn canon(&self) -> String;
    /// Runs the default environment to quiescence and checks the liveness clauses.
    /// Called on a *fresh replay* of every distinct state when `cfg.check_finish`.
    fn finish(&mut self) -> Result<(), Fail> {
        Ok(())
    }
    /// A label of what was observed (used to expose vacuous exploration).
    fn outcome(&self) -> Option<String> {
        None
    }
}

#[derive(Debug, Clone)]
pub struct ExploreCfg {
    pub max_depth: usize,
    pub max_cost: u32,
    pub check_finish: bool,
    pub max_states: usize,
    /// stop before a BFS level when the resident set of the process exceeds this many GB
    pub max_rss_gb: f64,
    pub time_cap: Duration,
    pub keep_samples: usize,
}

impl Default for ExploreCfg {
    fn default() -> Self {
        ExploreCfg {
            max_depth: usize::MAX,
            max_cost: u32::MAX,
            check_finish: false,
            max_states: 20_000_000,
            max_rss_gb: 20.0,
            time_cap: Duration::from_secs(3600),
            keep_samples: 3,
        }
    }
}

#[derive(Debug, Clone, Default)]
pub struct ExploreStats {
    pub states: u64,
    pub transitions: u64,
    pub replays: u64,
    pub max_depth_reached: usize,
    pub closed: bool,
    pub cap_hit: Option<String>,
    pub outcomes: BTreeMap<String, u64>,
    pub samples: Vec<Value>,
    /// signature → (detail, history as JSON)
    pub violations: BTreeMap<String, (String, Value, u64)>,
}

impl ExploreStats {
    pub fn coverage(&self, rule: &str) -> Coverage {
        let mut extra = serde_json::Map::new();
        extra.insert("max_depth_reached".into(), json!(self.max_depth_reached));
        extra.insert("closure_reached".into(), json!(self.closed));
        extra.insert("distinct_outcomes".into(), json!(self.outcomes.len()));
        extra.insert(
            "outcomes".into(),
            json!(self.outcomes.iter().take(24).collect::<BTreeMap<_, _>>()),
        );
        extra.insert("replays".into(), json!(self.replays));
        if let Some(c) = &self.cap_hit {
            extra.insert("cap_hit".into(), json!(c));
        }
        Coverage {
            evaluations: self.transitions,
            distinct_nontrivial: self.states.saturating_sub(1),
            states: self.states,
            transitions: self.transitions,
            traces: self.transitions,
            exhaustive: self.cap_hit.is_none(),
            rule: rule.to_string(),
            samples: self.samples.clone(),
            extra,
        }
    }
}

struct Node<Op> {
    hist: Vec<Op>,
    spent: u32,
}

enum Succ<Op> {
    New { key: u128, hist: Vec<Op>, spent: u32, outcome: Option<String> },
    Viol { sig: String, detail: String, hist: Vec<Op>, hits: u64 },
    MoreHits { sig: String, n: u64 },
}

/// Owns a system and drops it under `catch`: after a caught panic inside the code under test
/// its locks are poisoned and its destructors may panic too (e.g. a `Drop` that locks) — that
/// must not take the explorer down.
pub struct Own<S>(Option<S>);

impl<S> Own<S> {
    pub fn new(s: S) -> Own<S> {
        Own(Some(s))
    }
}

impl<S> std::ops::Deref for Own<S> {
    type Target = S;
    fn deref(&self) -> &S {
        self.0.as_ref().expect("system present")
    }
}

impl<S> std::ops::DerefMut for Own<S> {
    fn deref_mut(&mut self) -> &mut S {
        self.0.as_mut().expect("system present")
    }
}

impl<S> Drop for Own<S> {
    fn drop(&mut self) {
        if let Some(s) = self.0.take() {
            let _ = panics::catch(move || drop(s));
        }
    }
}

fn rebuild<S: System>(mk: &(impl Fn() -> S + Sync), hist: &[S::Op]) -> Own<S> {
    let mut s = Own::new(mk());
    for (i, op) in hist.iter().enumerate() {
        match panics::catch(|| s.step(op)) {
            Ok(Ok(())) => {}
            other => {
                // A prefix that succeeded once must succeed again: anything else means the
                // harness does not own all nondeterminism — machinery error, never a verdict.
                eprintln!(
                    "machinery error: replay diverged at step {i} of {:?}: {:?}",
                    hist,
                    other.map(|r| r.map_err(|f| f.sig)).map_err(|p| p.class())
                );
                std::process::exit(2);
            }
        }
    }
    s
}

fn guarded<S: System>(s: &mut S, f: impl FnOnce(&mut S) -> Result<(), Fail>) -> Result<(), Fail> {
    match panics::catch(|| f(s)) {
        Ok(r) => r,
        Err(p) => Err(Fail::new(
            format!("panic/{}", p.class()),
            format!("panic at {}: {}", p.location, p.message),
        )),
    }
}

/// Resident set size of this process in GB (Linux), if it can be read.
pub fn rss_gb() -> Option<f64> {
    let s = std::fs::read_to_string("/proc/self/statm").ok()?;
    let pages: f64 = s.split_whitespace().nth(1)?.parse().ok()?;
    Some(pages * 4096.0 / 1e9)
}

fn hist_json<Op: Serialize>(h: &[Op]) -> Value {
    serde_json::to_value(h).unwrap_or(Value::Null)
}

/// Explores the system built by `mk` (which must be deterministic).
pub fn explore<S: System>(mk: impl Fn() -> S + Sync, cfg: &ExploreCfg) -> ExploreStats {
    panics::install_hook();
    let started = Instant::now();
    let mut stats = ExploreStats::default();
    let mut seen: HashSet<u128> = HashSet::new();

    let root = Own::new(mk());
    let root_key = crate::hash128(&format!("0|{}", root.canon()));
    seen.insert(root_key);
    stats.states = 1;
    if let Some(o) = root.outcome() {
        *stats.outcomes.entry(o).or_default() += 1;
    }
    drop(root);
    if cfg.check_finish {
        let mut s = Own::new(mk());
        if let Err(f) = guarded(&mut *s, |s| s.finish()) {
            stats.violations.insert(f.sig, (f.detail, json!([]), 1));
        }
    }

    let mut frontier: Vec<Node<S::Op>> = vec![Node { hist: vec![], spent: 0 }];
    let mut depth = 0usize;
    let jobs = crate::jobs();

    while !frontier.is_empty() && depth < cfg.max_depth {
        if started.elapsed() > cfg.time_cap {
            stats.cap_hit = Some(format!("time cap {:?} hit; depth {} fully explored", cfg.time_cap, depth));
            break;
        }
        if let Some(gb) = rss_gb() {
            if gb > cfg.max_rss_gb {
                stats.cap_hit = Some(format!("memory cap {} GB hit (resident {:.1} GB); depth {} fully explored", cfg.max_rss_gb, gb, depth));
                break;
            }
        }
        if seen.len() > cfg.max_states {
            stats.cap_hit = Some(format!("state cap {} hit; depth {} fully explored", cfg.max_states, depth));
            break;
        }
        // expand one BFS level in parallel
        // small frontiers are expanded inline: spawning threads costs more than it saves
        let workers = if frontier.len() < 96 { 1 } else { jobs.min(frontier.len() / 48).max(1) };
        let chunk = frontier.len().div_ceil(workers).max(1);
        let mk_ref = &mk;
        let seen_ref = &seen;
        let results: Vec<(Vec<Succ<S::Op>>, u64, u64)> = std::thread::scope(|sc| {
            let handles: Vec<_> = frontier
                .chunks(chunk)
                .map(|nodes| {
                    sc.spawn(move || {
                        let mut out = Vec::new();
                        let mut transitions = 0u64;
                        let mut replays = 0u64;
                        // successors already known (from earlier levels, or earlier in this
                        // chunk) are dropped here: the merge below keeps the first occurrence
                        // in frontier order anyway, and their histories need not be stored
                        let mut local: HashSet<u128> = HashSet::new();
                        let mut local_sigs: HashSet<String> = HashSet::new();
                        let mut extra_hits: BTreeMap<String, u64> = BTreeMap::new();
                        for node in nodes {
                            let base = rebuild(mk_ref, &node.hist);
                            replays += 1;
                            let ops = base.ops();
                            let costs: Vec<u32> = ops.iter().map(|op| base.cost(op)).collect();
                            let last = (0..ops.len())
                                .rev()
                                .find(|&i| node.spent.saturating_add(costs[i]) <= cfg.max_cost);
                            let mut base = Some(base);
                            for (i, op) in ops.into_iter().enumerate() {
                                let c = costs[i];
                                if node.spent.saturating_add(c) > cfg.max_cost {
                                    continue;
                                }
                                let mut s = if Some(i) == last {
                                    base.take().unwrap()
                                } else {
                                    replays += 1;
                                    rebuild(mk_ref, &node.hist)
                                };
                                transitions += 1;
                                let mk_hist = || {
                                    let mut hist = node.hist.clone();
                                    hist.push(op.clone());
                                    hist
                                };
                                match guarded(&mut *s, |s| s.step(&op)) {
                                    Ok(()) => {
                                        let spent = node.spent + c;
                                        let key = crate::hash128(&format!("{}|{}", spent, s.canon()));
                                        if !seen_ref.contains(&key) && local.insert(key) {
                                            out.push(Succ::New { key, hist: mk_hist(), spent, outcome: s.outcome() });
                                        }
                                    }
                                    Err(f) => {
                                        if local_sigs.insert(f.sig.clone()) {
                                            out.push(Succ::Viol { sig: f.sig, detail: f.detail, hist: mk_hist(), hits: 1 });
                                        } else {
                                            *extra_hits.entry(f.sig).or_default() += 1;
                                        }
                                    }
                                }
                            }
                        }
                        for (sig, n) in extra_hits {
                            out.push(Succ::MoreHits { sig, n });
                        }
                        (out, transitions, replays)
                    })
                })
                .collect();
            handles.into_iter().map(|h| h.join().expect("explorer worker died")).collect()
        });

        depth += 1;
        let mut next: Vec<Node<S::Op>> = Vec::new();
        for (succs, t, r) in results {
            stats.transitions += t;
            stats.replays += r;
            for s in succs {
                match s {
                    Succ::New { key, hist, spent, outcome } => {
                        if seen.insert(key) {
                            stats.states += 1;
                            if let Some(o) = outcome {
                                *stats.outcomes.entry(o).or_default() += 1;
                            }
                            if stats.samples.len() < cfg.keep_samples
                                || (hist.len() > stats.max_depth_reached
                                    && stats.samples.len() < cfg.keep_samples + 3)
                            {
                                stats.samples.push(hist_json(&hist));
                            }
                            stats.max_depth_reached = stats.max_depth_reached.max(hist.len());
                            next.push(Node { hist, spent });
                        }
                    }
                    Succ::Viol { sig, detail, hist, hits } => {
                        stats
                            .violations
                            .entry(sig)
                            .and_modify(|e| e.2 += hits)
                            .or_insert_with(|| (detail, hist_json(&hist), hits));
                    }
                    Succ::MoreHits { sig, n } => {
                        if let Some(e) = stats.violations.get_mut(&sig) {
                            e.2 += n;
                        }
                    }
                }
            }
        }

        // liveness / quiescence clauses on every new distinct state
        if cfg.check_finish && !next.is_empty() {
            let workers = if next.len() < 96 { 1 } else { jobs.min(next.len() / 48).max(1) };
            let chunk = next.len().div_ceil(workers).max(1);
            let fails: Vec<Vec<(Fail, Vec<S::Op>)>> = std::thread::scope(|sc| {
                let hs: Vec<_> = next
                    .chunks(chunk)
                    .map(|nodes| {
                        sc.spawn(move || {
                            let mut out = Vec::new();
                            for node in nodes {
                                let mut s = rebuild(mk_ref, &node.hist);
                                if let Err(f) = guarded(&mut *s, |s| s.finish()) {
                                    out.push((f, node.hist.clone()));
                                }
                            }
                            out
                        })
                    })
                    .collect();
                hs.into_iter().map(|h| h.join().expect("explorer worker died")).collect()
            });
            stats.replays += next.len() as u64;
            for (f, hist) in fails.into_iter().flatten() {
                let mut h = hist_json(&hist);
                if let Value::Array(a) = &mut h {
                    a.push(json!("<finish>"));
                }
                stats
                    .violations
                    .entry(f.sig)
                    .and_modify(|e| e.2 += 1)
                    .or_insert_with(|| (f.detail, h, 1));
            }
        }
        frontier = next;
    }
    stats.closed = frontier.is_empty() && stats.cap_hit.is_none();
    stats
}

/// Replays one history (no explorer) and returns the first failure, if any.
pub fn replay<S: System>(mk: impl Fn() -> S, hist: &Value) -> Result<(), Fail> {
    panics::install_hook();
    let mut s = Own::new(mk());
    let arr = hist.as_array().cloned().unwrap_or_default();
    for v in arr {
        if v == json!("<finish>") {
            return guarded(&mut *s, |s| s.finish());
        }
        let op: S::Op = serde_json::from_value(v.clone()).map_err(|e| {
            Fail::new("machinery/replay-parse", format!("cannot parse op {v}: {e}"))
        })?;
        guarded(&mut *s, |s| s.step(&op))?;
    }
    Ok(())
}

/// Copies the violations of a finished exploration into the report under `sub`.
pub fn file_violations(
    report: &mut crate::Report,
    sub: &str,
    config: Value,
    stats: &ExploreStats,
) {
    for (sig, (detail, hist, hits)) in &stats.violations {
        for _ in 0..(*hits).min(1) {
            report.violation(
                sig,
                detail,
                json!({"sub": sub, "config": config, "history": hist}),
            );
        }
    }
    if let Some(c) = &stats.cap_hit {
        report.caps_hit.push(format!("{sub}: {c}"));
    }
}
