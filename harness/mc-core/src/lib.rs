//! mc-core: the engines shared by every gm-quic harness.
//!
//! * [`report`]  — violations, known findings, replay files, evidence files, exit codes
//! * [`explore`] — E1: explicit-state search over operation histories of real objects
//! * [`sched`]   — E2: controlled scheduler (CHESS style) over logical threads
//! * [`panics`]  — panic capture (a panic in gm-quic code is a violation, never a crash)
//! * [`par`]     — deterministic parallel map used by E0 value enumerations
pub mod explore;
pub mod panics;
pub mod par;
pub mod report;
pub mod sched;

pub use explore::{ExploreCfg, ExploreStats, Fail, System, explore};
pub use report::{Args, Report};

/// Number of worker threads used by the engines (all cores unless VERIF_JOBS is set).
pub fn jobs() -> usize {
    std::env::var("VERIF_JOBS")
        .ok()
        .and_then(|s| s.parse().ok())
        .unwrap_or_else(|| {
            std::thread::available_parallelism()
                .map(|n| n.get())
                .unwrap_or(4)
        })
}

/// 128-bit deterministic hash of a canonical state string.
pub fn hash128(s: &str) -> u128 {
    use std::hash::{Hash, Hasher};
    let mut a = std::collections::hash_map::DefaultHasher::new();
    0x9e37u16.hash(&mut a);
    s.hash(&mut a);
    let mut b = std::collections::hash_map::DefaultHasher::new();
    0x85ebca6bu32.hash(&mut b);
    s.hash(&mut b);
    s.len().hash(&mut b);
    ((a.finish() as u128) << 64) | b.finish() as u128
}
