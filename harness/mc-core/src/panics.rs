//! Panic capture. Every harness body that calls into gm-quic runs under [`catch`]; the
//! message and source location of a panic become part of a violation signature.
use std::{
    cell::RefCell,
    panic::{AssertUnwindSafe, catch_unwind},
    sync::Once,
};

thread_local! {
    static LAST: RefCell<Option<PanicInfo>> = const { RefCell::new(None) };
}

thread_local! {
    /// Every panic seen on this thread since the last [`drain_all`] (tokio tasks swallow
    /// panics; the E3 oracle "nobody panicked" reads this list — E3 executions run on a
    /// current-thread runtime, so all their tasks panic on the worker's own thread).
    static ALL: RefCell<Vec<PanicInfo>> = const { RefCell::new(Vec::new()) };
}

#[derive(Debug, Clone)]
pub struct PanicInfo {
    pub message: String,
    /// `file:line`, with the `/repo/` prefix stripped
    pub location: String,
}

impl PanicInfo {
    /// A stable class for the violation signature: location file + message with digits masked.
    pub fn class(&self) -> String {
        let file = self.location.split(':').next().unwrap_or("?");
        let mut msg: String = self
            .message
            .chars()
            .map(|c| if c.is_ascii_digit() { '#' } else { c })
            .collect();
        while msg.contains("##") {
            msg = msg.replace("##", "#");
        }
        if msg.len() > 90 {
            let mut cut = 90;
            while !msg.is_char_boundary(cut) {
                cut -= 1;
            }
            msg.truncate(cut);
        }
        format!("{file}:{msg}")
    }
}

pub fn install_hook() {
    static ONCE: Once = Once::new();
    ONCE.call_once(|| {
        let verbose = std::env::var_os("VERIF_VERBOSE").is_some();
        let default = std::panic::take_hook();
        std::panic::set_hook(Box::new(move |info| {
            let message = if let Some(s) = info.payload().downcast_ref::<&str>() {
                s.to_string()
            } else if let Some(s) = info.payload().downcast_ref::<String>() {
                s.clone()
            } else {
                "<non-string panic payload>".to_string()
            };
            let location = info
                .location()
                .map(|l| {
                    let f = l.file();
                    let f = f.strip_prefix("/repo/").unwrap_or(f);
                    // a dependency: keep `<crate>-<version>/src/...`, not the machine's registry path
                    let f = match f.find("/registry/src/") {
                        Some(i) => {
                            let rest = &f[i + "/registry/src/".len()..];
                            rest.find('/').map(|j| &rest[j + 1..]).unwrap_or(rest)
                        }
                        None => f,
                    };
                    format!("{}:{}", f, l.line())
                })
                .unwrap_or_else(|| "?".into());
            let pi = PanicInfo { message, location };
            LAST.with(|l| *l.borrow_mut() = Some(pi.clone()));
            ALL.with(|all| {
                if let Ok(mut all) = all.try_borrow_mut() {
                    if all.len() < 1024 {
                        all.push(pi);
                    }
                }
            });
            if verbose {
                default(info);
            }
        }));
    });
}

/// Runs `f`, turning a panic into `Err(PanicInfo)`.
pub fn catch<R>(f: impl FnOnce() -> R) -> Result<R, PanicInfo> {
    install_hook();
    LAST.with(|l| *l.borrow_mut() = None);
    match catch_unwind(AssertUnwindSafe(f)) {
        Ok(r) => Ok(r),
        Err(_) => Err(LAST.with(|l| l.borrow_mut().take()).unwrap_or(PanicInfo {
            message: "<panic on another thread>".into(),
            location: "?".into(),
        })),
    }
}

/// Takes every panic recorded on this thread since the last call.
pub fn drain_all() -> Vec<PanicInfo> {
    ALL.with(|all| std::mem::take(&mut *all.borrow_mut()))
}
