//! Violations, known findings, replay files, evidence files and exit codes.
//!
//! Contract (DESIGN.md §1): exit 0 = held on everything explored (known findings are printed
//! as `KNOWN-FINDING:` lines); exit 1 + `VIOLATION property=<id> replay=<path>` = a violation
//! whose signature is not an *open* entry of `/verif/known_findings.json`; exit 2 = machinery
//! failure (never a verdict).
use std::{
    collections::BTreeMap,
    path::{Path, PathBuf},
    time::Instant,
};

use serde_json::{Map, Value, json};

pub fn verif_root() -> PathBuf {
    std::env::var_os("VERIF_ROOT")
        .map(PathBuf::from)
        .unwrap_or_else(|| PathBuf::from("/verif"))
}

/// Command line shared by every harness binary:
/// `<bin> <property> [--tier quick|thorough] [--replay <file>] [--only <sub>]`
#[derive(Debug, Clone)]
pub struct Args {
    pub property: String,
    pub thorough: bool,
    pub replay: Option<PathBuf>,
    pub only: Option<String>,
    pub seed: i64,
}

impl Args {
    pub fn parse() -> Args {
        let mut it = std::env::args().skip(1);
        let property = it.next().unwrap_or_else(|| {
            eprintln!("usage: <bin> <property> [--tier quick|thorough] [--replay file] [--only sub]");
            std::process::exit(2)
        });
        let mut a = Args {
            property,
            thorough: std::env::var("VERIF_TIER").map(|t| t == "thorough").unwrap_or(false),
            replay: None,
            only: None,
            seed: std::env::var("VERIF_SEED")
                .ok()
                .and_then(|s| s.parse().ok())
                .unwrap_or(0),
        };
        while let Some(x) = it.next() {
            match x.as_str() {
                "--tier" => a.thorough = it.next().as_deref() == Some("thorough"),
                "--replay" => a.replay = it.next().map(PathBuf::from),
                "--only" => a.only = it.next(),
                other => {
                    eprintln!("unknown argument {other}");
                    std::process::exit(2)
                }
            }
        }
        a
    }
    pub fn tier(&self) -> &'static str {
        if self.thorough { "thorough" } else { "quick" }
    }
    /// `--only a,b` restricts a check to the named sub-checks (debugging aid).
    pub fn wants(&self, sub: &str) -> bool {
        match &self.only {
            None => true,
            Some(o) => o.split(',').any(|x| x == sub),
        }
    }
}

#[derive(Debug, Clone)]
pub struct Violation {
    /// `clause/witness-class` — what the known-findings file is keyed on
    pub signature: String,
    pub detail: String,
    /// enough to re-execute without the explorer: `{sub, config, history/input}`
    pub replay: Value,
    /// how many explored cases hit this signature
    pub hits: u64,
}

#[derive(Debug, Clone, serde::Deserialize)]
pub struct KnownFinding {
    pub property: String,
    pub signature: String,
    pub status: String,
    #[serde(default)]
    pub commit: Option<String>,
    pub summary: String,
}

pub fn load_known_findings() -> Vec<KnownFinding> {
    let p = verif_root().join("known_findings.json");
    match std::fs::read_to_string(&p) {
        Ok(s) => serde_json::from_str(&s).unwrap_or_else(|e| {
            eprintln!("machinery error: {} does not parse: {e}", p.display());
            std::process::exit(2)
        }),
        Err(_) => Vec::new(),
    }
}

/// Per-sub-check coverage numbers; summed into the evidence file.
#[derive(Debug, Clone, Default)]
pub struct Coverage {
    pub evaluations: u64,
    pub distinct_nontrivial: u64,
    pub states: u64,
    pub transitions: u64,
    pub traces: u64,
    pub exhaustive: bool,
    pub rule: String,
    pub samples: Vec<Value>,
    pub extra: Map<String, Value>,
}

pub struct Report {
    /// the property id verdict lines, known findings and replay files are filed under
    pub property: String,
    /// when this run is one part of a multi-part check (`VERIF_PART=<name>`), the evidence is
    /// written to `evidence/parts/<property>.<part>.json` and merged by the driver
    pub part: Option<String>,
    pub tier: String,
    pub seed: i64,
    pub level: String,
    started: Instant,
    violations: BTreeMap<String, Violation>,
    subs: BTreeMap<String, Coverage>,
    pub assumptions: Vec<String>,
    pub caps_hit: Vec<String>,
    pub notes: Vec<String>,
}

impl Report {
    pub fn new(args: &Args, level: &str) -> Report {
        crate::panics::install_hook();
        let part = std::env::var("VERIF_PART").ok().filter(|s| !s.is_empty());
        let property = std::env::var("VERIF_PROPERTY_AS")
            .ok()
            .filter(|s| !s.is_empty())
            .unwrap_or_else(|| args.property.clone());
        Report {
            property,
            part,
            tier: args.tier().to_string(),
            seed: args.seed,
            level: level.to_string(),
            started: Instant::now(),
            violations: BTreeMap::new(),
            subs: BTreeMap::new(),
            assumptions: Vec::new(),
            caps_hit: Vec::new(),
            notes: Vec::new(),
        }
    }

    pub fn assume(&mut self, s: &str) {
        self.assumptions.push(s.to_string());
    }

    /// Records a violation; the first (shortest, by exploration order) witness per signature
    /// is kept as the replay.
    pub fn violation(&mut self, signature: &str, detail: &str, replay: Value) {
        self.violations
            .entry(signature.to_string())
            .and_modify(|v| v.hits += 1)
            .or_insert_with(|| Violation {
                signature: signature.to_string(),
                detail: detail.to_string(),
                replay,
                hits: 1,
            });
    }

    pub fn violation_count(&self) -> usize {
        self.violations.len()
    }

    pub fn has_signature(&self, sig: &str) -> bool {
        self.violations.contains_key(sig)
    }

    pub fn sub(&mut self, name: &str, cov: Coverage) {
        eprintln!(
            "[{}:{}] evaluations={} states={} transitions={} distinct_nontrivial={} exhaustive={} ({:.1}s)",
            self.property,
            name,
            cov.evaluations,
            cov.states,
            cov.transitions,
            cov.distinct_nontrivial,
            cov.exhaustive,
            self.started.elapsed().as_secs_f64()
        );
        self.subs.insert(name.to_string(), cov);
    }

    /// Writes evidence + replay files, prints the verdict lines and returns the exit code.
    pub fn finish(self) -> i32 {
        let root = verif_root();
        let known: Vec<KnownFinding> = load_known_findings()
            .into_iter()
            .filter(|k| k.property == self.property)
            .collect();
        let mut unknown = 0;
        let mut matched: Vec<String> = Vec::new();
        let replay_dir = root.join("replays").join(&self.property);
        for v in self.violations.values() {
            let k = known
                .iter()
                .find(|k| k.status == "open" && k.signature == v.signature);
            if let Some(k) = k {
                println!(
                    "KNOWN-FINDING: property={} signature={} hits={} :: {}",
                    self.property, v.signature, v.hits, k.summary
                );
                matched.push(v.signature.clone());
            } else {
                unknown += 1;
                let _ = std::fs::create_dir_all(&replay_dir);
                let path = replay_dir.join(format!("{}.json", sanitize(&v.signature)));
                let body = json!({
                    "property": self.property,
                    "part": self.part,
                    "signature": v.signature,
                    "detail": v.detail,
                    "hits": v.hits,
                    "replay": v.replay,
                });
                let _ = std::fs::write(&path, serde_json::to_string_pretty(&body).unwrap());
                println!("VIOLATION property={} replay={}", self.property, path.display());
                println!("  signature: {}", v.signature);
                println!("  detail: {}", v.detail);
                if let Some(f) = known
                    .iter()
                    .find(|k| k.status == "fixed" && k.signature == v.signature)
                {
                    println!("  note: this signature is recorded as fixed by {:?} — it has returned", f.commit);
                }
            }
        }
        for k in known.iter().filter(|k| k.status == "open") {
            if !matched.contains(&k.signature) {
                eprintln!(
                    "note: open known finding {} was not reached by this {} run",
                    k.signature, self.tier
                );
            }
        }

        // evidence
        let mut evaluations = 0u64;
        let mut distinct = 0u64;
        let mut states = 0u64;
        let mut transitions = 0u64;
        let mut traces = 0u64;
        let mut exhaustive = !self.subs.is_empty();
        let mut rules = Vec::new();
        let mut samples = Vec::new();
        let mut sub_json = Map::new();
        for (name, c) in &self.subs {
            evaluations += c.evaluations;
            distinct += c.distinct_nontrivial;
            states += c.states;
            transitions += c.transitions;
            traces += c.traces;
            exhaustive &= c.exhaustive;
            if !c.rule.is_empty() {
                rules.push(format!("[{name}] {}", c.rule));
            }
            for s in c.samples.iter().take(3) {
                samples.push(json!({"sub": name, "case": s}));
            }
            let mut m = c.extra.clone();
            m.insert("evaluations".into(), json!(c.evaluations));
            m.insert("distinct_nontrivial".into(), json!(c.distinct_nontrivial));
            m.insert("states".into(), json!(c.states));
            m.insert("transitions".into(), json!(c.transitions));
            m.insert("exhaustive".into(), json!(c.exhaustive));
            sub_json.insert(name.clone(), Value::Object(m));
        }
        let mut coverage = Map::new();
        coverage.insert("evaluations".into(), json!(evaluations));
        coverage.insert("distinct_nontrivial".into(), json!(distinct));
        coverage.insert("rule".into(), json!(rules.join(" ; ")));
        coverage.insert("samples".into(), Value::Array(samples));
        if states > 0 {
            coverage.insert("states".into(), json!(states));
            coverage.insert("transitions".into(), json!(transitions.max(1)));
            coverage.insert("traces_validated_against_impl".into(), json!(traces));
        }
        coverage.insert("exhaustive".into(), json!(exhaustive && self.caps_hit.is_empty()));
        coverage.insert("caps_hit".into(), json!(self.caps_hit));
        coverage.insert("sub_checks".into(), Value::Object(sub_json));
        coverage.insert("known_findings_matched".into(), json!(matched));
        coverage.insert("notes".into(), json!(self.notes));
        if self.level == "other" {
            coverage.insert("explanation".into(), json!(rules.join(" ; ")));
        }
        let ev = json!({
            "property_id": self.property,
            "tier": self.tier,
            "seed": self.seed,
            "level": self.level,
            "coverage": Value::Object(coverage),
            "assumptions": self.assumptions,
            "wall_s": self.started.elapsed().as_secs_f64(),
            "violations": unknown,
        });
        let (evdir, evname) = match &self.part {
            Some(part) => (root.join("evidence").join("parts"), format!("{}.{}.json", self.property, part)),
            None => (root.join("evidence"), format!("{}.json", self.property)),
        };
        let _ = std::fs::create_dir_all(&evdir);
        let evpath = evdir.join(evname);
        if let Err(e) = write_atomic(&evpath, &serde_json::to_string_pretty(&ev).unwrap()) {
            eprintln!("machinery error: cannot write {}: {e}", evpath.display());
            return 2;
        }
        eprintln!(
            "[{}] {} tier done in {:.1}s: {} unknown violation signature(s), {} known finding(s)",
            self.property,
            self.tier,
            self.started.elapsed().as_secs_f64(),
            unknown,
            matched.len()
        );
        if unknown > 0 { 1 } else { 0 }
    }
}

fn write_atomic(path: &Path, body: &str) -> std::io::Result<()> {
    let tmp = path.with_extension("json.tmp");
    std::fs::write(&tmp, body)?;
    std::fs::rename(&tmp, path)
}

pub fn sanitize(sig: &str) -> String {
    let mut s: String = sig
        .chars()
        .map(|c| if c.is_ascii_alphanumeric() || c == '-' || c == '.' { c } else { '_' })
        .collect();
    if s.len() > 120 {
        let h = crate::hash128(sig);
        s.truncate(100);
        s.push_str(&format!("_{:08x}", h as u32));
    }
    s
}

/// Loads the `replay` member of a violation file written by [`Report::finish`].
pub fn load_replay(path: &Path) -> Value {
    let s = std::fs::read_to_string(path).unwrap_or_else(|e| {
        eprintln!("cannot read replay file {}: {e}", path.display());
        std::process::exit(2)
    });
    let v: Value = serde_json::from_str(&s).unwrap_or_else(|e| {
        eprintln!("replay file {} does not parse: {e}", path.display());
        std::process::exit(2)
    });
    v.get("replay").cloned().unwrap_or(v)
}
