//! E3 explorer: stateless search over per-datagram fates with a deviation budget, plus the
//! check front-ends (C02, C07c, C15b, C17c, C19b, C20).
use std::collections::{BTreeMap, BTreeSet};

use mc_core::{Args, Report, par::par_map, report::Coverage};
use serde_json::{Value, json};

use crate::{
    net::{Fate, Tail},
    run::{CloseEvent, Closer, Outcome, QlogMode, RunCfg, Workload, run_once},
};

/// The fate alphabet for one datagram of `len` bytes, simplest first.
pub fn alphabet(full: bool) -> Vec<Fate> {
    let mut v = vec![Fate::Drop, Fate::Dup, Fate::Delay];
    if full {
        v.extend([
            Fate::Trunc(0),
            Fate::Trunc(1),
            Fate::Trunc(19),
            Fate::Trunc(u16::MAX - 1), // len-1, resolved by the network
            Fate::Flip(0, 0x80),
            Fate::Flip(0, 0x40),
            Fate::Flip(0, 0x20),
            Fate::Flip(0, 0x10),
            Fate::Flip(0, 0x08),
            Fate::Flip(0, 0x04),
            Fate::Flip(0, 0x01),
            Fate::Flip(4, 0x01),  // version
            Fate::Flip(5, 0x08),  // dcid length (long header) → may push it past 20
            Fate::Flip(5, 0x10),
            Fate::Flip(6, 0x01),  // a cid byte
            Fate::Flip(30, 0x01), // somewhere in the protected part
            Fate::Flip(-17, 0x01), // last payload byte
            Fate::Flip(-1, 0x01), // tag
        ]);
    }
    v
}

#[derive(Debug, Clone)]
pub struct Judged {
    pub sigs: Vec<(String, String)>,
    pub outcome_label: String,
}

/// Monitors that run on every execution, filed under the property that owns them.
pub fn judge(cfg: &RunCfg, o: &Outcome, liveness: bool, family: &str) -> Judged {
    let mut sigs = Vec::new();
    let all = format!("{:?} {:?}", o.client, o.server);
    if family == "C02" {
        for p in &o.panics {
            sigs.push((format!("panic/{}", class_of(p)), format!("panic during the run: {p}")));
        }
        if all.contains("CORRUPT") {
            sigs.push(("safety/corrupt-data-delivered".into(), format!("an application read bytes the peer never sent: {all}")));
        }
        if let Some(p) = o.replay_problems.first() {
            sigs.push(("safety/replayed-packet-accepted".into(), format!("{p} ({} such events)", o.replay_problems.len())));
        }
        if !o.finished {
            let phase = if o.terminated_ms.iter().any(|(s, _)| s == "client-handshaked") { "after-handshake" } else { "during-handshake" };
            sigs.push((
                if liveness { format!("liveness/application-hangs/{phase}") } else { format!("safety/no-error-within-bound/{phase}") },
                format!("the client application had not finished after {} virtual seconds: {all}", cfg.horizon_s),
            ));
        } else if liveness && cfg.untrusted_ca {
            // the handshake must fail and the application must be told
            if o.client.iter().any(|r| r.contains("intact")) {
                sigs.push(("safety/untrusted-server-accepted".into(), format!("the client does not trust the server's CA, yet data was exchanged: {all}")));
            }
        } else if liveness {
            let ok = match cfg.workload {
                Workload::Echo(_) | Workload::TwoStreams(_) => o.client.iter().all(|r| r.contains("intact:w-ok")) && !o.client.is_empty(),
                Workload::UniEachWay(_) => o.client.iter().any(|r| r == "uni-send:ok") && o.client.iter().any(|r| r.contains("intact")),
                Workload::Spaced => o.client.iter().filter(|r| r.contains("intact:w-ok")).count() == 3,
                Workload::Datagrams(_) | Workload::Idle | Workload::PendingOps => true,
            };
            if !ok {
                sigs.push(("liveness/data-not-delivered".into(), format!("bounded faults, yet the transfer did not complete: {all}")));
            }
        }
    }
    if family == "C15" {
        if let Some(a) = &o.amplification {
            sigs.push(("amplification/server-exceeds-3x-before-validation".into(), a.clone()));
        }
    }
    if family == "C07" {
        for p in &o.pn_problems {
            sigs.push(("pn/not-increasing-on-the-wire".into(), p.clone()));
        }
    }
    if family == "C20" {
        let mut seen = BTreeSet::new();
        for p in &o.event_problems {
            let (name, what) = p.split_once(": ").unwrap_or((p, ""));
            if seen.insert((name.to_string(), what.to_string())) {
                sigs.push((format!("event/{name}/{}", mc_core::report::sanitize(&what.chars().take(60).collect::<String>())), p.clone()));
            }
        }
        for p in &o.panics {
            sigs.push((format!("panic/{}", class_of(p)), format!("panic during the run: {p}")));
        }
    }
    Judged { sigs, outcome_label: format!("{}|{}", if o.finished { "fin" } else { "hang" }, summarize(&all)) }
}

fn class_of(p: &str) -> String {
    let s: String = p.chars().map(|c| if c.is_ascii_digit() { '#' } else { c }).collect();
    s.chars().take(100).collect()
}

fn summarize(all: &str) -> String {
    let s: String = all.chars().map(|c| if c.is_ascii_digit() { '#' } else { c }).collect();
    s.replace("##", "#").chars().take(80).collect()
}

pub struct Search {
    pub executions: u64,
    pub with_deviation: u64,
    pub outcomes: BTreeMap<String, u64>,
    pub samples: Vec<Value>,
    pub baseline_len: usize,
    pub max_points: usize,
}

/// Stateless search: all schedules with ≤ `budget` deviations over the first `limit` choice
/// points; after the budget the network is perfect and the run continues to quiescence.
pub fn search(
    report: &mut Report,
    sub: &str,
    cfg: &RunCfg,
    budget: usize,
    limit: usize,
    full_alphabet: bool,
    second_level_alphabet: &[Fate],
    family: &str,
) -> Search {
    let alpha = alphabet(full_alphabet);
    let mut s = Search { executions: 0, with_deviation: 0, outcomes: BTreeMap::new(), samples: Vec::new(), baseline_len: 0, max_points: 0 };
    // determinism self-test: the fault-free execution twice
    let base = run_once(cfg, &[], Tail::None);
    let base2 = run_once(cfg, &[], Tail::None);
    if base.signature() != base2.signature() {
        eprintln!("machinery error: the fault-free execution is not deterministic:\n{}\n{}", base.signature(), base2.signature());
        std::process::exit(2);
    }
    s.baseline_len = base.wire.len();
    let mut frontier: Vec<(Vec<Fate>, Outcome)> = vec![(vec![], base)];
    for level in 0..=budget {
        // judge this level
        for (prefix, o) in &frontier {
            s.executions += 1;
            if level > 0 {
                s.with_deviation += 1;
            }
            s.max_points = s.max_points.max(o.wire.len());
            let j = judge(cfg, o, true, family);
            *s.outcomes.entry(j.outcome_label.clone()).or_default() += 1;
            for (sig, detail) in j.sigs {
                report.violation(&sig, &detail, json!({"sub": sub, "config": cfg, "prefix": trim(prefix), "tail": "None"}));
            }
            if s.samples.len() < 3 && level == budget.min(1) {
                s.samples.push(json!({"prefix": trim(prefix), "client": o.client, "datagrams": o.wire.len()}));
            }
        }
        if level == budget {
            break;
        }
        // children: one more deviation at a later point
        let mut children: Vec<Vec<Fate>> = Vec::new();
        for (prefix, o) in &frontier {
            let start = prefix.len();
            let end = o.wire.len().min(limit);
            let alpha_here: &[Fate] = if level == 0 { &alpha } else { second_level_alphabet };
            for i in start..end {
                for f in alpha_here {
                    let mut p = prefix.clone();
                    p.resize(i, Fate::Deliver);
                    let f = match *f {
                        Fate::Trunc(k) if k == u16::MAX - 1 => Fate::Trunc(o.wire[i].len.saturating_sub(1) as u16),
                        other => other,
                    };
                    p.push(f);
                    children.push(p);
                }
            }
        }
        let outs = par_map(&children, |p| run_once(cfg, p, Tail::None));
        frontier = children.into_iter().zip(outs).collect();
    }
    s
}

fn trim(p: &[Fate]) -> Vec<String> {
    p.iter().enumerate().filter(|(_, f)| **f != Fate::Deliver).map(|(i, f)| format!("{i}:{f:?}")).collect()
}

fn coverage(s: &Search, rule: String) -> Coverage {
    let mut extra = serde_json::Map::new();
    extra.insert("baseline_datagrams".into(), json!(s.baseline_len));
    extra.insert("max_choice_points".into(), json!(s.max_points));
    extra.insert("distinct_outcomes".into(), json!(s.outcomes.len()));
    extra.insert("outcomes".into(), json!(s.outcomes));
    Coverage {
        evaluations: s.executions,
        distinct_nontrivial: s.with_deviation,
        exhaustive: true,
        rule,
        samples: s.samples.clone(),
        extra,
        ..Default::default()
    }
}

fn workloads(thorough: bool) -> Vec<(&'static str, RunCfg)> {
    let mut v = Vec::new();
    let mut a = RunCfg::new(Workload::Echo(3000));
    a.idle_timeout_ms = 4000;
    v.push(("echo3k", a.clone()));
    let mut b = RunCfg::new(Workload::Echo(0));
    b.idle_timeout_ms = 4000;
    v.push(("echo0", b));
    let mut c = RunCfg::new(Workload::TwoStreams(2000));
    c.tiny_windows = true;
    c.idle_timeout_ms = 4000;
    v.push(("two-streams-tiny-windows", c));
    let mut d = RunCfg::new(Workload::UniEachWay(1000));
    d.idle_timeout_ms = 4000;
    d.max_segments = 1;
    v.push(("uni-each-way-seg1", d));
    // a handshake that fails with a TLS alert (the client does not trust the server's CA)
    let mut f = RunCfg::new(Workload::Echo(10));
    f.idle_timeout_ms = 4000;
    f.untrusted_ca = true;
    f.horizon_s = 30;
    v.push(("tls-alert", f));
    if thorough {
        let mut e = a.clone();
        e.max_segments = 16;
        e.tiny_windows = true;
        v.push(("echo3k-tiny-seg16", e));
    }
    v
}

// ---------------- C02 ----------------

pub fn c02(args: &Args) -> i32 {
    let mut report = Report::new(args, "fault_enumeration");
    report.assume("single-threaded tokio runtime with a paused clock: every execution is a deterministic function of the fate sequence (self-tested per workload); multi-threaded scheduling of the stack is not explored");
    report.assume("Ed25519 test certificate (fixed-length signatures); random connection ids / TLS randoms change values, not lengths or control flow");
    if args.replay.is_some() {
        return replay(args);
    }
    let th = args.thorough;
    for (name, cfg) in workloads(th) {
        if !args.wants(name) {
            continue;
        }
        // liveness profile: bounded faults
        let s = search(&mut report, name, &cfg, 1, usize::MAX, true, &[], "C02");
        report.sub(
            &format!("liveness-d1/{name}"),
            coverage(&s, "all schedules with exactly ≤ 1 deviation: at every datagram of the run one of {drop, dup, delay, 4 truncations, 14 bit-flip classes}; the network is perfect afterwards and the run continues to quiescence; distinct = executions with a deviation".into()),
        );
        if th || matches!(name, "echo3k" | "echo0" | "uni-each-way-seg1") {
            let (limit, second): (usize, Vec<Fate>) = if th {
                (40, alphabet(false))
            } else if name == "echo3k" {
                (24, vec![Fate::Drop, Fate::Delay, Fate::Dup])
            } else {
                (14, vec![Fate::Drop, Fate::Delay])
            };
            let s2 = search(&mut report, name, &cfg, 2, limit, false, &second, "C02");
            report.sub(
                &format!("liveness-d2/{name}"),
                coverage(&s2, format!("all schedules with ≤ 2 deviations from {{drop, dup, delay}} (second: {second:?}) over the first {limit} datagrams")),
            );
        }
        // replay profile: every datagram once duplicated at once and once replayed 1.5 s later,
        // judged from the receiver's captured qlog (no second packet_received for the same number)
        if name == "echo3k" || th {
            let mut rcfg = if name == "echo3k" { let mut c = RunCfg::new(Workload::Spaced); c.idle_timeout_ms = 4000; c } else { cfg.clone() };
            rcfg.qlog = QlogMode::Capture;
            rcfg.horizon_s = 40;
            let base = run_once(&rcfg, &[], Tail::None);
            let mut prefixes = Vec::new();
            for i in 0..base.wire.len() {
                for f in [Fate::Dup, Fate::Replay(900), Fate::Replay(1500), Fate::Replay(2500)] {
                    let mut p = vec![Fate::Deliver; i];
                    p.push(f);
                    prefixes.push(p);
                }
            }
            let outs = par_map(&prefixes, |p| run_once(&rcfg, p, Tail::None));
            let mut outcomes: BTreeMap<String, u64> = BTreeMap::new();
            let mut logged = 0u64;
            for (p, o) in prefixes.iter().zip(&outs) {
                logged += o.events.len() as u64;
                let j = judge(&rcfg, o, true, "C02");
                *outcomes.entry(j.outcome_label).or_default() += 1;
                for (sig, detail) in j.sigs {
                    report.violation(&sig, &detail, json!({"sub": format!("replay/{name}"), "config": rcfg, "prefix": trim(p), "tail": "None"}));
                }
            }
            let mut extra = serde_json::Map::new();
            extra.insert("outcomes".into(), json!(outcomes));
            extra.insert("qlog_events_inspected".into(), json!(logged));
            report.sub(
                &format!("replay/{name}"),
                Coverage {
                    evaluations: prefixes.len() as u64,
                    distinct_nontrivial: prefixes.len() as u64,
                    exhaustive: true,
                    rule: "a long-lived connection (handshake, then three small echoes one virtual second apart): every datagram duplicated at once, and every datagram replayed 0.9 / 1.5 / 2.5 virtual seconds later; the receiver's captured qlog must never show two packet_received events for the same (space, packet number), nothing corrupt is read, nobody panics".into(),
                    samples: vec![json!({"prefix": trim(&prefixes[prefixes.len() / 2]), "datagrams": outs[prefixes.len() / 2].wire.len()})],
                    extra,
                    ..Default::default()
                },
            );
        }
        // safety profile: unbounded faults from datagram k on
        let n = s.baseline_len;
        let mut tails = Vec::new();
        for k in 0..n {
            tails.push(Tail::DropAll { from: k });
            tails.push(Tail::FlipFirstByteAll { from: k });
            tails.push(Tail::TruncAll { from: k, k: 10 });
            tails.push(Tail::DupAll { from: k });
        }
        // bounded time = idle timeout (4 s) + a few PTOs; 25 virtual seconds is generous
        let mut scfg = cfg.clone();
        scfg.horizon_s = 25;
        let cfg = scfg;
        let outs = par_map(&tails, |t| run_once(&cfg, &[], *t));
        let mut outcomes: BTreeMap<String, u64> = BTreeMap::new();
        for (t, o) in tails.iter().zip(&outs) {
            let dup = matches!(t, Tail::DupAll { .. });
            let j = judge(&cfg, o, dup, "C02");
            *outcomes.entry(j.outcome_label).or_default() += 1;
            for (sig, detail) in j.sigs {
                report.violation(&sig, &format!("{t:?}: {detail}"), json!({"sub": name, "config": cfg, "prefix": [], "tail": format!("{t:?}")}));
            }
        }
        let mut extra = serde_json::Map::new();
        extra.insert("outcomes".into(), json!(outcomes));
        report.sub(
            &format!("safety/{name}"),
            Coverage {
                evaluations: tails.len() as u64,
                distinct_nontrivial: outcomes.len() as u64,
                exhaustive: true,
                rule: "for every (quick: every second) datagram index k of the fault-free run: from k on drop everything / flip the fixed bit of every datagram / truncate everything to 10 bytes / duplicate everything; nothing corrupt is delivered, nobody panics, the client application ends (with an error) within 25 virtual seconds (idle timeout 4 s); distinct = distinct outcome classes".into(),
                samples: vec![json!({"tail": format!("{:?}", tails.first()), "client": outs.first().map(|o| o.client.clone())})],
                extra,
                ..Default::default()
            },
        );
    }
    report.finish()
}

fn replay(args: &Args) -> i32 {
    let r = mc_core::report::load_replay(args.replay.as_ref().unwrap());
    let cfg: RunCfg = match serde_json::from_value(r["config"].clone()) {
        Ok(c) => c,
        Err(e) => {
            eprintln!("replay config does not parse: {e}");
            return 2;
        }
    };
    let mut prefix: Vec<Fate> = Vec::new();
    for item in r["prefix"].as_array().cloned().unwrap_or_default() {
        if let Some(s) = item.as_str() {
            if let Some((i, f)) = s.split_once(':') {
                let i: usize = i.parse().unwrap_or(0);
                prefix.resize(i, Fate::Deliver);
                prefix.push(parse_fate(f));
            }
        }
    }
    let o = run_once(&cfg, &prefix, Tail::None);
    println!("replay: finished={} client={:?} server={:?} panics={:?} amplification={:?} event_problems={:?}", o.finished, o.client, o.server, o.panics, o.amplification, o.event_problems.iter().take(3).collect::<Vec<_>>());
    let fam = std::env::var("VERIF_PROPERTY_AS").unwrap_or_else(|_| "C02".into());
    if judge(&cfg, &o, true, &fam).sigs.is_empty() { 0 } else { 1 }
}

fn parse_fate(s: &str) -> Fate {
    let s = s.trim();
    if s == "Drop" {
        Fate::Drop
    } else if s == "Dup" {
        Fate::Dup
    } else if s == "Delay" {
        Fate::Delay
    } else if let Some(k) = s.strip_prefix("Replay(").and_then(|x| x.strip_suffix(')')) {
        Fate::Replay(k.parse().unwrap_or(1500))
    } else if let Some(k) = s.strip_prefix("Trunc(").and_then(|x| x.strip_suffix(')')) {
        Fate::Trunc(k.parse().unwrap_or(0))
    } else if let Some(k) = s.strip_prefix("Flip(").and_then(|x| x.strip_suffix(')')) {
        let (a, b) = k.split_once(',').unwrap_or(("0", "1"));
        Fate::Flip(a.trim().parse().unwrap_or(0), b.trim().parse().unwrap_or(1))
    } else {
        Fate::Deliver
    }
}

// ---------------- C07c / C15b: monitors over the same schedules ----------------

pub fn monitors(args: &Args, family: &str) -> i32 {
    let mut report = Report::new(args, "fault_enumeration");
    report.assume("end-to-end monitor over every explored E3 execution (see C02 for the engine's assumptions)");
    if args.replay.is_some() {
        return replay(args);
    }
    for (name, mut cfg) in workloads(false) {
        if family == "C07" {
            cfg.qlog = QlogMode::Capture;
        }
        if family == "C15" && name != "echo3k" && name != "two-streams-tiny-windows" {
            continue;
        }
        let segs: Vec<usize> = if family == "C15" { vec![1, 4, 16] } else { vec![cfg.max_segments] };
        for seg in segs {
            cfg.max_segments = seg;
            let sub = format!("{name}-seg{seg}");
            let s = search(&mut report, &sub, &cfg, 1, usize::MAX, args.thorough, &[], family);
            report.sub(
                &sub,
                coverage(&s, if family == "C07" {
                    "from the captured qlog packet_sent events of every execution with ≤ 1 deviation: packet numbers strictly increase per (endpoint, space)".into()
                } else {
                    "at every datagram the server sends before a client Handshake packet has reached it: cumulative bytes to the client ≤ 3 × cumulative bytes from it, in every execution with ≤ 1 deviation".into()
                }),
            );
        }
    }
    report.finish()
}

// ---------------- C20 ----------------

pub fn c20(args: &Args) -> i32 {
    let mut report = Report::new(args, "fault_enumeration");
    report.assume("events of the kinds the transport really emits along handshake, transfer, loss and close are covered; builders never reached by a connection are not");
    if args.replay.is_some() {
        return replay(args);
    }
    let mut total_events = 0u64;
    let mut names: BTreeMap<String, u64> = BTreeMap::new();
    let mut wl = workloads(args.thorough);
    {
        // the event builders fed with legal but extreme parameter values
        let mut x = RunCfg::new(Workload::Echo(0));
        x.idle_timeout_ms = 4000;
        x.extreme_params = true;
        wl.push(("echo0-extreme-params", x));
    }
    for (name, cfg0) in wl {
        // a few fate sequences: fault-free + every single drop (quick: every third)
        let mut base = cfg0.clone();
        base.qlog = QlogMode::None;
        let b = run_once(&base, &[], Tail::None);
        let n = b.wire.len();
        // fate sequences: fault-free + one deviation at a datagram: loss, duplication, reordering
        // (these make the receiver *drop* packets — keys already discarded, duplicates,
        // undecryptable — whose events are built on other code paths than those of a clean
        // run); thorough adds a header bit flip, a truncation and a late replay. Quick: every
        // datagram of the handshake (first 16), every third afterwards.
        let mut prefixes: Vec<Vec<Fate>> = vec![vec![]];
        let menu: Vec<Fate> = if args.thorough {
            vec![Fate::Drop, Fate::Dup, Fate::Delay, Fate::Flip(0, 0x08), Fate::Trunc(24), Fate::Replay(3000)]
        } else {
            vec![Fate::Drop, Fate::Dup, Fate::Delay]
        };
        for i in 0..n {
            if !args.thorough && i >= 16 && i % 3 != 0 {
                continue;
            }
            for f in &menu {
                let mut p = vec![Fate::Deliver; i];
                p.push(*f);
                prefixes.push(p);
            }
        }
        let modes = [QlogMode::None, QlogMode::Noop, QlogMode::Capture, QlogMode::Filtered];
        let jobs: Vec<(Vec<Fate>, QlogMode)> = prefixes.iter().flat_map(|p| modes.iter().map(move |m| (p.clone(), *m))).collect();
        let outs = par_map(&jobs, |(p, m)| {
            let mut c = cfg0.clone();
            c.qlog = *m;
            run_once(&c, p, Tail::None)
        });
        let mut by_prefix: BTreeMap<String, Vec<(QlogMode, &Outcome)>> = BTreeMap::new();
        for ((p, m), o) in jobs.iter().zip(&outs) {
            by_prefix.entry(format!("{:?}", trim(p))).or_default().push((*m, o));
            let mut c = cfg0.clone();
            c.qlog = *m;
            for (sig, detail) in judge(&c, o, true, "C20").sigs {
                report.violation(&sig, &detail, json!({"sub": name, "config": c, "prefix": trim(p), "tail": "None"}));
            }
            total_events += o.events.len() as u64;
            for e in &o.events {
                *names.entry(e.split_once(':').map(|x| x.1.to_string()).unwrap_or_default()).or_default() += 1;
            }
        }
        // O3: purely observational
        for (p, runs) in &by_prefix {
            let reference = runs[0].1.signature();
            for (m, o) in runs {
                if o.signature() != reference {
                    report.violation(
                        "observational/behaviour-differs-with-logging",
                        &format!("fate sequence {p}: with qlog {m:?} the trace/app signature differs from the run without logging: {:?} vs {:?}", o.client, runs[0].1.client),
                        json!({"sub": name, "config": cfg0, "prefix": p, "mode": format!("{m:?}")}),
                    );
                }
            }
        }
        let mut extra = serde_json::Map::new();
        extra.insert("fate_sequences".into(), json!(prefixes.len()));
        report.sub(
            name,
            Coverage {
                evaluations: jobs.len() as u64,
                distinct_nontrivial: (prefixes.len() * 3) as u64,
                exhaustive: true,
                rule: "fault-free run and every schedule with one deviation (drop, duplicate, delay; thorough also header bit flip, truncation, late replay) at a datagram (quick: each of the first 16, every third afterwards) × exporter configurations {none, no-op, capturing, capturing+filter(transport,recovery)}: every captured event serialises with time/name/data, parses back equal, re-serialises identically; no panic; trace + application signature identical across configurations; distinct = (schedule, non-none configuration) pairs".into(),
                samples: vec![json!({"workload": name, "events_first_run": outs.get(2).map(|o| o.events.len())})],
                extra,
                ..Default::default()
            },
        );
    }
    report.notes.push(format!("{total_events} events captured; kinds: {:?}", names));
    report.finish()
}

// ---------------- C17c ----------------

pub fn c17c(args: &Args) -> i32 {
    let mut report = Report::new(args, "fault_enumeration");
    report.assume("close events are injected when the wire has carried k datagrams; pending operations are whatever the workload has outstanding at that moment");
    if args.replay.is_some() {
        return replay(args);
    }
    // (1) close at every point of the run, by client / server / both
    for (name, cfg0) in workloads(false).into_iter().take(if args.thorough { 4 } else { 2 }) {
        let b = run_once(&cfg0, &[], Tail::None);
        let n = b.wire.len();
        let mut jobs = Vec::new();
        for at in (0..=n).step_by(if args.thorough { 1 } else { 2 }) {
            for who in [Closer::Client, Closer::Server, Closer::Both] {
                let mut c = cfg0.clone();
                c.close = Some(CloseEvent { at, who });
                c.horizon_s = 30;
                jobs.push(c);
            }
        }
        let outs = par_map(&jobs, |c| run_once(c, &[], Tail::None));
        let mut outcomes: BTreeMap<String, u64> = BTreeMap::new();
        for (c, o) in jobs.iter().zip(&outs) {
            let all = format!("{:?} {:?}", o.client, o.server);
            *outcomes.entry(format!("{}|{}", o.finished, summarize(&all))).or_default() += 1;
            let rp = json!({"sub": name, "config": c, "prefix": [], "tail": "None"});
            if !o.finished {
                report.violation("close/pending-operation-hangs", &format!("close {:?}: the client application still blocks 30 virtual seconds later: {all}", c.close), rp.clone());
            }
            for p in &o.panics {
                report.violation(&format!("panic/{}", class_of(p)), &format!("close {:?}: {p}", c.close), rp.clone());
            }
            if all.contains("CORRUPT") {
                report.violation("close/corrupt-data", &format!("close {:?}: {all}", c.close), rp.clone());
            }
            // both sides must learn of the termination
            let sides: BTreeSet<&str> = o.terminated_ms.iter().map(|(s, _)| s.as_str()).collect();
            if o.finished && !sides.contains("client") {
                report.violation("close/client-never-terminated", &format!("close {:?}: terminated() never resolved on the client: {all}", c.close), rp.clone());
            }
        }
        let mut extra = serde_json::Map::new();
        extra.insert("outcomes".into(), json!(outcomes));
        report.sub(
            &format!("close/{name}"),
            Coverage {
                evaluations: jobs.len() as u64,
                distinct_nontrivial: outcomes.len() as u64,
                exhaustive: true,
                rule: "at every (quick: every second) datagram index of the fault-free run × {client closes, server closes, both in the same instant}: every application future completes within 30 virtual seconds, nobody panics, nothing corrupt is read; distinct = outcome classes".into(),
                samples: vec![json!({"close": format!("{:?}", jobs.first().and_then(|c| c.close)), "client": outs.first().map(|o| o.client.clone())})],
                extra,
                ..Default::default()
            },
        );
    }
    // (1b) one operation of every kind parked on both sides, then a close
    {
        let cfg0 = RunCfg::new(Workload::PendingOps);
        // the fault-free run never ends by itself: find the length of the handshake phase from
        // a run that is closed late
        let mut probe = cfg0.clone();
        probe.close = Some(CloseEvent { at: 10_000, who: Closer::Client });
        probe.horizon_s = 5;
        let n = run_once(&probe, &[], Tail::None).wire.len();
        let mut jobs = Vec::new();
        for at in (0..=n + 1).step_by(if args.thorough { 1 } else { 2 }) {
            for who in [Closer::Client, Closer::Server, Closer::Both] {
                let mut c = cfg0.clone();
                c.close = Some(CloseEvent { at, who });
                c.horizon_s = 30;
                jobs.push(c);
            }
        }
        let outs = par_map(&jobs, |c| run_once(c, &[], Tail::None));
        let mut outcomes: BTreeMap<String, u64> = BTreeMap::new();
        for (c, o) in jobs.iter().zip(&outs) {
            let all = format!("{:?} {:?}", o.client, o.server);
            *outcomes.entry(format!("{}|{}", o.finished, summarize(&all))).or_default() += 1;
            let rp = json!({"sub": "close/pending-ops", "config": c, "prefix": [], "tail": "None"});
            for p in &o.panics {
                report.violation(&format!("panic/{}", class_of(p)), &format!("close {:?}: {p}", c.close), rp.clone());
            }
            // the close was injected after the handshake iff somebody logged a pending:* line or
            // the connection existed; judge the parked operations of a side only if that side got
            // as far as parking them (its terminated() line is there or the task hangs)
            for (side, lines, kinds) in [
                ("client", &o.client, &["accept-bi", "accept-uni", "datagram-recv", "stream-read", "terminated"][..]),
                ("server", &o.server, &["accept-bi", "accept-uni", "datagram-recv", "terminated"][..]),
            ] {
                let parked = lines.iter().any(|l| l.starts_with("pending:")) || (side == "client" && !o.finished);
                if !parked {
                    continue;
                }
                for k in kinds {
                    if !lines.iter().any(|l| l.starts_with(&format!("pending:{k}:"))) {
                        report.violation(
                            &format!("close/pending-operation-hangs/{k}"),
                            &format!("close {:?}: the {side}'s parked {k} had not ended 30 virtual seconds after the close: {all}", c.close),
                            rp.clone(),
                        );
                    }
                }
            }
        }
        let mut extra = serde_json::Map::new();
        extra.insert("outcomes".into(), json!(outcomes));
        report.sub(
            "close/pending-ops",
            Coverage {
                evaluations: jobs.len() as u64,
                distinct_nontrivial: outcomes.len() as u64,
                exhaustive: true,
                rule: "both sides park accept_bi, accept_uni, a datagram receive, terminated() (client also a read on an open stream whose peer stays silent); close injected at every (quick: every second) datagram index × {client, server, both}: every parked operation of a side that got as far as parking them ends within 30 virtual seconds".into(),
                samples: vec![json!({"client": outs.last().map(|o| o.client.clone()), "server": outs.last().map(|o| o.server.clone())})],
                extra,
                ..Default::default()
            },
        );
    }
    // (2) idle timeout: closed after the negotiated timeout and not before
    let mut evals = 0;
    let mut samples = Vec::new();
    let mut outcomes = BTreeSet::new();
    for (ci, si) in [(1000u64, 1000u64), (1000, 2000), (2000, 1000), (0, 1000), (1000, 0), (3000, 3000)] {
        let mut c = RunCfg::new(Workload::Idle);
        c.horizon_s = 40;
        // run_once sets the same idle timeout on both sides; use the smaller non-zero here and
        // the asymmetric cases through the dedicated fields
        c.idle_timeout_ms = ci;
        c.idle_timeout_server_ms = Some(si);
        let o = run_once(&c, &[], Tail::None);
        evals += 1;
        let expected = match (ci, si) {
            (0, x) | (x, 0) => x,
            (a, b) => a.min(b),
        };
        let rp = json!({"sub": "idle", "config": c, "prefix": [], "tail": "None"});
        outcomes.insert(format!("{:?}", o.terminated_ms.iter().map(|(s, t)| (s.clone(), t / 100)).collect::<Vec<_>>()));
        if samples.len() < 3 {
            samples.push(json!({"client_idle_ms": ci, "server_idle_ms": si, "terminated_ms": o.terminated_ms, "last_datagram_ms": o.wire.last().map(|w| w.at_ms)}));
        }
        // t0 = the last ack-eliciting exchange: approximated by the echo completion
        let echo_done = o.wire.iter().filter(|w| w.len > 60).map(|w| w.at_ms).last().unwrap_or(0);
        for side in ["client", "server"] {
            match o.terminated_ms.iter().find(|(s, _)| s == side) {
                None => report.violation(
                    "idle/never-closed",
                    &format!("idle timeouts client {ci} ms / server {si} ms: the {side} never terminated within 40 virtual seconds"),
                    rp.clone(),
                ),
                Some((_, t)) => {
                    if expected > 0 && *t + 5 < expected {
                        report.violation(
                            "idle/closed-before-timeout",
                            &format!("idle timeouts client {ci} / server {si} (effective {expected} ms): the {side} terminated at {t} ms after start, before the timeout could have elapsed"),
                            rp.clone(),
                        );
                    }
                    // upper bound: last exchange + effective timeout + defer + 3 PTO (generous)
                    let upper = echo_done + expected + 4000;
                    if expected > 0 && *t > upper {
                        report.violation(
                            "idle/closed-too-late",
                            &format!("idle timeouts client {ci} / server {si} (effective {expected} ms): the {side} terminated at {t} ms, later than {upper} ms"),
                            rp.clone(),
                        );
                    }
                }
            }
        }
    }
    report.sub(
        "idle",
        Coverage {
            evaluations: evals,
            distinct_nontrivial: outcomes.len() as u64,
            exhaustive: true,
            rule: "idle workload over max_idle_timeout pairs {1 s,2 s,3 s,0}²-subset: each side terminates no earlier than the effective timeout (min non-zero) and no later than last exchange + timeout + 4 s".into(),
            samples,
            ..Default::default()
        },
    );
    report.finish()
}

// ---------------- C19b ----------------

pub fn c19b(args: &Args) -> i32 {
    let mut report = Report::new(args, "fault_enumeration");
    if args.replay.is_some() {
        return replay(args);
    }
    // (datagrams each way, max_datagram_frame_size advertised by client / server)
    let variants: Vec<(usize, Option<(u32, u32)>)> = vec![(1, None), (3, None), (3, Some((65535, 100))), (3, Some((100, 65535))), (3, Some((1200, 0))), (3, Some((0, 1200)))];
    for (k, dm) in variants {
        let mut cfg = RunCfg::new(Workload::Datagrams(k));
        cfg.dgram_max = dm;
        let subname = match dm {
            None => format!("datagrams{k}"),
            Some((c, s)) => format!("datagrams{k}-max{c}-{s}"),
        };
        let base = run_once(&cfg, &[], Tail::None);
        let n = base.wire.len();
        let mut prefixes: Vec<Vec<Fate>> = vec![vec![]];
        for i in 0..n.min(if args.thorough { 60 } else { 30 }) {
            let mut p = vec![Fate::Deliver; i];
            p.push(Fate::Drop);
            prefixes.push(p);
        }
        let outs = par_map(&prefixes, |p| run_once(&cfg, p, Tail::None));
        let mut outcomes: BTreeMap<String, u64> = BTreeMap::new();
        for (p, o) in prefixes.iter().zip(&outs) {
            let all = format!("{:?} {:?}", o.client, o.server);
            *outcomes.entry(summarize(&all)).or_default() += 1;
            let rp = json!({"sub": subname, "config": cfg, "prefix": trim(p), "tail": "None"});
            for p in &o.panics {
                report.violation(&format!("panic/{}", class_of(p)), p, rp.clone());
            }
            if all.contains("CORRUPT") {
                report.violation("datagram/altered-or-merged", &format!("a received datagram matches none that was sent: {all}"), rp.clone());
            }
            // admission: the peer's advertised maximum decides (RFC 9221 §3: the maximum is the
            // size of the whole frame). A payload of L bytes needs at least 1 + L bytes in its
            // shortest form and at most 1 + varint(L) + L: beyond the former it cannot fit and
            // must be refused, within the latter it fits in every form and may not be refused
            // "because it cannot fit"; a peer maximum of 0 means datagrams are not supported.
            let (cmax, smax) = dm.unwrap_or((1200, 1200));
            for (side, peer_max, who, tag0) in [(&o.client, smax, "client", 0usize), (&o.server, cmax, "server", 100usize)] {
                let _ = tag0;
                if side.iter().any(|r| r == "dg-unavailable") {
                    if peer_max > 0 && cmax > 0 && smax > 0 {
                        report.violation("datagram/unavailable-although-both-sides-enabled", &format!("{who}: datagram reader/writer refused although both sides advertise a maximum > 0: {all}"), rp.clone());
                    }
                    continue;
                }
                for i in 0..k {
                    let len = (10 + i * 90) as u64;
                    let Some(r) = side.iter().find(|r| r.starts_with(&format!("dg-send{i}:"))) else { continue };
                    let accepted = r.ends_with("true");
                    let varint = if len < 64 { 1 } else { 2 };
                    if accepted && (peer_max == 0 || 1 + len > peer_max as u64) {
                        report.violation(
                            "datagram/accepted-beyond-peer-maximum",
                            &format!("{who}: a datagram of {len} bytes was accepted although the peer advertised max_datagram_frame_size = {peer_max} (own value {}): {all}", if who == "client" { cmax } else { smax }),
                            rp.clone(),
                        );
                    }
                    if !accepted && peer_max > 0 && 1 + varint + len <= peer_max as u64 {
                        report.violation(
                            "datagram/refused-although-it-fits",
                            &format!("{who}: a datagram of {len} bytes was refused although the peer advertised max_datagram_frame_size = {peer_max} (own value {}): {all}", if who == "client" { cmax } else { smax }),
                            rp.clone(),
                        );
                    }
                }
            }
            for side in [&o.client, &o.server] {
                let accepted = side.iter().filter(|r| r.starts_with("dg-send") && r.ends_with("true")).count();
                let recv = side.iter().find(|r| r.starts_with("dg-recv:")).map(|r| r[8..].to_string());
                // order among those that arrive
                if let Some(r) = &recv {
                    let idx: Vec<usize> = r.split(',').filter_map(|x| x.parse().ok()).collect();
                    if !idx.windows(2).all(|w| w[0] < w[1]) {
                        report.violation("datagram/reordered-or-duplicated", &format!("datagrams arrived as {idx:?}: {all}"), rp.clone());
                    }
                }
                let _ = accepted;
            }
            // "an accepted datagram on an open, uncongested connection is actually put on the wire":
            // in the fault-free run every accepted datagram must arrive
            if p.is_empty() {
                for (tx, rx, who) in [(&o.client, &o.server, "client→server"), (&o.server, &o.client, "server→client")] {
                    let accepted = tx.iter().filter(|r| r.starts_with("dg-send") && r.ends_with("true")).count();
                    let got = rx.iter().find(|r| r.starts_with("dg-recv:")).map(|r| r[8..].split(',').filter(|x| !x.is_empty()).count()).unwrap_or(0);
                    if accepted > 0 && got < accepted {
                        report.violation(
                            "datagram/accepted-but-never-on-the-wire",
                            &format!("{who}: {accepted} datagram(s) accepted by send_bytes on an open, fault-free connection, {got} received: {all}"),
                            rp.clone(),
                        );
                    }
                }
            }
        }
        let mut extra = serde_json::Map::new();
        extra.insert("outcomes".into(), json!(outcomes));
        report.sub(
            &subname,
            Coverage {
                evaluations: prefixes.len() as u64,
                distinct_nontrivial: (prefixes.len() - 1) as u64,
                exhaustive: true,
                rule: format!("{k} datagram(s) each way after the handshake: fault-free run (all accepted datagrams must arrive unchanged, unmerged, in order) and every single-drop schedule over the first {} datagrams (the delivered ones are an in-order subsequence, unchanged)", n.min(if args.thorough { 60 } else { 30 })),
                samples: vec![json!({"client": base.client, "server": base.server})],
                extra,
                ..Default::default()
            },
        );
    }
    report.finish()
}
