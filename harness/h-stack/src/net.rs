//! E3 — the in-memory datagram network. Every datagram handed to a [`SimIo`] is a choice
//! point: its fate comes from the schedule prefix (deliver by default).
use std::{
    collections::{HashMap, VecDeque},
    io,
    net::SocketAddr,
    sync::{Arc, Mutex},
    task::{Context, Poll, Waker},
};

use bytes::BytesMut;
use dquic::{
    qbase::net::route::{Line, Link, Pathway, Route},
    qinterface::{bind_uri::BindUri, io::IO},
};
use serde::{Deserialize, Serialize};

#[derive(Debug, Clone, Copy, PartialEq, Eq, Serialize, Deserialize)]
pub enum Fate {
    Deliver,
    Drop,
    /// deliver twice
    Dup,
    /// hold until the next datagram in the same direction has been delivered (reordering)
    Delay,
    /// keep only the first `k` bytes
    Trunc(u16),
    /// flip one bit: (byte index, bit); byte index counted from the end when negative
    Flip(i16, u8),
    /// deliver now and deliver an identical copy again `ms` virtual milliseconds later
    /// (a replay after the receiver's duplicate-detection window has moved on)
    Replay(u32),
}

impl Fate {
    pub fn is_deviation(&self) -> bool {
        *self != Fate::Deliver
    }
}

/// What happens to every datagram from index `from` on (safety profiles, unbounded faults).
#[derive(Debug, Clone, Copy, PartialEq, Eq, Serialize, Deserialize)]
pub enum Tail {
    None,
    DropAll { from: usize },
    FlipFirstByteAll { from: usize },
    TruncAll { from: usize, k: u16 },
    DupAll { from: usize },
}

#[derive(Debug, Clone, Serialize)]
pub struct WireEvent {
    pub idx: usize,
    pub from: SocketAddr,
    pub to: SocketAddr,
    pub len: usize,
    /// first byte with the header-protected bits masked
    pub first: u8,
    pub fate: Fate,
    pub at_ms: u64,
}

struct Inbox {
    queue: VecDeque<(Vec<u8>, SocketAddr)>,
    waker: Option<Waker>,
}

pub struct NetState {
    inboxes: HashMap<SocketAddr, Inbox>,
    pub log: Vec<WireEvent>,
    prefix: Vec<Fate>,
    tail: Tail,
    held: Vec<(SocketAddr, SocketAddr, Vec<u8>)>,
    /// bytes per (from → to) direction, for the anti-amplification monitor
    pub sent_bytes: HashMap<(SocketAddr, SocketAddr), u64>,
    pub amplification_violation: Option<String>,
    /// the server address, once known, and whether a client Handshake packet reached it
    pub server_addr: Option<SocketAddr>,
    pub client_validated: bool,
    next_port: u16,
    epoch: tokio::time::Instant,
}

#[derive(Clone)]
pub struct SimNet(pub Arc<Mutex<NetState>>);

fn masked_first(b: &[u8]) -> u8 {
    match b.first() {
        Some(x) if x & 0x80 != 0 => x & 0xf0,
        Some(x) => x & 0xc0,
        None => 0,
    }
}

impl SimNet {
    pub fn new(prefix: Vec<Fate>, tail: Tail) -> SimNet {
        SimNet(Arc::new(Mutex::new(NetState {
            inboxes: HashMap::new(),
            log: Vec::new(),
            prefix,
            tail,
            held: Vec::new(),
            sent_bytes: HashMap::new(),
            amplification_violation: None,
            server_addr: None,
            client_validated: false,
            next_port: 20000,
            epoch: tokio::time::Instant::now(),
        })))
    }

    fn push(st: &mut NetState, to: SocketAddr, from: SocketAddr, bytes: Vec<u8>) {
        // anti-amplification bookkeeping: has a client Handshake packet reached the server?
        if Some(to) == st.server_addr && bytes.first().is_some_and(|b| b & 0xf0 == 0xe0) {
            st.client_validated = true;
        }
        if let Some(ib) = st.inboxes.get_mut(&to) {
            ib.queue.push_back((bytes, from));
            if let Some(w) = ib.waker.take() {
                w.wake();
            }
        }
        // no such endpoint: the datagram vanishes, as on a real network
    }

    fn send(&self, from: SocketAddr, to: SocketAddr, bytes: &[u8]) {
        let mut st = self.0.lock().unwrap();
        let idx = st.log.len();
        let fate = match st.tail {
            Tail::DropAll { from: k } if idx >= k => Fate::Drop,
            Tail::FlipFirstByteAll { from: k } if idx >= k => Fate::Flip(0, 0x40),
            Tail::TruncAll { from: k, k: n } if idx >= k => Fate::Trunc(n),
            Tail::DupAll { from: k } if idx >= k => Fate::Dup,
            _ => st.prefix.get(idx).copied().unwrap_or(Fate::Deliver),
        };
        let at_ms = st.epoch.elapsed().as_millis() as u64;
        st.log.push(WireEvent { idx, from, to, len: bytes.len(), first: masked_first(bytes), fate, at_ms });
        *st.sent_bytes.entry((from, to)).or_default() += bytes.len() as u64;
        // C15 monitor: until the client's address is validated, the server must not have sent
        // more than three times what it received from it
        if Some(from) == st.server_addr && !st.client_validated {
            let sent = st.sent_bytes.get(&(from, to)).copied().unwrap_or(0);
            let rcvd = st.sent_bytes.get(&(to, from)).copied().unwrap_or(0);
            if sent > 3 * rcvd && st.amplification_violation.is_none() {
                st.amplification_violation = Some(format!(
                    "datagram #{idx}: server has sent {sent} bytes to the unvalidated client address after receiving {rcvd} from it"
                ));
            }
        }
        let mut data = bytes.to_vec();
        match fate {
            Fate::Drop => return,
            Fate::Delay => {
                st.held.push((to, from, data));
                return;
            }
            Fate::Trunc(k) => data.truncate(k as usize),
            Fate::Flip(i, bit) => {
                let n = data.len() as i64;
                let pos = if i >= 0 { i as i64 } else { n + i as i64 };
                if pos >= 0 && pos < n {
                    data[pos as usize] ^= bit;
                }
            }
            _ => {}
        }
        Self::push(&mut st, to, from, data.clone());
        if let Fate::Replay(ms) = fate {
            let (net, copy) = (self.clone(), data.clone());
            tokio::spawn(async move {
                tokio::time::sleep(std::time::Duration::from_millis(ms as u64)).await;
                let mut st = net.0.lock().unwrap();
                Self::push(&mut st, to, from, copy);
            });
        }
        if fate == Fate::Dup {
            Self::push(&mut st, to, from, data);
        }
        // release what was held in this direction
        let mut i = 0;
        while i < st.held.len() {
            if st.held[i].0 == to && st.held[i].1 == from {
                let (t, f, d) = st.held.remove(i);
                Self::push(&mut st, t, f, d);
            } else {
                i += 1;
            }
        }
    }

    /// Everything still held is delivered (end of the fault window).
    pub fn flush_held(&self) {
        let mut st = self.0.lock().unwrap();
        let held = std::mem::take(&mut st.held);
        for (t, f, d) in held {
            Self::push(&mut st, t, f, d);
        }
    }

    pub fn datagrams(&self) -> usize {
        self.0.lock().unwrap().log.len()
    }
}

pub struct SimIo {
    net: SimNet,
    bind: BindUri,
    addr: SocketAddr,
    max_segments: usize,
}


impl SimIo {
    pub fn new(net: SimNet, bind: BindUri, max_segments: usize) -> SimIo {
        let mut addr = SocketAddr::try_from(&bind).unwrap_or_else(|_| "127.0.0.1:0".parse().unwrap());
        {
            let mut st = net.0.lock().unwrap();
            if addr.port() == 0 {
                addr.set_port(st.next_port);
                st.next_port += 1;
            }
            st.inboxes.insert(addr, Inbox { queue: VecDeque::new(), waker: None });
        }
        SimIo { net, bind, addr, max_segments }
    }
}

pub fn reset_ports() {}

impl IO for SimIo {
    fn bind_uri(&self) -> BindUri {
        self.bind.clone()
    }
    fn bound_addr(&self) -> io::Result<SocketAddr> {
        Ok(self.addr)
    }
    fn max_segment_size(&self) -> io::Result<usize> {
        Ok(1500)
    }
    fn max_segments(&self) -> io::Result<usize> {
        Ok(self.max_segments)
    }
    fn poll_send(&self, _cx: &mut Context, pkts: &[io::IoSlice], route: Route) -> Poll<io::Result<usize>> {
        let dst = route.link().dst;
        for p in pkts {
            self.net.send(self.addr, dst, p);
        }
        Poll::Ready(Ok(pkts.len()))
    }
    fn poll_recv(&self, cx: &mut Context, pkts: &mut [BytesMut], routes: &mut [Route]) -> Poll<io::Result<usize>> {
        let mut st = self.net.0.lock().unwrap();
        let Some(ib) = st.inboxes.get_mut(&self.addr) else {
            return Poll::Ready(Err(io::Error::other("closed")));
        };
        let mut n = 0;
        while n < pkts.len().min(routes.len()) {
            let Some((data, from)) = ib.queue.pop_front() else { break };
            let len = data.len().min(pkts[n].len());
            pkts[n][..len].copy_from_slice(&data[..len]);
            let link = Link::new(from, self.addr);
            // the receiver's view: local = us, remote = sender
            routes[n] = Route::new(
                Pathway::new(self.addr.into(), from.into()),
                Line::new(Link::new(self.addr, from), 64, None, len as u16),
            );
            let _ = link;
            n += 1;
        }
        if n == 0 {
            ib.waker = Some(cx.waker().clone());
            Poll::Pending
        } else {
            Poll::Ready(Ok(n))
        }
    }
    fn poll_close(&mut self, _cx: &mut Context) -> Poll<io::Result<()>> {
        self.net.0.lock().unwrap().inboxes.remove(&self.addr);
        Poll::Ready(Ok(()))
    }
}
