//! h-stack: E3 — the whole dquic client + server stack over an in-memory network.
mod e3;
mod net;
mod run;

fn main() {
    let args = mc_core::Args::parse();
    let code = match args.property.as_str() {
        "probe" => {
            let cfg = run::RunCfg::new(run::Workload::Echo(3000));
            let t = std::time::Instant::now();
            let o = run::run_once(&cfg, &[], net::Tail::None);
            println!("finished={} virtual_ms={} datagrams={} client={:?} server={:?} panics={:?} amp={:?} wall={:?}", o.finished, o.virtual_ms, o.wire.len(), o.client, o.server, o.panics, o.amplification, t.elapsed());
            let o2 = run::run_once(&cfg, &[], net::Tail::None);
            println!("same signature twice: {}", o.signature() == o2.signature());
            0
        }
        "probe-tail" => {
            let mut cfg = run::RunCfg::new(run::Workload::Echo(3000));
            cfg.idle_timeout_ms = 4000;
            cfg.horizon_s = 100;
            for k in [10usize] {
                let t = std::time::Instant::now();
                let o = run::run_once(&cfg, &[], net::Tail::DropAll { from: k });
                println!("DropAll from {k}: finished={} virtual_ms={} datagrams={} client={:?} term={:?} wall={:?}", o.finished, o.virtual_ms, o.wire.len(), o.client, o.terminated_ms, t.elapsed());
                let mut last = 0;
                for w in o.wire.iter().take(60) {
                    println!("  #{} t={}ms (+{}) {}->{} len={} first={:02x} {:?}", w.idx, w.at_ms, w.at_ms - last, w.from.port(), w.to.port(), w.len, w.first, w.fate);
                    last = w.at_ms;
                }
            }
            0
        }
        "C02" => e3::c02(&args),
        "C07c" => e3::monitors(&args, "C07"),
        "C15b" => e3::monitors(&args, "C15"),
        "C17c" => e3::c17c(&args),
        "C19b" => e3::c19b(&args),
        "C20" => e3::c20(&args),
        other => {
            eprintln!("h-stack: unknown property {other}");
            2
        }
    };
    std::process::exit(code);
}
