//! One execution of the whole client + server stack over the simulated network, on a
//! current-thread tokio runtime with a paused (virtual) clock.
use std::{
    net::SocketAddr,
    sync::{Arc, Mutex},
    time::Duration,
};

use dquic::{
    prelude::{handy::*, *},
    qbase::param::{ClientParameters, ParameterId, ServerParameters},
    qinterface::{bind_uri::BindUri, component::route::QuicRouter, io::ProductIO, manager::InterfaceManager},
    qresolve::Source,
};
use qevent::{
    Event,
    telemetry::{ExportEvent, QLog, Span},
};
use rustls::pki_types::{CertificateDer, pem::PemObject};
use serde::{Deserialize, Serialize};
use tokio::io::{AsyncReadExt, AsyncWriteExt};

use crate::net::{Fate, SimIo, SimNet, Tail, WireEvent};

const CA_CERT: &[u8] = include_bytes!("../../certs/ca.cert");
const OTHER_CA_CERT: &[u8] = include_bytes!("../../certs/other-ca.cert");
const SERVER_CERT: &[u8] = include_bytes!("../../certs/server.cert");
const SERVER_KEY: &[u8] = include_bytes!("../../certs/server.key");

#[derive(Debug, Clone, Copy, PartialEq, Eq, Serialize, Deserialize)]
pub enum Workload {
    /// one bidi stream, `n` bytes echoed
    Echo(usize),
    /// two bidi streams of `n` bytes each, concurrently
    TwoStreams(usize),
    /// one uni stream of `n` bytes client → server and one server → client
    UniEachWay(usize),
    /// `k` datagrams each way
    Datagrams(usize),
    /// handshake, one small echo, then no application activity: wait for termination
    Idle,
    /// three small echoes one virtual second apart (a long-lived connection whose
    /// duplicate-detection window keeps moving)
    Spaced,
    /// after the handshake both sides park one operation of every kind (accept bidi / uni,
    /// datagram receive, read on an open stream whose peer stays silent, terminated()) and do
    /// nothing else: only a close / error can end them
    PendingOps,
}

#[derive(Debug, Clone, Copy, PartialEq, Eq, Serialize, Deserialize)]
pub enum QlogMode {
    None,
    Noop,
    Capture,
    /// capturing exporter that rejects the transport and recovery schemes
    Filtered,
}

#[derive(Debug, Clone, Serialize, Deserialize)]
pub struct RunCfg {
    pub workload: Workload,
    /// tiny flow-control windows (forces MAX_* traffic)
    pub tiny_windows: bool,
    pub idle_timeout_ms: u64,
    /// the server's max_idle_timeout when it differs from the client's
    #[serde(default)]
    pub idle_timeout_server_ms: Option<u64>,
    pub max_segments: usize,
    pub qlog: QlogMode,
    /// virtual-time horizon
    pub horizon_s: u64,
    /// close event: at wire datagram index `at`, who closes
    pub close: Option<CloseEvent>,
    /// the client does not trust the server's CA: the TLS handshake fails with an alert
    #[serde(default)]
    pub untrusted_ca: bool,
    /// max_datagram_frame_size advertised by (client, server) when not the default 1200 / 1200
    #[serde(default)]
    pub dgram_max: Option<(u32, u32)>,
    /// legal but extreme numeric transport parameters on both sides (values beyond 32 bits where
    /// the RFC allows them): the field values the event builders are fed with
    #[serde(default)]
    pub extreme_params: bool,
}

#[derive(Debug, Clone, Copy, PartialEq, Eq, Serialize, Deserialize)]
pub enum Closer {
    Client,
    Server,
    Both,
}

#[derive(Debug, Clone, Copy, PartialEq, Eq, Serialize, Deserialize)]
pub struct CloseEvent {
    pub at: usize,
    pub who: Closer,
}

impl RunCfg {
    pub fn new(workload: Workload) -> RunCfg {
        RunCfg { workload, tiny_windows: false, idle_timeout_ms: 20_000, idle_timeout_server_ms: None, max_segments: 4, qlog: QlogMode::None, horizon_s: 120, close: None, untrusted_ca: false, dgram_max: None, extreme_params: false }
    }
}

#[derive(Debug, Clone, Default, Serialize)]
pub struct Outcome {
    /// application-visible results, client side then server side
    pub client: Vec<String>,
    pub server: Vec<String>,
    pub finished: bool,
    pub virtual_ms: u64,
    pub wire: Vec<WireEvent>,
    pub panics: Vec<String>,
    pub amplification: Option<String>,
    pub events: Vec<String>,
    pub event_problems: Vec<String>,
    pub pn_problems: Vec<String>,
    pub replay_problems: Vec<String>,
    pub packets_logged: u64,
    /// virtual ms at which each side observed termination (Idle workload)
    pub terminated_ms: Vec<(String, u64)>,
}

impl Outcome {
    /// Trace signature: direction, masked first byte and length of every datagram + app results.
    pub fn signature(&self) -> String {
        let mut s = String::new();
        for w in &self.wire {
            s.push_str(&format!("{}>{}:{:02x}:{};", w.from.port(), w.to.port(), w.first, w.len));
        }
        s.push_str(&format!("|{:?}|{:?}|{}", self.client, self.server, self.finished));
        s
    }
    pub fn app_signature(&self) -> String {
        format!("{:?}|{:?}|{}", self.client, self.server, self.finished)
    }
}

// ---------------- qlog capture ----------------

#[derive(Default)]
pub struct Captured {
    pub events: Mutex<Vec<Event>>,
}

struct CapExporter {
    sink: Arc<Captured>,
    filtered: bool,
}

impl ExportEvent for CapExporter {
    fn emit(&self, event: Event) {
        self.sink.events.lock().unwrap().push(event);
    }
    fn filter_event(&self, scheme: &'static str) -> bool {
        !(self.filtered && (scheme.contains("transport") || scheme.contains("recovery")))
    }
}

struct CapLogger {
    sink: Arc<Captured>,
    filtered: bool,
}

impl QLog for CapLogger {
    fn new_trace(&self, _vp: qevent::VantagePointType, group_id: qevent::GroupID) -> Span {
        let exporter: Arc<dyn ExportEvent> = Arc::new(CapExporter { sink: self.sink.clone(), filtered: self.filtered });
        qevent::span!(exporter, group_id = group_id)
    }
}

fn qlogger(mode: QlogMode, sink: &Arc<Captured>) -> Option<Arc<dyn QLog + Send + Sync>> {
    match mode {
        QlogMode::None => None,
        QlogMode::Noop => Some(Arc::new(NoopLogger)),
        QlogMode::Capture => Some(Arc::new(CapLogger { sink: sink.clone(), filtered: false })),
        QlogMode::Filtered => Some(Arc::new(CapLogger { sink: sink.clone(), filtered: true })),
    }
}

// ---------------- parameters ----------------

fn client_params(cfg: &RunCfg) -> ClientParameters {
    let mut p = client_parameters();
    tune(&mut p, cfg);
    if cfg.tiny_windows {
        // different from the server's values: a limit taken from the wrong side is observable
        for (id, v) in [
            (ParameterId::InitialMaxData, 450u32),
            (ParameterId::InitialMaxStreamDataBidiLocal, 210),
            (ParameterId::InitialMaxStreamDataBidiRemote, 330),
            (ParameterId::InitialMaxStreamDataUni, 180),
            (ParameterId::InitialMaxStreamsBidi, 3),
            (ParameterId::InitialMaxStreamsUni, 1),
        ] {
            p.set(id, v).expect("param");
        }
    }
    if let Some((c, _)) = cfg.dgram_max {
        p.set(ParameterId::MaxDatagramFrameSize, c).expect("dgram");
    }
    p
}

fn server_params(cfg: &RunCfg) -> ServerParameters {
    let mut p = server_parameters();
    tune(&mut p, cfg);
    if let Some(ms) = cfg.idle_timeout_server_ms {
        p.set(ParameterId::MaxIdleTimeout, Duration::from_millis(ms)).expect("idle");
    }
    if let Some((_, s)) = cfg.dgram_max {
        p.set(ParameterId::MaxDatagramFrameSize, s).expect("dgram");
    }
    p
}

fn tune<R: dquic::qbase::role::IntoRole + Default>(p: &mut dquic::qbase::param::core::Parameters<R>, cfg: &RunCfg) {
    if cfg.tiny_windows {
        for (id, v) in [
            (ParameterId::InitialMaxData, 600u32),
            (ParameterId::InitialMaxStreamDataBidiLocal, 300),
            (ParameterId::InitialMaxStreamDataBidiRemote, 200),
            (ParameterId::InitialMaxStreamDataUni, 250),
            (ParameterId::InitialMaxStreamsBidi, 2),
            (ParameterId::InitialMaxStreamsUni, 2),
        ] {
            p.set(id, v).expect("param");
        }
    }
    p.set(ParameterId::MaxIdleTimeout, Duration::from_millis(cfg.idle_timeout_ms)).expect("idle");
    p.set(ParameterId::MaxDatagramFrameSize, 1200u32).expect("dgram");
    if cfg.extreme_params {
        use dquic::qbase::varint::VarInt;
        let big = |v: u64| VarInt::from_u64(v).expect("varint");
        p.set(ParameterId::ActiveConnectionIdLimit, big(1 << 32)).expect("param");
        p.set(ParameterId::InitialMaxData, big((1 << 62) - 1)).expect("param");
        p.set(ParameterId::InitialMaxStreamDataBidiLocal, big((1 << 62) - 1)).expect("param");
        p.set(ParameterId::InitialMaxStreamDataBidiRemote, big(1 << 40)).expect("param");
        p.set(ParameterId::InitialMaxStreamDataUni, big(1 << 33)).expect("param");
        p.set(ParameterId::InitialMaxStreamsBidi, big((1 << 60) - 1)).expect("param");
        p.set(ParameterId::InitialMaxStreamsUni, big(1 << 32)).expect("param");
        p.set(ParameterId::MaxUdpPayloadSize, big(65527)).expect("param");
    }
}

fn pattern(tag: u8, n: usize) -> Vec<u8> {
    (0..n).map(|i| ((i * 31 + tag as usize * 7 + (i >> 8)) % 251) as u8).collect()
}

// ---------------- the run ----------------

pub fn run_once(cfg: &RunCfg, prefix: &[Fate], tail: Tail) -> Outcome {
    mc_core::panics::install_hook();
    let _ = mc_core::panics::drain_all();
    crate::net::reset_ports();
    let rt = tokio::runtime::Builder::new_current_thread().enable_time().start_paused(true).build().expect("runtime");
    let sink = Arc::new(Captured::default());
    let sink_srv = Arc::new(Captured::default());
    let cfg2 = cfg.clone();
    let prefix = prefix.to_vec();
    let (sink2, sink3) = (sink.clone(), sink_srv.clone());
    let mut out = rt.block_on(async move { drive(cfg2, prefix, tail, sink2, sink3).await });
    drop(rt);
    for p in mc_core::panics::drain_all() {
        out.panics.push(format!("{} at {}", p.message, p.location));
    }
    // qlog well-formedness (C20 O1)
    for (who, sk) in [("client", &sink), ("server", &sink_srv)] {
        let events = std::mem::take(&mut *sk.events.lock().unwrap());
        let mut last_pn: std::collections::BTreeMap<String, u64> = Default::default();
        let mut rcvd_seen: std::collections::BTreeSet<(String, u64)> = Default::default();
        for ev in &events {
            let v = serde_json::to_value(ev).unwrap_or(serde_json::Value::Null);
            let name = v.get("name").and_then(|n| n.as_str()).unwrap_or("<unserialisable>").to_string();
            out.events.push(format!("{who}:{name}"));
            if let Some(p) = check_event(ev) {
                out.event_problems.push(format!("{name}: {p}"));
            }
            // C02: a packet (space, pn) is accepted at most once — a replayed or duplicated packet
            // must not produce a second packet_received
            if name.ends_with("packet_received") {
                let h = &v["data"]["header"];
                if let (Some(ty), Some(pn)) = (h["packet_type"].as_str(), h["packet_number"].as_u64()) {
                    if !rcvd_seen.insert((ty.to_string(), pn)) {
                        out.replay_problems.push(format!("{who}: {ty} packet number {pn} accepted twice"));
                    }
                }
            }
            // C07c: packet numbers strictly increase per (endpoint, space)
            if name.ends_with("packet_sent") {
                let h = &v["data"]["header"];
                if let (Some(ty), Some(pn)) = (h["packet_type"].as_str(), h["packet_number"].as_u64()) {
                    let space = match ty {
                        "initial" => "initial",
                        "handshake" => "handshake",
                        _ => "data",
                    };
                    let key = format!("{who}/{space}");
                    if let Some(prev) = last_pn.get(&key) {
                        if pn <= *prev {
                            out.pn_problems.push(format!("{key}: packet number {pn} sent after {prev}"));
                        }
                    }
                    last_pn.insert(key, pn);
                    out.packets_logged += 1;
                }
            }
        }
    }
    out
}

fn event_name(ev: &Event) -> String {
    serde_json::to_value(ev)
        .ok()
        .and_then(|v| v.get("name").and_then(|n| n.as_str()).map(|s| s.to_string()))
        .unwrap_or_else(|| "<unserialisable>".into())
}

/// C20 O1: the event serialises to a JSON object with time/name/data, parses back to an equal
/// event and re-serialises to the identical text.
fn check_event(ev: &Event) -> Option<String> {
    let text = match serde_json::to_string(ev) {
        Ok(t) => t,
        Err(e) => return Some(format!("does not serialise: {e}")),
    };
    let v: serde_json::Value = match serde_json::from_str(&text) {
        Ok(v) => v,
        Err(e) => return Some(format!("serialised text is not JSON: {e}")),
    };
    let Some(obj) = v.as_object() else { return Some("serialises to a non-object".into()) };
    for k in ["time", "name", "data"] {
        if !obj.contains_key(k) {
            return Some(format!("mandatory field `{k}` missing"));
        }
    }
    match serde_json::from_str::<Event>(&text) {
        Err(e) => Some(format!("does not parse back: {}", mask_digits(&e.to_string()))),
        Ok(back) => match serde_json::to_string(&back) {
            Ok(t2) if t2 == text => None,
            Ok(_) => Some("parses back to a different event".into()),
            Err(e) => Some(format!("parsed event does not re-serialise: {e}")),
        },
    }
}

fn mask_digits(s: &str) -> String {
    let mut out = String::new();
    let mut last = false;
    for c in s.chars() {
        if c.is_ascii_digit() {
            if !last {
                out.push('#');
            }
            last = true;
        } else {
            last = false;
            out.push(c);
        }
    }
    out
}

async fn drive(cfg: RunCfg, prefix: Vec<Fate>, tail: Tail, sink: Arc<Captured>, sink_srv: Arc<Captured>) -> Outcome {
    let net = SimNet::new(prefix, tail);
    let router = Arc::new(QuicRouter::new());
    let ifm = Arc::new(InterfaceManager::new());
    let net_f = net.clone();
    let segs = cfg.max_segments;
    let factory: Arc<dyn ProductIO> = Arc::new(move |uri: BindUri| SimIo::new(net_f.clone(), uri, segs));

    // ---- server ----
    let mut lb = QuicListeners::builder()
        .with_router(router.clone())
        .with_iface_factory(factory.clone())
        .with_iface_manager(ifm.clone())
        .without_client_cert_verifier()
        .with_parameters(server_params(&cfg));
    if let Some(q) = qlogger(cfg.qlog, &sink_srv) {
        lb = lb.with_qlog(q);
    }
    let listeners = lb.listen(16).expect("listen");
    let server_addr: SocketAddr = "127.0.0.1:5000".parse().unwrap();
    listeners
        .add_server("localhost", SERVER_CERT, SERVER_KEY, [BindUri::from("inet://127.0.0.1:5000")], None)
        .await
        .expect("add_server");
    net.0.lock().unwrap().server_addr = Some(server_addr);

    let term: Arc<Mutex<Vec<(String, u64)>>> = Arc::new(Mutex::new(Vec::new()));
    let t0 = tokio::time::Instant::now();
    let server_log: Arc<Mutex<Vec<String>>> = Arc::new(Mutex::new(Vec::new()));
    let server_conn: Arc<Mutex<Option<Connection>>> = Arc::new(Mutex::new(None));
    let workload = cfg.workload;
    let (sl, sc) = (server_log.clone(), server_conn.clone());
    let term_s = term.clone();
    let listeners2 = listeners.clone();
    let server_task = tokio::spawn(async move {
        while let Ok((connection, _name, _pathway, _link)) = listeners2.accept().await {
            *sc.lock().unwrap() = Some(connection.clone());
            let sl = sl.clone();
            {
                let (c, term) = (connection.clone(), term_s.clone());
                tokio::spawn(async move {
                    let _ = c.terminated().await;
                    term.lock().unwrap().push(("server".into(), t0.elapsed().as_millis() as u64));
                });
            }
            tokio::spawn(async move { serve(connection, workload, sl).await });
        }
    });

    // ---- client ----
    let mut roots = rustls::RootCertStore::empty();
    if cfg.untrusted_ca {
        // trust some other CA only: the server's certificate is rejected (TLS alert)
        roots.add_parsable_certificates(CertificateDer::pem_slice_iter(OTHER_CA_CERT).map(Result::unwrap));
    } else {
        roots.add_parsable_certificates(CertificateDer::pem_slice_iter(CA_CERT).map(Result::unwrap));
    }
    let mut cb = QuicClient::builder()
        .with_router(router.clone())
        .with_iface_factory(factory.clone())
        .with_iface_manager(ifm.clone())
        .with_root_certificates(roots)
        .with_parameters(client_params(&cfg))
        .without_cert();
    if let Some(q) = qlogger(cfg.qlog, &sink) {
        cb = cb.with_qlog(q);
    }
    let client = Arc::new(cb.build());
    let client_log: Arc<Mutex<Vec<String>>> = Arc::new(Mutex::new(Vec::new()));
    let cl = client_log.clone();
    let client_conn: Arc<Mutex<Option<Connection>>> = Arc::new(Mutex::new(None));
    let cc = client_conn.clone();
    let term_c = term.clone();
    let client_task = tokio::spawn(async move {
        match client.connected_to_with_source("localhost", [(Source::System, server_addr.into())]).await {
            Ok(conn) => {
                *cc.lock().unwrap() = Some(conn.clone());
                {
                    let (c, term) = (conn.clone(), term_c.clone());
                    tokio::spawn(async move {
                        let _ = c.terminated().await;
                        term.lock().unwrap().push(("client".into(), t0.elapsed().as_millis() as u64));
                    });
                    let (c, term) = (conn.clone(), term_c.clone());
                    tokio::spawn(async move {
                        if c.handshaked().await.is_ok() {
                            term.lock().unwrap().push(("client-handshaked".into(), t0.elapsed().as_millis() as u64));
                        }
                    });
                }
                run_client(conn, workload, cl).await;
            }
            Err(e) => cl.lock().unwrap().push(format!("connect-error:{e}")),
        }
        drop(client);
    });

    // ---- close events: watch the wire ----
    let closer = cfg.close;
    let (net_w, cc2, sc2) = (net.clone(), client_conn.clone(), server_conn.clone());
    let watcher = tokio::spawn(async move {
        let Some(ev) = closer else { return };
        loop {
            if net_w.datagrams() >= ev.at {
                let c = cc2.lock().unwrap().clone();
                let s = sc2.lock().unwrap().clone();
                if matches!(ev.who, Closer::Client | Closer::Both) {
                    if let Some(c) = c {
                        let _ = c.close("client closes", 1);
                    }
                }
                if matches!(ev.who, Closer::Server | Closer::Both) {
                    if let Some(s) = s {
                        let _ = s.close("server closes", 2);
                    }
                }
                return;
            }
            tokio::time::sleep(Duration::from_millis(1)).await;
        }
    });

    let started = tokio::time::Instant::now();
    let finished = tokio::time::timeout(Duration::from_secs(cfg.horizon_s), client_task).await.is_ok();
    let virtual_ms = started.elapsed().as_millis() as u64;
    // let the server side settle (echo tasks finishing, acks) for a bounded virtual time
    tokio::time::sleep(Duration::from_millis(200)).await;
    watcher.abort();
    server_task.abort();
    listeners.shutdown();
    let st = net.0.lock().unwrap();
    Outcome {
        client: client_log.lock().unwrap().clone(),
        server: server_log.lock().unwrap().clone(),
        finished,
        virtual_ms,
        wire: st.log.clone(),
        panics: Vec::new(),
        amplification: st.amplification_violation.clone(),
        events: Vec::new(),
        event_problems: Vec::new(),
        pn_problems: Vec::new(),
        replay_problems: Vec::new(),
        packets_logged: 0,
        terminated_ms: term.lock().unwrap().clone(),
    }
}

async fn serve(conn: Connection, workload: Workload, log: Arc<Mutex<Vec<String>>>) {
    match workload {
        Workload::Echo(_) | Workload::TwoStreams(_) | Workload::Idle | Workload::Spaced => {
            let mut n = 0;
            while let Ok((_sid, (mut reader, mut writer))) = conn.accept_bi_stream().await {
                let log = log.clone();
                n += 1;
                let id = n;
                tokio::spawn(async move {
                    let mut buf = Vec::new();
                    match reader.read_to_end(&mut buf).await {
                        Ok(_) => {
                            let ok = writer.write_all(&buf).await.is_ok() && writer.shutdown().await.is_ok();
                            log.lock().unwrap().push(format!("echo{id}:{}:{}", buf.len(), if ok { "ok" } else { "write-err" }));
                        }
                        Err(e) => log.lock().unwrap().push(format!("echo{id}:read-err:{}", e.kind())),
                    }
                });
            }
        }
        Workload::PendingOps => {
            pending_ops(conn, log, false).await;
        }
        Workload::UniEachWay(n) => {
            let c2 = conn.clone();
            let l2 = log.clone();
            tokio::spawn(async move {
                match c2.open_uni_stream().await {
                    Ok(Some((_sid, mut w))) => {
                        let ok = w.write_all(&pattern(2, n)).await.is_ok() && w.shutdown().await.is_ok();
                        l2.lock().unwrap().push(format!("uni-send:{}", if ok { "ok" } else { "err" }));
                    }
                    _ => l2.lock().unwrap().push("uni-open-err".into()),
                }
            });
            if let Ok((_sid, mut r)) = conn.accept_uni_stream().await {
                let mut buf = Vec::new();
                let res = r.read_to_end(&mut buf).await;
                let good = buf == pattern(1, n);
                log.lock().unwrap().push(format!("uni-recv:{}:{}:{}", buf.len(), res.is_ok(), if good { "intact" } else { "CORRUPT" }));
            }
        }
        Workload::Datagrams(k) => {
            if let (Ok(Ok(mut reader)), Ok(Ok(writer))) = (conn.datagram_reader(), conn.datagram_writer().await) {
                for i in 0..k {
                    let r = writer.send_bytes(pattern(100 + i as u8, 10 + i * 90).into());
                    log.lock().unwrap().push(format!("dg-send{i}:{}", r.is_ok()));
                }
                let mut got = Vec::new();
                for _ in 0..k {
                    match tokio::time::timeout(Duration::from_millis(1500), reader.recv()).await {
                        Ok(Ok(b)) => got.push(b),
                        _ => break,
                    }
                }
                log.lock().unwrap().push(format!("dg-recv:{}", describe_datagrams(&got, 0)));
            } else {
                log.lock().unwrap().push("dg-unavailable".into());
            }
        }
    }
}

/// Which of the peer's datagrams (by index) arrived, in order; "CORRUPT" if one matches none.
fn describe_datagrams(got: &[bytes::Bytes], base: u8) -> String {
    let mut idx = Vec::new();
    for g in got {
        match (0..8usize).find(|&i| g[..] == pattern(base + i as u8, 10 + i * 90)[..]) {
            Some(i) => idx.push(i.to_string()),
            None => idx.push("CORRUPT".into()),
        }
    }
    idx.join(",")
}

async fn echo_one(conn: &Connection, tag: u8, n: usize) -> String {
    match conn.open_bi_stream().await {
        Ok(Some((_sid, (mut reader, mut writer)))) => {
            let data = pattern(tag, n);
            let d2 = data.clone();
            let w = async move {
                writer.write_all(&d2).await?;
                writer.shutdown().await
            };
            let r = async move {
                let mut back = Vec::new();
                reader.read_to_end(&mut back).await.map(|_| back)
            };
            let (wr, rr) = tokio::join!(w, r);
            match rr {
                Ok(back) if back == data => format!("echo:{n}:intact:{}", if wr.is_ok() { "w-ok" } else { "w-err" }),
                Ok(back) => {
                    // never anything the peer did not send: a prefix of the data is a loss, else corruption
                    if data.starts_with(&back) { format!("echo:{n}:short{}", back.len()) } else { format!("echo:{n}:CORRUPT") }
                }
                Err(e) => format!("echo:{n}:read-err:{}", e.kind()),
            }
        }
        Ok(None) => "open:exhausted".into(),
        Err(e) => format!("open-err:{}", short_err(&e.to_string())),
    }
}

/// Parks one operation of every kind and logs how each of them ended. The client additionally
/// opens a bidirectional stream, writes one byte and reads on it (the server accepts it and
/// stays silent), so a read on an open stream is pending too.
async fn pending_ops(conn: Connection, log: Arc<Mutex<Vec<String>>>, client: bool) {
    let _ = conn.handshaked().await;
    let say = |log: &Arc<Mutex<Vec<String>>>, what: &str, ended: &str| log.lock().unwrap().push(format!("pending:{what}:{ended}"));
    let (c1, l1) = (conn.clone(), log.clone());
    let accept_bi = async move {
        // the server accepts the client's stream, keeps it open and waits for the next one
        let mut held = Vec::new();
        loop {
            match c1.accept_bi_stream().await {
                Ok(s) => held.push(s),
                Err(_) => break,
            }
        }
        say(&l1, "accept-bi", "error");
    };
    let (c2, l2) = (conn.clone(), log.clone());
    let accept_uni = async move {
        let r = c2.accept_uni_stream().await;
        say(&l2, "accept-uni", if r.is_ok() { "stream" } else { "error" });
    };
    let (c3, l3) = (conn.clone(), log.clone());
    let dgram = async move {
        match c3.datagram_reader() {
            Ok(Ok(mut reader)) => {
                let r = reader.recv().await;
                say(&l3, "datagram-recv", if r.is_ok() { "datagram" } else { "error" });
            }
            _ => say(&l3, "datagram-recv", "unavailable"),
        }
    };
    let (c4, l4) = (conn.clone(), log.clone());
    let read = async move {
        if !client {
            return;
        }
        match c4.open_bi_stream().await {
            Ok(Some((_sid, (mut reader, mut writer)))) => {
                let _ = writer.write_all(b"x").await;
                let _ = writer.flush().await;
                let mut buf = [0u8; 8];
                let r = reader.read(&mut buf).await;
                say(&l4, "stream-read", match r { Ok(0) => "eof", Ok(_) => "data", Err(_) => "error" });
            }
            _ => say(&l4, "stream-read", "open-failed"),
        }
    };
    let (c5, l5) = (conn.clone(), log.clone());
    let term = async move {
        let _ = c5.terminated().await;
        say(&l5, "terminated", "resolved");
    };
    tokio::join!(accept_bi, accept_uni, dgram, read, term);
}

fn short_err(s: &str) -> String {
    s.split(',').next().unwrap_or(s).chars().take(40).collect()
}

async fn run_client(conn: Connection, workload: Workload, log: Arc<Mutex<Vec<String>>>) {
    match workload {
        Workload::Echo(n) => {
            let r = echo_one(&conn, 1, n).await;
            log.lock().unwrap().push(r);
        }
        Workload::TwoStreams(n) => {
            let (a, b) = tokio::join!(echo_one(&conn, 1, n), echo_one(&conn, 2, n));
            log.lock().unwrap().push(a);
            log.lock().unwrap().push(b);
        }
        Workload::UniEachWay(n) => {
            let c2 = conn.clone();
            let send = async move {
                match c2.open_uni_stream().await {
                    Ok(Some((_sid, mut w))) => {
                        if w.write_all(&pattern(1, n)).await.is_ok() && w.shutdown().await.is_ok() { "uni-send:ok".to_string() } else { "uni-send:err".to_string() }
                    }
                    _ => "uni-open-err".to_string(),
                }
            };
            let c3 = conn.clone();
            let recv = async move {
                match c3.accept_uni_stream().await {
                    Ok((_sid, mut r)) => {
                        let mut buf = Vec::new();
                        let res = r.read_to_end(&mut buf).await;
                        format!("uni-recv:{}:{}:{}", buf.len(), res.is_ok(), if buf == pattern(2, n) { "intact" } else { "CORRUPT" })
                    }
                    Err(_) => "uni-accept-err".to_string(),
                }
            };
            let (a, b) = tokio::join!(send, recv);
            log.lock().unwrap().push(a);
            log.lock().unwrap().push(b);
        }
        Workload::Spaced => {
            for i in 0..3u8 {
                let r = echo_one(&conn, i, 200).await;
                log.lock().unwrap().push(r);
                tokio::time::sleep(Duration::from_millis(1000)).await;
            }
        }
        Workload::PendingOps => {
            pending_ops(conn, log, true).await;
            return;
        }
        Workload::Idle => {
            let r = echo_one(&conn, 1, 100).await;
            log.lock().unwrap().push(r);
            // no further application activity; the connection must end by idle timeout
            let e = conn.terminated().await;
            log.lock().unwrap().push(format!("terminated:{}", short_err(&e.to_string())));
            return;
        }
        Workload::Datagrams(k) => {
            // datagrams need the handshake: wait for it first
            let _ = conn.handshaked().await;
            if let (Ok(Ok(mut reader)), Ok(Ok(writer))) = (conn.datagram_reader(), conn.datagram_writer().await) {
                for i in 0..k {
                    let r = writer.send_bytes(pattern(i as u8, 10 + i * 90).into());
                    log.lock().unwrap().push(format!("dg-send{i}:{}", r.is_ok()));
                }
                let mut got = Vec::new();
                for _ in 0..k {
                    match tokio::time::timeout(Duration::from_millis(1500), reader.recv()).await {
                        Ok(Ok(b)) => got.push(b),
                        _ => break,
                    }
                }
                log.lock().unwrap().push(format!("dg-recv:{}", describe_datagrams(&got, 100)));
            } else {
                log.lock().unwrap().push("dg-unavailable".into());
            }
        }
    }
    // orderly end
    let _ = conn.close("done", 0);
}
