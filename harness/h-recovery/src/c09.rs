//! C09 — the send buffer keeps every unacknowledged byte and offers it for resending.
//!
//! E1 closure over the real `qrecovery::send::SendBuf`. Reference = per-byte colour array
//! (Pending / Flighting / Lost / Recved) + window + bytes written + the set of ranges ever
//! returned by a pick (acks and loss reports range over exactly that set, plus the empty
//! range a FIN-only frame produces).
use std::{collections::BTreeSet, time::Duration};

use bytes::Bytes;
use mc_core::{Args, ExploreCfg, Fail, Report, System, ensure, explore};
use qrecovery::send::SendBuf;
use serde::{Deserialize, Serialize};
use serde_json::json;

#[derive(Debug, Clone, Serialize, Deserialize)]
pub enum Op {
    Write { k: usize },
    Extend { to: usize },
    Pick { cap: usize, flow: usize },
    Ack { start: usize, end: usize },
    Lost { start: usize, end: usize },
    ResendFlighting,
}

#[derive(Debug, Clone, Copy, PartialEq, Eq)]
enum C {
    Pending,
    Flighting,
    Lost,
    Recved,
}

pub struct Sys {
    l: usize,
    init_window: usize,
    buf: SendBuf,
    // reference
    colour: Vec<C>,
    written: usize,
    window: usize,
    picked: BTreeSet<(usize, usize)>,
    fresh_high: usize,
    last_pick: Option<(usize, usize)>,
}

impl Sys {
    pub fn new(l: usize, init_window: usize) -> Sys {
        Sys {
            l,
            init_window,
            buf: SendBuf::with_capacity(init_window as u64),
            colour: vec![C::Pending; l],
            written: 0,
            window: init_window,
            picked: BTreeSet::new(),
            fresh_high: 0,
            last_pick: None,
        }
    }

    fn content(i: usize) -> u8 {
        (i + 1) as u8
    }

    /// bytes that may be offered: written, inside the window, Pending or Lost
    fn sendable_end(&self) -> usize {
        self.written.min(self.window)
    }

    fn invariants(&self) -> Result<(), Fail> {
        let all_acked = self.colour[..self.written].iter().all(|c| *c == C::Recved);
        ensure!(
            self.buf.is_all_rcvd() == all_acked,
            "completion/is_all_rcvd",
            "is_all_rcvd() = {} but acknowledged-everything-written = {all_acked} (written {}, colours {:?})",
            self.buf.is_all_rcvd(),
            self.written,
            &self.colour[..self.written]
        );
        ensure!(
            self.buf.written() as usize == self.written,
            "state/written",
            "written() = {}, bytes written = {}",
            self.buf.written(),
            self.written
        );
        ensure!(
            self.buf.sent() as usize == self.fresh_high,
            "fresh/sent-counter",
            "sent() = {} but the highest byte ever offered as new data ends at {}",
            self.buf.sent(),
            self.fresh_high
        );
        Ok(())
    }
}

impl System for Sys {
    type Op = Op;

    fn ops(&self) -> Vec<Op> {
        let mut v = Vec::new();
        for k in [1usize, 2, 3] {
            if self.written + k <= self.l {
                v.push(Op::Write { k });
            }
        }
        // a zero-length write hands over no byte: nothing may change (on a correct buffer the
        // successor state equals this one and is deduplicated at once)
        v.push(Op::Write { k: 0 });
        for cap in [8usize, 1, 2] {
            for flow in [8usize, 0, 1, 2] {
                v.push(Op::Pick { cap, flow });
            }
        }
        for &(s, e) in &self.picked {
            v.push(Op::Ack { start: s, end: e });
        }
        // the empty range of a FIN-only frame: at the end of everything written, once sent
        if self.written > 0 && self.fresh_high == self.written {
            v.push(Op::Ack { start: self.written, end: self.written });
            v.push(Op::Lost { start: self.written, end: self.written });
        }
        for &(s, e) in &self.picked {
            v.push(Op::Lost { start: s, end: e });
        }
        v.push(Op::ResendFlighting);
        for to in (self.window + 1)..=(self.l + 1) {
            v.push(Op::Extend { to });
        }
        v
    }

    fn step(&mut self, op: &Op) -> Result<(), Fail> {
        match *op {
            Op::Write { k } => {
                let data: Vec<u8> = (self.written..self.written + k).map(Self::content).collect();
                self.buf.write(Bytes::from(data));
                self.written += k;
            }
            Op::Extend { to } => {
                self.buf.extend(to as u64);
                self.window = to;
            }
            Op::Pick { cap, flow } => {
                let end = self.sendable_end();
                let first_lost = (0..end).find(|&i| self.colour[i] == C::Lost);
                let first_pending = (0..end).find(|&i| self.colour[i] == C::Pending);
                match self.buf.pick_up(|_| Some(cap), flow) {
                    Ok((range, fresh, data)) => {
                        let (s, e) = (range.start as usize, range.end as usize);
                        // An empty range offers no byte at all (the real buffer does this after a
                        // loss report for a FIN-only frame); the statement is about bytes, so
                        // this is accepted and changes nothing in the reference.
                        self.last_pick = Some((s, e));
                        ensure!(
                            e <= self.written,
                            "pick/unwritten",
                            "pick offered {s}..{e} but only {} bytes were written",
                            self.written
                        );
                        ensure!(
                            e <= self.window,
                            "pick/beyond-window",
                            "pick offered {s}..{e} beyond the peer's window {}",
                            self.window
                        );
                        let want = if fresh { C::Pending } else { C::Lost };
                        for i in s..e {
                            ensure!(
                                self.colour[i] == want,
                                if fresh { "pick/fresh-not-never-sent" } else { "pick/resend-not-lost" },
                                "pick offered {s}..{e} as {} but byte {i} is {:?} (colours {:?})",
                                if fresh { "new data" } else { "a retransmission" },
                                self.colour[i],
                                &self.colour[..self.written]
                            );
                        }
                        ensure!(e - s <= cap, "pick/over-capacity", "pick offered {} bytes with room for {cap}", e - s);
                        if fresh {
                            ensure!(
                                e - s <= flow,
                                "pick/over-flow-limit",
                                "pick offered {} new bytes with a flow limit of {flow}",
                                e - s
                            );
                        }
                        let flat: Vec<u8> = data.iter().flat_map(|b| b.iter().copied()).collect();
                        let expect: Vec<u8> = (s..e).map(Self::content).collect();
                        ensure!(
                            flat == expect,
                            "pick/wrong-bytes",
                            "pick {s}..{e} carried {:?}, the stream holds {:?}",
                            flat,
                            expect
                        );
                        for c in &mut self.colour[s..e] {
                            *c = C::Flighting;
                        }
                        if fresh && s < e {
                            self.fresh_high = self.fresh_high.max(e);
                        }
                        if s < e {
                            self.picked.insert((s, e));
                        }
                    }
                    Err(_signals) => {
                        self.last_pick = None;
                        ensure!(
                            first_lost.is_none(),
                            "pick/lost-not-offered",
                            "pick returned nothing although byte {} was reported lost and lies inside the window {} (colours {:?})",
                            first_lost.unwrap(),
                            self.window,
                            &self.colour[..self.written]
                        );
                        ensure!(
                            first_pending.is_none() || flow == 0,
                            "pick/pending-not-offered",
                            "pick returned nothing although byte {} was never sent, lies inside the window {} and the flow limit is {flow}",
                            first_pending.unwrap(),
                            self.window
                        );
                    }
                }
            }
            Op::Ack { start, end } => {
                self.buf.on_data_acked(&(start as u64..end as u64));
                for c in &mut self.colour[start..end] {
                    *c = C::Recved;
                }
            }
            Op::Lost { start, end } => {
                self.buf.may_loss_data(&(start as u64..end as u64));
                for c in &mut self.colour[start..end] {
                    if *c == C::Flighting {
                        *c = C::Lost;
                    }
                }
            }
            Op::ResendFlighting => {
                self.buf.resend_flighting();
                for c in &mut self.colour[..] {
                    if *c == C::Flighting {
                        *c = C::Lost;
                    }
                }
            }
        }
        self.invariants()
    }

    fn canon(&self) -> String {
        format!(
            "{:?}|{:?}|{}|{}|{:?}|{}",
            self.buf, self.colour, self.written, self.window, self.picked, self.fresh_high
        )
    }

    /// From every reachable state: with a perfect network (everything offered is
    /// acknowledged) and a window covering everything written, every byte is eventually
    /// offered and the buffer reports completion.
    fn finish(&mut self) -> Result<(), Fail> {
        if self.window < self.written {
            self.step(&Op::Extend { to: self.written })?;
        }
        self.step(&Op::ResendFlighting)?;
        for _ in 0..(4 * self.l + 8) {
            self.step(&Op::Pick { cap: 8, flow: 8 })?;
            match self.last_pick {
                None => break,
                Some((s, e)) if s < e => self.step(&Op::Ack { start: s, end: e })?,
                Some(_) => {} // empty offer: ask again
            }
        }
        let all = self.colour[..self.written].iter().all(|c| *c == C::Recved);
        ensure!(
            all && self.buf.is_all_rcvd(),
            "liveness/not-completed",
            "after resending everything over a perfect network the buffer is not complete: colours {:?}, is_all_rcvd {}",
            &self.colour[..self.written],
            self.buf.is_all_rcvd()
        );
        Ok(())
    }

    fn outcome(&self) -> Option<String> {
        let n = |c: C| self.colour[..self.written].iter().filter(|x| **x == c).count();
        Some(format!(
            "w{}p{}f{}l{}r{}",
            self.written,
            n(C::Pending),
            n(C::Flighting),
            n(C::Lost),
            n(C::Recved)
        ))
    }
}

pub fn run(args: &Args) -> i32 {
    let mut report = Report::new(args, "model_checking");
    report.assume("acknowledgements and loss reports range over the ranges previously returned by pick_up (the property's quantifier), plus the empty range of a FIN-only frame");
    report.assume("pick_up's predicate is `|_| Some(cap)` with cap >= 1 (StreamFrame::estimate_max_capacity never returns Some(0))");
    report.assume("canonical state = #[derive(Debug)] dump of the real SendBuf (offset, data, max_data, colour map) + reference");
    if let Some(p) = &args.replay {
        let r = mc_core::report::load_replay(p);
        let l = r["config"]["L"].as_u64().unwrap_or(4) as usize;
        let w = r["config"]["window"].as_u64().unwrap_or(0) as usize;
        return match mc_core::explore::replay(|| Sys::new(l, w), &r["history"]) {
            Ok(()) => {
                println!("replay: no violation");
                0
            }
            Err(f) => {
                println!("replay: {} — {}", f.sig, f.detail);
                1
            }
        };
    }
    // (L, initial window)
    let configs: &[(usize, usize)] = if args.thorough {
        &[(3, 0), (4, 2), (5, 5), (6, 3)]
    } else {
        &[(3, 0), (3, 3), (4, 2)]
    };
    for &(l, w) in configs {
        let cfg = ExploreCfg {
            check_finish: true,
            time_cap: Duration::from_secs(if args.thorough { 1500 } else { 40 }),
            ..Default::default()
        };
        let stats = explore(|| Sys::new(l, w), &cfg);
        mc_core::explore::file_violations(&mut report, "sndbuf", json!({"L": l, "window": w}), &stats);
        report.sub(
            &format!("sndbuf-closure-L{l}-w{w}"),
            stats.coverage(&format!(
                "BFS to closure over all histories of write(1..3) up to {l} bytes, extend(window), pick_up(cap in 8,1,2; flow in 8,0,1,2), ack/lost of every range ever picked (and the empty FIN range), resend_flighting on the real SendBuf starting with window {w}; from every distinct state the perfect-network completion run is also executed"
            )),
        );
    }
    report.finish()
}
