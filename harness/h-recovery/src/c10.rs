//! C10 — acknowledgement bookkeeping is truthful in both directions (and C07a — packet
//! numbers are never reused), on the real `ArcRcvdJournal` / `ArcSentJournal`.
//!
//! E1 bounded search (BFS with canonical-state dedup, virtual clock).
use std::{
    collections::{BTreeMap, BTreeSet},
    time::Duration,
};

use mc_core::{Args, ExploreCfg, Fail, Report, System, ensure, explore};
use qbase::{
    frame::{AckFrame, EncodeSize},
    packet::PacketNumber,
    varint::VarInt,
};
use qrecovery::journal::{ArcRcvdJournal, ArcSentJournal};
use serde::{Deserialize, Serialize};
use serde_json::json;

use crate::util::Clock;

const PTO: Duration = Duration::from_millis(100);

// ---------------------------------------------------------------------------------------
// (a) received-packet journal
// ---------------------------------------------------------------------------------------

#[derive(Debug, Clone, Serialize, Deserialize)]
pub enum ROp {
    /// a packet with this number arrives (ack-eliciting or not)
    Rcvd { pn: u64, eliciting: bool },
    /// generate an ACK frame for `largest` into `min_len + extra` bytes (`extra = 99` ⇒ 1200)
    GenAck { largest: u64, extra: i32 },
    /// the peer acknowledges our packet `ack_pkt` (which carried an ACK frame)
    PeerAcked { ack_pkt: u64 },
    /// 3·PTO + 1 ms pass
    Expire,
}

pub struct RcvdSys {
    n: u64,
    clock: Clock,
    j: ArcRcvdJournal,
    // reference
    received: BTreeMap<u64, Duration>, // pn -> receive time (offset)
    /// numbers included in an ACK frame we generated, per carrying packet
    included: BTreeMap<u64, BTreeSet<u64>>,
    confirmed: BTreeSet<u64>,
    next_ack_pkt: u64,
    expires: u32,
}

fn vs(v: u64) -> usize {
    VarInt::from_u64(v).unwrap().encoding_size()
}

/// AckFrame for an arbitrary non-empty set of packet numbers.
pub fn ack_frame_for(set: &BTreeSet<u64>) -> AckFrame {
    let mut ranges: Vec<(u64, u64)> = Vec::new(); // (lo, hi) descending
    for &p in set.iter().rev() {
        match ranges.last_mut() {
            Some((lo, _)) if *lo == p + 1 => *lo = p,
            _ => ranges.push((p, p)),
        }
    }
    let (lo0, hi0) = ranges[0];
    let mut rest = Vec::new();
    let mut prev_lo = lo0;
    for &(lo, hi) in &ranges[1..] {
        let gap = prev_lo - hi - 2;
        rest.push((VarInt::from_u64(gap).unwrap(), VarInt::from_u64(hi - lo).unwrap()));
        prev_lo = lo;
    }
    AckFrame::new(
        VarInt::from_u64(hi0).unwrap(),
        VarInt::from_u32(0),
        VarInt::from_u64(hi0 - lo0).unwrap(),
        rest,
        None,
    )
}

impl RcvdSys {
    pub fn new(n: u64) -> RcvdSys {
        let clock = Clock::new();
        let j = clock.enter(|| ArcRcvdJournal::with_capacity(4, Some(Duration::from_millis(25))));
        RcvdSys {
            n,
            clock,
            j,
            received: BTreeMap::new(),
            included: BTreeMap::new(),
            confirmed: BTreeSet::new(),
            next_ack_pkt: 100,
            expires: 0,
        }
    }

    fn first_range_ref(&self, largest: u64) -> u64 {
        let mut r = 0;
        while largest >= r + 1 && self.received.contains_key(&(largest - r - 1)) {
            r += 1;
        }
        r
    }
}

impl System for RcvdSys {
    type Op = ROp;

    fn ops(&self) -> Vec<ROp> {
        let mut v = Vec::new();
        for pn in 0..self.n {
            v.push(ROp::Rcvd { pn, eliciting: true });
            if pn % 2 == 1 {
                v.push(ROp::Rcvd { pn, eliciting: false });
            }
        }
        if self.next_ack_pkt < 103 {
            for &largest in self.received.keys() {
                for extra in [99, 0, -1, 1, 2, 3, 4] {
                    v.push(ROp::GenAck { largest, extra });
                }
            }
        }
        for &p in self.included.keys() {
            v.push(ROp::PeerAcked { ack_pkt: p });
        }
        if self.expires < 1 && !self.received.is_empty() {
            v.push(ROp::Expire);
        }
        v
    }

    fn step(&mut self, op: &ROp) -> Result<(), Fail> {
        match *op {
            ROp::Rcvd { pn, eliciting } => {
                // the sender's view: nothing acknowledged yet (the 16-bit minimum encoding
                // covers the whole alphabet)
                let enc = PacketNumber::encode(pn, 0);
                let r = self.clock.enter(|| self.j.decode_pn(enc));
                match r {
                    Ok(d) => {
                        ensure!(
                            d == pn,
                            "rcvd/decode-wrong",
                            "packet {pn} decoded as {d}"
                        );
                        ensure!(
                            !self.received.contains_key(&pn),
                            "rcvd/accepted-twice",
                            "packet number {pn} was accepted although it had been received before"
                        );
                        self.clock.enter(|| self.j.on_rcvd_pn(pn, eliciting, PTO));
                        self.received.insert(pn, self.clock.elapsed());
                    }
                    Err(_) => {
                        // refusing is always safe for this property (duplicate / too old);
                        // a fresh number above everything seen so far must be accepted though
                        let fresh_top = self.received.keys().next_back().is_none_or(|&m| pn > m);
                        ensure!(
                            !fresh_top,
                            "rcvd/refused-new-largest",
                            "packet number {pn}, larger than every number received so far, was refused: {r:?}"
                        );
                    }
                }
            }
            ROp::GenAck { largest, extra } => {
                let rcvd_at = self.received[&largest];
                let rcvd_time = self.clock.epoch + rcvd_at;
                let delay_us = (self.clock.elapsed() - rcvd_at).as_micros() as u64;
                let fr = self.first_range_ref(largest);
                let min_len = 1 + vs(largest) + vs(delay_us) + 1 + vs(fr);
                let cap = if extra == 99 { 1200 } else { (min_len as i32 + extra) as usize };
                let pkt = self.next_ack_pkt;
                let r = self
                    .clock
                    .enter(|| self.j.gen_ack_frame_util(pkt, largest, rcvd_time, cap));
                match r {
                    Ok(frame) => {
                        self.next_ack_pkt += 1;
                        ensure!(
                            frame.largest() == largest,
                            "gen/largest",
                            "asked for largest {largest}, frame says {}",
                            frame.largest()
                        );
                        let size = frame.encoding_size();
                        ensure!(
                            size <= cap,
                            "gen/does-not-fit",
                            "ACK frame of {size} bytes generated for a space of {cap} bytes (largest {largest}, received {:?})",
                            self.received.keys().collect::<Vec<_>>()
                        );
                        let mut covered = BTreeSet::new();
                        let mut last_lo: Option<u64> = None;
                        for r in frame.iter() {
                            ensure!(
                                r.start() <= r.end(),
                                "gen/malformed-range",
                                "range {r:?}"
                            );
                            if let Some(lo) = last_lo {
                                ensure!(*r.end() + 1 < lo, "gen/ranges-not-descending", "range {r:?} after low {lo}");
                            }
                            last_lo = Some(*r.start());
                            for p in r {
                                covered.insert(p);
                            }
                        }
                        for p in &covered {
                            ensure!(
                                self.received.contains_key(p),
                                "gen/acks-unreceived",
                                "ACK frame (largest {largest}, cap {cap}) acknowledges {p}, never received; received = {:?}, frame covers {:?}",
                                self.received.keys().collect::<Vec<_>>(),
                                covered
                            );
                        }
                        if cap >= 1200 {
                            for (&p, _) in self.received.range(..=largest) {
                                ensure!(
                                    covered.contains(&p) || self.confirmed.contains(&p),
                                    "gen/omits-tracked",
                                    "ample space, but received packet {p} (never confirmed acknowledged) is missing from the ACK for largest {largest}: covers {:?}",
                                    covered
                                );
                            }
                        }
                        self.included.insert(pkt, covered);
                    }
                    Err(_) => {
                        ensure!(
                            cap < min_len,
                            "gen/refused-although-fits",
                            "no ACK frame generated for {cap} bytes although the minimal frame (largest {largest}, first range {fr}) needs {min_len}"
                        );
                    }
                }
            }
            ROp::PeerAcked { ack_pkt } => {
                let f = ack_frame_for(&BTreeSet::from([ack_pkt]));
                self.clock.enter(|| self.j.on_rcvd_ack(&f));
                if let Some(set) = self.included.remove(&ack_pkt) {
                    self.confirmed.extend(set);
                }
            }
            ROp::Expire => {
                self.clock.advance(PTO * 3 + Duration::from_millis(1));
                self.expires += 1;
            }
        }
        Ok(())
    }

    fn canon(&self) -> String {
        format!(
            "{}|{:?}|{:?}|{:?}|{}|{}",
            self.clock.canon(&format!("{:?}", self.j)),
            self.received,
            self.included,
            self.confirmed,
            self.next_ack_pkt,
            self.expires
        )
    }

    fn outcome(&self) -> Option<String> {
        Some(format!("r{}i{}c{}", self.received.len(), self.included.len(), self.confirmed.len()))
    }
}

// ---------------------------------------------------------------------------------------
// (b) sent-packet journal (also decides C07a)
// ---------------------------------------------------------------------------------------

#[derive(Debug, Clone, Serialize, Deserialize)]
pub enum SOp {
    /// begin a packet, read its number, record `frames` frames (+ optionally mark trivial),
    /// then build it. `frames == 0 && !trivial` is an assembly abandoned before anything was
    /// written; `via_build_trivial` uses `build_trivial()` instead of `build_with_time()`.
    Packet { frames: u8, trivial: bool, via_build_trivial: bool },
    /// begin a packet, read its number, drop the guard
    Abandon,
    /// the peer's ACK frame for exactly this set (bitmask over the sent packets, in order)
    Ack { mask: u32 },
    /// congestion control declares the pn-th sent packet lost
    Lost { pn: u64 },
    FastRetransmit,
    /// virtual time passes
    Advance { ms: u64 },
}

#[derive(Debug, Clone, Copy, PartialEq, Eq)]
enum PState {
    Skipped,
    Flight,
    Lost,
    Acked,
}

#[derive(Debug, Clone)]
struct RefPkt {
    tokens: Vec<u32>,
    state: PState,
    expire_at: Duration,
}

const RETRAN: Duration = Duration::from_millis(50);
const EXPIRE: Duration = Duration::from_millis(200);

pub struct SentSys {
    max_pkts: u64,
    clock: Clock,
    j: ArcSentJournal<u32>,
    pkts: BTreeMap<u64, RefPkt>,
    next_token: u32,
    last_built_pn: Option<u64>,
    advances: u32,
    largest_acked: u64,
}

impl SentSys {
    pub fn new(max_pkts: u64) -> SentSys {
        let clock = Clock::new();
        SentSys {
            max_pkts,
            j: clock.enter(|| ArcSentJournal::with_capacity(2)),
            clock,
            pkts: BTreeMap::new(),
            next_token: 1,
            last_built_pn: None,
            advances: 0,
            largest_acked: 0,
        }
    }

    /// may the journal have forgotten this packet? (declared lost and past its expiry)
    fn forgettable(&self, p: &RefPkt) -> bool {
        p.state == PState::Lost && self.clock.elapsed() >= p.expire_at
    }
}

impl System for SentSys {
    type Op = SOp;

    fn ops(&self) -> Vec<SOp> {
        let mut v = Vec::new();
        let n = self.pkts.len() as u64;
        if n < self.max_pkts {
            v.push(SOp::Packet { frames: 1, trivial: false, via_build_trivial: false });
            v.push(SOp::Packet { frames: 2, trivial: false, via_build_trivial: false });
            v.push(SOp::Packet { frames: 0, trivial: true, via_build_trivial: false });
            v.push(SOp::Packet { frames: 0, trivial: true, via_build_trivial: true });
            v.push(SOp::Packet { frames: 1, trivial: true, via_build_trivial: false });
            v.push(SOp::Packet { frames: 0, trivial: false, via_build_trivial: false });
            v.push(SOp::Abandon);
        }
        if n > 0 {
            for mask in 1u32..(1 << n) {
                v.push(SOp::Ack { mask });
            }
            for pn in 0..n {
                v.push(SOp::Lost { pn });
            }
            v.push(SOp::FastRetransmit);
            if self.advances < 2 {
                v.push(SOp::Advance { ms: 60 });
                v.push(SOp::Advance { ms: 200 });
            }
        }
        v
    }

    fn step(&mut self, op: &SOp) -> Result<(), Fail> {
        let now = self.clock.elapsed();
        match *op {
            SOp::Packet { frames, trivial, via_build_trivial } => {
                let expected_pn = self.pkts.len() as u64;
                let tokens: Vec<u32> = (0..frames as u32).map(|i| self.next_token + i).collect();
                let pn = self.clock.enter(|| {
                    let mut g = self.j.new_packet();
                    let (pn, enc) = g.pn();
                    let _ = enc;
                    for t in &tokens {
                        g.record_frame(*t);
                    }
                    if trivial {
                        g.record_trivial();
                    }
                    if via_build_trivial {
                        g.build_trivial();
                    } else {
                        g.build_with_time(RETRAN, EXPIRE);
                    }
                    pn
                });
                let consumed = frames > 0 || trivial;
                if consumed {
                    if let Some(last) = self.last_built_pn {
                        ensure!(
                            pn > last,
                            "pn/reused",
                            "a packet was built with number {pn} after one with number {last} had already left"
                        );
                    }
                    self.last_built_pn = Some(pn);
                    let _ = expected_pn; // gaps in the numbering are allowed by the statement
                    self.next_token += frames as u32;
                    self.pkts.insert(
                        pn,
                        RefPkt {
                            tokens,
                            state: if frames == 0 { PState::Skipped } else { PState::Flight },
                            expire_at: now + EXPIRE,
                        },
                    );
                }
            }
            SOp::Abandon => {
                self.clock.enter(|| {
                    let g = self.j.new_packet();
                    let _ = g.pn();
                    drop(g);
                });
            }
            SOp::Ack { mask } => {
                let keys: Vec<u64> = self.pkts.keys().copied().collect();
                let set: BTreeSet<u64> = (0..keys.len()).filter(|i| mask & (1 << i) != 0).map(|i| keys[i]).collect();
                let frame = ack_frame_for(&set);
                let mut delivered: Vec<(u64, Vec<u32>)> = Vec::new();
                let res = self.clock.enter(|| {
                    // the call sequence of qconnection::space::Ack*Space::recv_frame
                    let mut g = self.j.rotate();
                    g.update_largest(&frame)?;
                    let acked = frame.iter().flat_map(|r| r.rev()).collect::<Vec<_>>();
                    for pn in acked {
                        let fs: Vec<u32> = g.on_packet_acked(pn).collect();
                        delivered.push((pn, fs));
                    }
                    Ok::<(), qbase::error::QuicError>(())
                });
                ensure!(
                    res.is_ok(),
                    "ack/rejected-valid",
                    "an ACK for sent packets {set:?} was rejected: {res:?}"
                );
                self.largest_acked = self.largest_acked.max(*set.iter().next_back().unwrap());
                for (pn, fs) in delivered {
                    let p = self.pkts.get(&pn).cloned();
                    match p {
                        Some(p) if p.state == PState::Flight || p.state == PState::Lost => {
                            let forgettable = self.forgettable(&p);
                            ensure!(
                                fs == p.tokens || (forgettable && fs.is_empty()),
                                "ack/wrong-frames",
                                "packet {pn} carried frames {:?} and is newly acknowledged, but {:?} were reported delivered",
                                p.tokens,
                                fs
                            );
                            self.pkts.get_mut(&pn).unwrap().state = PState::Acked;
                        }
                        Some(p) => ensure!(
                            fs.is_empty(),
                            "ack/reported-again",
                            "packet {pn} ({:?}) is not newly acknowledged, yet frames {:?} were reported delivered",
                            p.state,
                            fs
                        ),
                        None => ensure!(
                            fs.is_empty(),
                            "ack/frames-of-unsent",
                            "frames {fs:?} reported for never-sent packet {pn}"
                        ),
                    }
                }
            }
            SOp::Lost { pn } => {
                let pn = *self.pkts.keys().nth(pn as usize).unwrap();
                let fs: Vec<u32> = self.clock.enter(|| {
                    let mut g = self.j.rotate();
                    g.may_loss_packet(pn).collect()
                });
                let p = self.pkts.get(&pn).cloned().unwrap();
                match p.state {
                    PState::Flight | PState::Lost => {
                        let forgettable = self.forgettable(&p);
                        ensure!(
                            fs == p.tokens || (forgettable && fs.is_empty()),
                            "lost/wrong-frames",
                            "packet {pn} carried {:?}, is unacknowledged and declared lost, but {:?} were reported for retransmission",
                            p.tokens,
                            fs
                        );
                        self.pkts.get_mut(&pn).unwrap().state = PState::Lost;
                    }
                    PState::Acked | PState::Skipped => ensure!(
                        fs.is_empty(),
                        "lost/frames-of-acked",
                        "packet {pn} is {:?}, yet {:?} were reported for retransmission",
                        p.state,
                        fs
                    ),
                }
            }
            SOp::FastRetransmit => {
                let fs: Vec<u32> = self.clock.enter(|| {
                    let mut g = self.j.rotate();
                    g.fast_retransmit().collect()
                });
                // not part of the statement beyond: only frames of sent, unacknowledged packets
                // may be offered for retransmission
                let mut remaining = fs.clone();
                let mut touched = Vec::new();
                for (pn, p) in &self.pkts {
                    if !p.tokens.is_empty() && remaining.starts_with(&p.tokens) {
                        if p.state == PState::Flight || p.state == PState::Lost {
                            remaining.drain(..p.tokens.len());
                            touched.push(*pn);
                        }
                    }
                }
                ensure!(
                    remaining.is_empty(),
                    "fast-retransmit/foreign-frames",
                    "fast_retransmit returned {fs:?}; not a concatenation of the frames of unacknowledged packets ({:?})",
                    self.pkts
                );
                for pn in touched {
                    self.pkts.get_mut(&pn).unwrap().state = PState::Lost;
                }
            }
            SOp::Advance { ms } => {
                self.clock.advance(Duration::from_millis(ms));
                self.advances += 1;
            }
        }
        Ok(())
    }

    fn canon(&self) -> String {
        format!(
            "{}|{:?}|{}|{}",
            self.clock.canon(&format!("{:?}", self.j)),
            self.pkts,
            self.advances,
            self.clock.elapsed().as_millis()
        )
    }

    fn outcome(&self) -> Option<String> {
        let c = |s: PState| self.pkts.values().filter(|p| p.state == s).count();
        Some(format!(
            "s{}f{}l{}a{}",
            c(PState::Skipped),
            c(PState::Flight),
            c(PState::Lost),
            c(PState::Acked)
        ))
    }
}

/// ACK frames with many ranges: the range-count varint grows at 64 ranges.
fn capacity_sweep(report: &mut Report, max_ranges: u64) {
    let mut evals = 0u64;
    let mut sizes = BTreeSet::new();
    let mut samples = Vec::new();
    for nr in 1..=max_ranges {
        // received: 0, 2, 4, …, 2·nr  (nr+1 ranges of one packet each)
        let largest = 2 * nr;
        let full = {
            let set: BTreeSet<u64> = (0..=nr).map(|i| 2 * i).collect();
            ack_frame_for(&set).encoding_size()
        };
        let caps: Vec<usize> = (4..=full + 2).collect();
        for cap in caps {
            let clock = Clock::new();
            let j = clock.enter(|| ArcRcvdJournal::with_capacity(4, None));
            let r = mc_core::panics::catch(|| {
                clock.enter(|| {
                    for i in 0..=nr {
                        let pn = j.decode_pn(PacketNumber::encode(2 * i, 0)).unwrap();
                        j.on_rcvd_pn(pn, true, PTO);
                    }
                    j.gen_ack_frame_util(1000, largest, clock.epoch, cap)
                })
            });
            evals += 1;
            let replay = json!({"sub": "ack-capacity-sweep", "ranges": nr + 1, "cap": cap});
            match r {
                Err(p) => report.violation(&format!("panic/{}", p.class()), &format!("{} at {}", p.message, p.location), replay),
                Ok(Ok(frame)) => {
                    let size = frame.encoding_size();
                    sizes.insert(size);
                    if size > cap {
                        report.violation(
                            "gen/does-not-fit",
                            &format!("{} one-packet ranges: frame of {size} bytes for a space of {cap}", nr + 1),
                            replay.clone(),
                        );
                    }
                    let mut ok = frame.largest() == largest;
                    for r in frame.iter() {
                        for p in r {
                            ok &= p % 2 == 0 && p <= largest;
                        }
                    }
                    if !ok {
                        report.violation("gen/acks-unreceived", &format!("{} ranges, cap {cap}: frame {frame:?}", nr + 1), replay.clone());
                    }
                    if cap >= full && frame.iter().count() as u64 != nr + 1 {
                        report.violation(
                            "gen/omits-tracked",
                            &format!("{} ranges fit into {cap} ≥ {full} bytes, but only {} were written", nr + 1, frame.iter().count()),
                            replay.clone(),
                        );
                    }
                    if samples.len() < 3 && cap == full {
                        samples.push(json!({"ranges": nr + 1, "cap": cap, "size": size}));
                    }
                }
                Ok(Err(_)) => {
                    let min_len = 1 + vs(largest) + 1 + 1 + 1;
                    if cap >= min_len {
                        report.violation(
                            "gen/refused-although-fits",
                            &format!("{} ranges, cap {cap}: no frame although the minimal one needs {min_len} bytes", nr + 1),
                            replay,
                        );
                    }
                }
            }
        }
    }
    report.sub(
        "ack-capacity-sweep",
        mc_core::report::Coverage {
            evaluations: evals,
            distinct_nontrivial: sizes.len() as u64,
            exhaustive: true,
            rule: format!("for every count of one-packet ranges 2..={} and every capacity from 4 bytes to full size + 2: generate the ACK frame on the real ArcRcvdJournal and check fit, truthfulness, completeness; distinct = distinct frame sizes produced", max_ranges + 1),
            samples,
            ..Default::default()
        },
    );
}

pub fn replay(args: &Args) -> i32 {
    let r = mc_core::report::load_replay(args.replay.as_ref().unwrap());
    let sub = r["sub"].as_str().unwrap_or("");
    let res = match sub {
        "rcvd-journal" => {
            let n = r["config"]["N"].as_u64().unwrap_or(5);
            mc_core::explore::replay(|| RcvdSys::new(n), &r["history"])
        }
        "sent-journal" => {
            let n = r["config"]["max_pkts"].as_u64().unwrap_or(3);
            mc_core::explore::replay(|| SentSys::new(n), &r["history"])
        }
        _ => {
            println!("replay of sub-check {sub}: re-run `./check {} --only {sub}`", args.property);
            return 2;
        }
    };
    match res {
        Ok(()) => {
            println!("replay: no violation");
            0
        }
        Err(f) => {
            println!("replay: {} — {}", f.sig, f.detail);
            1
        }
    }
}

/// `c07 = true` files only the `pn/` clauses (C07a), otherwise everything else (C10).
pub fn run(args: &Args, c07: bool) -> i32 {
    if args.replay.is_some() {
        return replay(args);
    }
    let mut report = Report::new(args, "model_checking");
    report.assume("virtual clock (paused tokio runtime); Instants in the journal dumps are canonicalised to offsets from the harness epoch");
    report.assume("a NewPacketGuard is never abandoned after record_frame (no call site can do it: assemble_packet fails only when nothing was written)");
    let keep = |sig: &str| sig.starts_with("pn/") == c07 || sig.starts_with("panic/");

    let (n_pkts, depth_s) = if args.thorough { (4u64, 9usize) } else { (4, 8) };
    let cfg = ExploreCfg {
        max_depth: depth_s,
        time_cap: Duration::from_secs(if args.thorough { 1200 } else { 60 }),
        ..Default::default()
    };
    let mut stats = explore(|| SentSys::new(n_pkts), &cfg);
    stats.violations.retain(|k, _| keep(k));
    mc_core::explore::file_violations(&mut report, "sent-journal", json!({"max_pkts": n_pkts}), &stats);
    report.sub(
        &format!("sent-journal-P{n_pkts}-D{depth_s}"),
        stats.coverage(&format!(
            "BFS (dedup on canonical dump) over histories ≤ {depth_s} ops of: packet(0..2 frames, trivial?, build_with_time|build_trivial), abandoned guard, ACK of every non-empty subset of sent numbers (real space.rs call sequence), loss of every number, fast_retransmit, 2 clock advances (60 ms > retransmit timeout, 200 ms = expiry) with ≤ {n_pkts} packets on the real ArcSentJournal<u32>"
        )),
    );

    if !c07 {
        let (n, depth_r) = if args.thorough { (6u64, 8usize) } else { (5, 7) };
        let cfg = ExploreCfg {
            max_depth: depth_r,
            time_cap: Duration::from_secs(if args.thorough { 1200 } else { 60 }),
            ..Default::default()
        };
        let stats = explore(|| RcvdSys::new(n), &cfg);
        mc_core::explore::file_violations(&mut report, "rcvd-journal", json!({"N": n}), &stats);
        report.sub(
            &format!("rcvd-journal-N{n}-D{depth_r}"),
            stats.coverage(&format!(
                "BFS (dedup on canonical dump) over histories ≤ {depth_r} ops of: arrival of pn 0..{n} (ack-eliciting or not, any order, duplicates), gen_ack_frame_util(largest ∈ received, capacity = minimum-1 … minimum+4 and 1200; ≤ 3 ACKs), peer acknowledging an ACK-carrying packet, expiry (3·PTO) on the real ArcRcvdJournal"
            )),
        );
        capacity_sweep(&mut report, if args.thorough { 80 } else { 66 });
    }
    report.finish()
}
