//! h-recovery: harnesses that need qbase + qrecovery only.
mod c08;
mod c09;

fn main() {
    let args = mc_core::Args::parse();
    let code = match args.property.as_str() {
        "C08" => c08::run(&args),
        "C09" => c09::run(&args),
        other => {
            eprintln!("h-recovery: unknown property {other}");
            2
        }
    };
    std::process::exit(code);
}
