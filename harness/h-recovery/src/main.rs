//! h-recovery: harnesses that need qbase + qrecovery only.
mod c08;
mod c09;
mod c10;
mod util;

fn main() {
    let args = mc_core::Args::parse();
    let code = match args.property.as_str() {
        "C08" => c08::run(&args),
        "C09" => c09::run(&args),
        "C10" => c10::run(&args, false),
        "C07a" => c10::run(&args, true),
        other => {
            eprintln!("h-recovery: unknown property {other}");
            2
        }
    };
    std::process::exit(code);
}
