//! C08 — the receive buffer reassembles any fragment sequence into the original bytes.
//!
//! E1 closure over the real `qrecovery::recv::RecvBuf`: content = L position-identifying
//! bytes, alphabet = every `recv(off,len)` slice of it (including empty, duplicate,
//! overlapping, already-read), `try_read` through a capacity-limited `BufMut`, `try_next`.
//! Reference = set of covered offsets + number of bytes read.
use std::time::Duration;

use bytes::{BufMut, Bytes};
use mc_core::{Args, ExploreCfg, Fail, Report, System, ensure, explore};
use qrecovery::recv::RecvBuf;
use serde::{Deserialize, Serialize};
use serde_json::json;

#[derive(Debug, Clone, Serialize, Deserialize)]
pub enum Op {
    Recv { off: usize, len: usize },
    Read { cap: usize },
    Next,
}

pub struct Sys {
    l: usize,
    content: Bytes,
    buf: RecvBuf,
    // reference
    covered: Vec<bool>,
    nread: usize,
    largest: usize,
    charged: u64,
}

/// A `BufMut` with a hard capacity: `remaining_mut` tells the truth, as a `ReadBuf` does.
struct Limited {
    data: Vec<u8>,
    cap: usize,
}

unsafe impl BufMut for Limited {
    fn remaining_mut(&self) -> usize {
        self.cap - self.data.len()
    }
    unsafe fn advance_mut(&mut self, cnt: usize) {
        let new = self.data.len() + cnt;
        assert!(new <= self.cap);
        unsafe { self.data.set_len(new) };
    }
    fn chunk_mut(&mut self) -> &mut bytes::buf::UninitSlice {
        if self.data.capacity() < self.cap {
            self.data.reserve(self.cap - self.data.len());
        }
        let len = self.data.len();
        let spare = self.cap - len;
        let ptr = self.data.as_mut_ptr();
        unsafe { bytes::buf::UninitSlice::from_raw_parts_mut(ptr.add(len), spare) }
    }
}

impl Sys {
    pub fn new(l: usize) -> Sys {
        let content: Vec<u8> = (0..l).map(|i| (i + 1) as u8).collect();
        Sys {
            l,
            content: Bytes::from(content),
            buf: RecvBuf::default(),
            covered: vec![false; l],
            nread: 0,
            largest: 0,
            charged: 0,
        }
    }

    fn prefix_end(&self) -> usize {
        let mut e = self.nread;
        while e < self.l && self.covered[e] {
            e += 1;
        }
        e
    }

    fn check_produced(&mut self, got: &[u8], room: Option<usize>) -> Result<(), Fail> {
        let avail = self.prefix_end() - self.nread;
        ensure!(
            got.len() <= avail,
            "read/beyond-contiguous-prefix",
            "produced {} bytes but only {} contiguous bytes had arrived (nread {})",
            got.len(),
            avail,
            self.nread
        );
        let expect = &self.content[self.nread..self.nread + got.len()];
        ensure!(
            got == expect,
            "read/wrong-bytes",
            "at offset {} produced {:?}, the stream holds {:?}",
            self.nread,
            got,
            expect
        );
        if let Some(room) = room {
            ensure!(
                got.len() == avail.min(room),
                "read/short",
                "room for {room} bytes and {avail} contiguous bytes arrived, but {} produced",
                got.len()
            );
        }
        self.nread += got.len();
        Ok(())
    }

    fn invariants(&self) -> Result<(), Fail> {
        ensure!(
            self.buf.nread() as usize == self.nread,
            "state/nread",
            "nread() = {}, bytes actually produced = {}",
            self.buf.nread(),
            self.nread
        );
        let avail = self.prefix_end() - self.nread;
        ensure!(
            self.buf.available() as usize == avail,
            "state/available",
            "available() = {}, contiguous unread bytes = {avail}",
            self.buf.available()
        );
        ensure!(
            self.buf.is_readable() == (avail > 0),
            "state/is_readable",
            "is_readable() = {}, contiguous unread bytes = {avail}",
            self.buf.is_readable()
        );
        ensure!(
            self.buf.largest_offset() as usize == self.largest,
            "state/largest_offset",
            "largest_offset() = {}, highest offset seen = {}",
            self.buf.largest_offset(),
            self.largest
        );
        ensure!(
            self.charged as usize == self.largest,
            "flow/charge-sum",
            "sum of recv() returns = {}, highest offset seen = {}",
            self.charged,
            self.largest
        );
        Ok(())
    }
}

impl System for Sys {
    type Op = Op;

    fn ops(&self) -> Vec<Op> {
        let mut v = Vec::new();
        for off in 0..=self.l {
            for len in 0..=(self.l - off) {
                v.push(Op::Recv { off, len });
            }
        }
        for cap in [1, 2, self.l] {
            v.push(Op::Read { cap });
        }
        v.push(Op::Next);
        v
    }

    fn step(&mut self, op: &Op) -> Result<(), Fail> {
        match *op {
            Op::Recv { off, len } => {
                let new = self.buf.recv(off as u64, self.content.slice(off..off + len));
                // reference: only bytes not yet read become "covered"; largest is the
                // highest end of a non-empty fragment that still had unread bytes
                let start = off.max(self.nread);
                let end = off + len;
                let before = self.largest;
                if end > start {
                    for c in &mut self.covered[start..end] {
                        *c = true;
                    }
                    self.largest = self.largest.max(end);
                } else if len == 0 && off > before && new as usize == off - before {
                    // an empty fragment beyond the highest offset: the statement does not say
                    // whether its offset counts as "seen"; either answer is accepted as long
                    // as the charge stays consistent with it
                    self.largest = off;
                }
                self.charged += new;
                ensure!(
                    new as usize == self.largest - before,
                    "flow/recv-return",
                    "recv({off},{len}) returned {new}, highest offset moved {before} -> {}",
                    self.largest
                );
            }
            Op::Read { cap } => {
                let mut dst = Limited { data: Vec::with_capacity(cap), cap };
                let n = self.buf.try_read(&mut dst);
                ensure!(
                    n == dst.data.len(),
                    "read/return-value",
                    "try_read returned {n} but wrote {} bytes",
                    dst.data.len()
                );
                let got = dst.data.clone();
                self.check_produced(&got, Some(cap))?;
            }
            Op::Next => {
                let avail = self.prefix_end() - self.nread;
                match self.buf.try_next() {
                    Some(b) => {
                        ensure!(!b.is_empty(), "read/empty-next", "try_next returned an empty segment");
                        self.check_produced(&b, None)?;
                    }
                    None => ensure!(
                        avail == 0,
                        "read/next-none-while-readable",
                        "try_next returned None with {avail} contiguous bytes unread"
                    ),
                }
            }
        }
        self.invariants()
    }

    fn canon(&self) -> String {
        // `RecvBuf` derives Debug over its complete private state (nread, largest_offset,
        // segments with offsets and bytes); the reference adds the covered set.
        format!("{:?}|{:?}|{}", self.buf, self.covered, self.charged)
    }

    fn outcome(&self) -> Option<String> {
        Some(format!("read{}of{}", self.nread, self.largest))
    }
}

pub fn run(args: &Args) -> i32 {
    let mut report = Report::new(args, "model_checking");
    report.assume("stream contents are position-identifying bytes 1..=L; fragments are slices of one sequence (the property's precondition)");
    report.assume("canonical state = #[derive(Debug)] dump of the real RecvBuf (complete private state) + reference covered-set; 128-bit hash used for the seen-set");
    if let Some(p) = &args.replay {
        let r = mc_core::report::load_replay(p);
        let l = r["config"]["L"].as_u64().unwrap_or(6) as usize;
        return match mc_core::explore::replay(|| Sys::new(l), &r["history"]) {
            Ok(()) => {
                println!("replay: no violation");
                0
            }
            Err(f) => {
                println!("replay: {} — {}", f.sig, f.detail);
                1
            }
        };
    }
    let sizes: &[usize] = if args.thorough { &[3, 6, 9, 12] } else { &[3, 6, 8] };
    for &l in sizes {
        let cfg = ExploreCfg {
            time_cap: Duration::from_secs(if args.thorough { 1500 } else { 120 }),
            ..Default::default()
        };
        let stats = explore(|| Sys::new(l), &cfg);
        mc_core::explore::file_violations(&mut report, "rcvbuf", json!({"L": l}), &stats);
        report.sub(
            &format!("rcvbuf-closure-L{l}"),
            stats.coverage(&format!(
                "BFS to closure over all histories of recv(off,len) for every slice of a {l}-byte stream, try_read(cap in 1,2,{l}), try_next on the real RecvBuf; a state is non-trivial when its canonical dump differs from the initial one"
            )),
        );
    }
    report.finish()
}
