#![allow(dead_code)]
//! Shared helpers: paused virtual clock, canonicalisation of `Instant`s in Debug dumps,
//! counting wakers.
use std::{
    sync::{
        Arc,
        atomic::{AtomicUsize, Ordering},
    },
    task::{Wake, Waker},
    time::Duration,
};

use tokio::{runtime::Runtime, time::Instant};

thread_local! {
    /// Paused runtimes waiting for re-use on this thread: building a runtime costs several
    /// syscalls and a C13 state is rebuilt hundreds of thousands of times. A runtime belongs to
    /// exactly one live `Clock` at a time (the explorer keeps two systems alive at once), its
    /// virtual time only moves forward and every `Clock` measures from its own epoch, so
    /// re-use is unobservable.
    static POOL: std::cell::RefCell<Vec<Runtime>> = const { std::cell::RefCell::new(Vec::new()) };
}

/// A current-thread tokio runtime with a paused clock: `tokio::time::Instant::now()` inside
/// [`Clock::enter`] is virtual and only moves with [`Clock::advance`].
pub struct Clock {
    rt: std::mem::ManuallyDrop<Runtime>,
    pub epoch: Instant,
    epoch_ns: i128,
}

impl Drop for Clock {
    fn drop(&mut self) {
        // SAFETY: `rt` is never touched again after this point.
        let rt = unsafe { std::mem::ManuallyDrop::take(&mut self.rt) };
        let _ = POOL.try_with(|p| {
            if let Ok(mut p) = p.try_borrow_mut() {
                if p.len() < 4 {
                    p.push(rt);
                }
            }
        });
    }
}

impl Clock {
    pub fn new() -> Clock {
        let rt = POOL.with(|p| p.borrow_mut().pop()).unwrap_or_else(|| {
            tokio::runtime::Builder::new_current_thread()
                .enable_time()
                .start_paused(true)
                .build()
                .expect("runtime")
        });
        let epoch = {
            let _g = rt.enter();
            Instant::now()
        };
        let epoch_ns = parse_instant_ns(&format!("{epoch:?}")).expect("Instant Debug format");
        Clock { rt: std::mem::ManuallyDrop::new(rt), epoch, epoch_ns }
    }

    pub fn enter<R>(&self, f: impl FnOnce() -> R) -> R {
        let _g = self.rt.enter();
        f()
    }

    pub fn block_on<F: std::future::Future>(&self, f: F) -> F::Output {
        self.rt.block_on(f)
    }

    pub fn advance(&self, d: Duration) {
        self.rt.block_on(tokio::time::advance(d));
    }

    pub fn now(&self) -> Instant {
        self.enter(Instant::now)
    }

    pub fn elapsed(&self) -> Duration {
        self.now() - self.epoch
    }

    /// Replaces every `Instant { tv_sec: S, tv_nsec: N }` in a Debug dump by `T+<ns>` relative
    /// to this clock's epoch, so that dumps of equal states are equal across replays.
    pub fn canon(&self, dump: &str) -> String {
        let mut out = String::with_capacity(dump.len());
        let mut rest = dump;
        const PAT: &str = "Instant { tv_sec: ";
        while let Some(i) = rest.find(PAT) {
            out.push_str(&rest[..i]);
            let tail = &rest[i..];
            let end = tail.find('}').map(|e| e + 1).unwrap_or(tail.len());
            match parse_instant_ns(&tail[..end]) {
                Some(ns) => out.push_str(&format!("T+{}", ns - self.epoch_ns)),
                None => out.push_str(&tail[..end]),
            }
            rest = &tail[end..];
        }
        out.push_str(rest);
        out
    }
}

fn parse_instant_ns(s: &str) -> Option<i128> {
    let a = s.find("tv_sec: ")? + 8;
    let b = s[a..].find(',')? + a;
    let sec: i128 = s[a..b].trim().parse().ok()?;
    let c = s.find("tv_nsec: ")? + 9;
    let d = s[c..].find(|ch: char| !ch.is_ascii_digit()).map(|x| x + c).unwrap_or(s.len());
    let ns: i128 = s[c..d].trim().parse().ok()?;
    Some(sec * 1_000_000_000 + ns)
}

/// A waker that counts how often it was woken.
pub struct CountWaker(pub AtomicUsize);

impl Wake for CountWaker {
    fn wake(self: Arc<Self>) {
        self.0.fetch_add(1, Ordering::SeqCst);
    }
    fn wake_by_ref(self: &Arc<Self>) {
        self.0.fetch_add(1, Ordering::SeqCst);
    }
}

impl CountWaker {
    pub fn new() -> (Arc<CountWaker>, Waker) {
        let c = Arc::new(CountWaker(AtomicUsize::new(0)));
        (c.clone(), Waker::from(c))
    }
    pub fn count(&self) -> usize {
        self.0.load(Ordering::SeqCst)
    }
}
