//! h-cc: harnesses that need qbase + qcongestion only.
mod c13;
mod util;

fn main() {
    let args = mc_core::Args::parse();
    let code = match args.property.as_str() {
        "C13" => c13::run(&args),
        other => {
            eprintln!("h-cc: unknown property {other}");
            2
        }
    };
    std::process::exit(code);
}
