//! C13 — loss detection and congestion control follow RFC 9002, on the real
//! `qcongestion::ArcCC` driven through its public `Transport` trait.
//!
//! E1 bounded search (level-synchronous BFS, canonical-state dedup, deviation budget) under a
//! paused tokio clock. The oracle is the property statement judged against the harness's own
//! ledger of sends / acknowledgements / times plus a small RFC 9002 §5.3 reference RTT
//! estimator that is fed the same samples.
//!
//! Oracle violations are *soft*: the ledger is kept consistent and the exploration continues
//! behind them (otherwise the two behaviours that fire in almost every history on the
//! unchanged tree would prune the search to nothing). They are collected in a [`Sink`] and
//! merged into the explorer's violation table at the end. Panics are hard (the explorer turns
//! them into `panic/<class>`).
//!
//! Clauses (iv)–(ix) (window invariants) need private state; they are compiled only with the
//! cargo feature `snapshot`, which requires `hook_proposal.diff` to be applied to /repo.
use std::{
    cell::RefCell,
    collections::{BTreeMap, BTreeSet},
    sync::{
        Arc, Mutex,
        atomic::{AtomicU16, AtomicU64, Ordering},
    },
    time::Duration,
};

use mc_core::{Args, ExploreCfg, Fail, Report, System, explore};
use qbase::{
    Epoch,
    frame::{AckFrame, EcnCounts},
    net::tx::ArcSendWaker,
    varint::VarInt,
};
use qcongestion::{Algorithm, ArcCC, Feedback, HandshakeStatus, PathStatus, Transport};
use qevent::quic::recovery::PacketLostTrigger;
use serde::{Deserialize, Serialize};
use serde_json::{Value, json};
use tokio::time::Instant;

use crate::util::Clock;

const MDS: u64 = 1200;
const MAX_ACK_DELAY: Duration = Duration::from_millis(25);
const MS: u64 = 1_000_000; // ns
/// kGranularity (RFC 9002 §6.1.2), the implementation's `GRANULARITY`
const GRAN_NS: u64 = MS;
const EPOCHS: [Epoch; 3] = [Epoch::Initial, Epoch::Handshake, Epoch::Data];
const EPOCH_NAMES: [&str; 3] = ["initial", "handshake", "data"];

// ---------------------------------------------------------------------------------------
// configuration and alphabet
// ---------------------------------------------------------------------------------------

#[derive(Debug, Clone, Copy, PartialEq, Eq, Serialize, Deserialize)]
pub enum Role {
    Client,
    Server,
}

#[derive(Debug, Clone, Copy, PartialEq, Eq, Serialize, Deserialize)]
pub enum Phase {
    /// only Initial keys: only the Initial space can be used
    NoKeys,
    /// handshake keys installed: Initial, Handshake and (0-RTT / 0.5-RTT) Data packets
    HsKeys,
    /// handshake confirmed: Initial and Handshake spaces discarded
    Confirmed,
}

#[derive(Debug, Clone, Copy, Serialize, Deserialize)]
pub struct Cfg {
    pub role: Role,
    pub phase: Phase,
    pub max_outstanding: usize,
}

impl Cfg {
    fn name(&self) -> String {
        format!(
            "{}-{}",
            match self.role {
                Role::Client => "client",
                Role::Server => "server",
            },
            match self.phase {
                Phase::NoKeys => "nokeys",
                Phase::HsKeys => "hskeys",
                Phase::Confirmed => "confirmed",
            }
        )
    }
}

#[derive(Debug, Clone, Copy, PartialEq, Eq, Serialize, Deserialize)]
pub enum Shape {
    /// the largest sent packet only
    Newest,
    /// everything from the oldest unacknowledged packet up to the largest sent
    All,
    /// as `All` without the oldest unacknowledged packet
    AllButOldest,
    /// the largest sent packet, then `k` packets missing, then everything older
    Gap(u8),
    /// the range containing the largest acknowledged packet, grown downwards by one packet
    /// (an older ACK frame overtaken by a newer one — reordering)
    GrowDown,
}

#[derive(Debug, Clone, Copy, PartialEq, Eq, Serialize, Deserialize)]
pub enum Dt {
    /// 1 ms
    Ms1,
    /// the current loss delay 9/8·max(smoothed_rtt, latest_rtt) of the reference estimator
    LossDelay,
    /// the current PTO as reported by `Transport::get_pto`
    Pto,
}

/// What the ECN section of an ACK frame says.
#[derive(Debug, Clone, Copy, PartialEq, Eq, Serialize, Deserialize)]
pub enum EcnMode {
    Absent,
    /// counts present, ECN-CE total unchanged
    Same,
    /// counts present, ECN-CE total one larger than the last one reported
    Plus1,
}

#[derive(Debug, Clone, PartialEq, Serialize, Deserialize)]
pub enum Op {
    Send { epoch: u8, size: u32, ack_eliciting: bool, in_flight: bool },
    Ack { epoch: u8, shape: Shape, delay_ms: u32, ce: bool },
    Advance { dt: Dt },
    Tick,
    /// HsKeys only: the handshake is confirmed (Initial + Handshake spaces discarded)
    Confirm,
}

// ---------------------------------------------------------------------------------------
// soft-violation sink and vacuity counters
// ---------------------------------------------------------------------------------------

#[derive(Default)]
pub struct Sink {
    /// signature → (detail, history, hits); the kept witness is the least (length, text) one
    map: Mutex<BTreeMap<String, (String, Value, u64)>>,
    /// text of the kept witness (tie-break among witnesses of equal length)
    text: Mutex<BTreeMap<String, ((bool, usize, u32), String)>>,
    pub counters: Counters,
}

#[derive(Default)]
pub struct Counters {
    loss_reports: AtomicU64,
    loss_ok_packet_threshold: AtomicU64,
    loss_ok_time_threshold: AtomicU64,
    newly_acked: AtomicU64,
    rtt_samples: AtomicU64,
    probe_requests: AtomicU64,
    discards_with_outstanding: AtomicU64,
    cwnd_reductions: AtomicU64,
    cwnd_growths: AtomicU64,
    window_full_states: AtomicU64,
    rtt_divergent_states: AtomicU64,
    finish_runs: AtomicU64,
    finish_probe_sequences: AtomicU64,
    finish_abandoned: AtomicU64,
    finish_resolved_by_loss: AtomicU64,
    finish_resolved_by_probe: AtomicU64,
}

impl Counters {
    fn json(&self) -> Value {
        let g = |a: &AtomicU64| a.load(Ordering::Relaxed);
        json!({
            "loss_reports_judged": g(&self.loss_reports),
            "loss_reports_justified_by_packet_threshold": g(&self.loss_ok_packet_threshold),
            "loss_reports_justified_by_time_threshold": g(&self.loss_ok_time_threshold),
            "newly_acked_packets": g(&self.newly_acked),
            "rtt_samples": g(&self.rtt_samples),
            "probe_requests": g(&self.probe_requests),
            "discards_with_outstanding_packets": g(&self.discards_with_outstanding),
            "cwnd_reductions_seen(snapshot)": g(&self.cwnd_reductions),
            "cwnd_growths_seen(snapshot)": g(&self.cwnd_growths),
            "states_with_window_full(snapshot)": g(&self.window_full_states),
            "transitions_where_get_pto_differs_from_rfc_reference(not judged)": g(&self.rtt_divergent_states),
            "liveness_runs": g(&self.finish_runs),
            "liveness_runs_with_two_or_more_consecutive_probes": g(&self.finish_probe_sequences),
            "liveness_runs_ending_in_TooManyPtos": g(&self.finish_abandoned),
            "liveness_packets_resolved_by_loss": g(&self.finish_resolved_by_loss),
            "liveness_packets_resolved_by_probe": g(&self.finish_resolved_by_probe),
        })
    }
}

impl Sink {
    /// `rank` orders witnesses of one signature: (found by the liveness run although it is not
    /// a liveness clause, length, deviations); ties are broken by the text of the history.
    fn push(&self, sig: &str, detail: &str, hist: Value, rank: (bool, usize, u32)) {
        let mut m = self.map.lock().unwrap();
        let mut text = self.text.lock().unwrap();
        match m.get_mut(sig) {
            None => {
                text.insert(sig.to_string(), (rank, hist.to_string()));
                m.insert(sig.to_string(), (detail.to_string(), hist, 1));
            }
            Some(e) => {
                e.2 += 1;
                let best = &text[sig];
                if rank > best.0 {
                    return;
                }
                let t = hist.to_string();
                if rank < best.0 || t < best.1 {
                    e.0 = detail.to_string();
                    e.1 = hist;
                    text.insert(sig.to_string(), (rank, t));
                }
            }
        }
    }
}

/// Per-step pending effects: flushed into the sink exactly once per *new* transition (the
/// explorer calls `outcome()` once per new transition and never during a rebuild).
#[derive(Default)]
struct Pending {
    violations: Vec<(String, String)>,
    loss_reports: u64,
    ok_pkt: u64,
    ok_time: u64,
    newly_acked: u64,
    rtt_samples: u64,
    probes: u64,
    discards: u64,
    reductions: u64,
    growths: u64,
    window_full: u64,
    rtt_div: u64,
}

// ---------------------------------------------------------------------------------------
// ledger and reference estimator
// ---------------------------------------------------------------------------------------

#[derive(Debug, Clone, Copy, PartialEq, Eq)]
enum St {
    Out,
    Acked,
    Lost,
    Discarded,
}

#[derive(Debug, Clone)]
struct Pkt {
    size: u64,
    ae: bool,
    inflight: bool,
    /// send time, ns since the harness epoch
    sent: u64,
    st: St,
    /// the packet was reported lost at some point (even if acknowledged afterwards)
    was_lost: bool,
}

#[derive(Debug, Clone, Default)]
struct Space {
    pkts: BTreeMap<u64, Pkt>,
    next_pn: u64,
    largest_acked: Option<u64>,
    discarded: bool,
    ce: u64,
    /// largest ECN-CE total carried by a frame that newly acknowledged a never-lost packet
    ce_must: u64,
}

impl Space {
    fn unacked(&self) -> impl Iterator<Item = (&u64, &Pkt)> {
        self.pkts.iter().filter(|(_, p)| matches!(p.st, St::Out | St::Lost))
    }
    fn outstanding(&self) -> usize {
        self.pkts.values().filter(|p| p.st == St::Out).count()
    }
}

/// RFC 9002 §5.3, integer nanoseconds.
#[derive(Debug, Clone, Default)]
struct RefRtt {
    has: bool,
    latest: u64,
    srtt: u64,
    rttvar: u64,
    min: u64,
}

impl RefRtt {
    fn sample(&mut self, latest: u64, ack_delay: u64, confirmed: bool) {
        self.latest = latest;
        if !self.has {
            self.has = true;
            self.min = latest;
            self.srtt = latest;
            self.rttvar = latest / 2;
            return;
        }
        self.min = self.min.min(latest);
        let d = if confirmed { ack_delay.min(MAX_ACK_DELAY.as_nanos() as u64) } else { ack_delay };
        let adj = if latest >= self.min + d { latest - d } else { latest };
        self.rttvar = (3 * self.rttvar + self.srtt.abs_diff(adj)) / 4;
        self.srtt = (7 * self.srtt + adj) / 8;
    }
    fn srtt_or(&self, initial: u64) -> u64 {
        if self.has { self.srtt } else { initial }
    }
    /// kTimeThreshold · max(smoothed_rtt, latest_rtt), at least kGranularity
    fn loss_delay(&self, initial: u64) -> u64 {
        (9 * self.srtt_or(initial).max(self.latest) / 8).max(GRAN_NS)
    }
    /// smoothed_rtt + max(4·rttvar, kGranularity) (without backoff and max_ack_delay)
    fn pto_base(&self, initial: u64) -> u64 {
        let (s, v) = if self.has { (self.srtt, self.rttvar) } else { (initial, initial / 2) };
        s + (4 * v).max(GRAN_NS)
    }
}

struct LossEvt {
    epoch: usize,
    trigger: PacketLostTrigger,
    pns: Vec<u64>,
    at: Instant,
}

struct Rec {
    epoch: usize,
    log: Arc<Mutex<Vec<LossEvt>>>,
}

impl Feedback for Rec {
    fn may_loss(&self, trigger: PacketLostTrigger, pns: &mut dyn Iterator<Item = u64>) {
        self.log.lock().unwrap().push(LossEvt {
            epoch: self.epoch,
            trigger,
            pns: pns.collect(),
            at: Instant::now(),
        });
    }
}

#[derive(Debug, Clone, Copy, PartialEq, Eq)]
enum Ctx {
    Send,
    Ack,
    Tick,
    Discard,
}

impl Ctx {
    fn s(self) -> &'static str {
        match self {
            Ctx::Send => "on-send",
            Ctx::Ack => "on-ack",
            Ctx::Tick => "on-tick",
            Ctx::Discard => "on-discard",
        }
    }
}

/// What the ledger knows about the call that has just returned (for the window clauses).
#[derive(Default)]
struct CallInfo {
    /// (sent time, in_flight) of the packets newly acknowledged by this call
    newly_acked: Vec<(u64, bool)>,
    /// send time of the largest newly acknowledged packet, if the CE counter went up
    ce_sent: Option<u64>,
}

// ---------------------------------------------------------------------------------------
// the system under exploration
// ---------------------------------------------------------------------------------------

pub struct CcSys {
    cfg: Cfg,
    clock: Clock,
    cc: ArcCC,
    hs: Arc<HandshakeStatus>,
    status: PathStatus,
    _tx_waker: ArcSendWaker,
    log: Arc<Mutex<Vec<LossEvt>>>,
    // ledger
    spaces: [Space; 3],
    confirmed: bool,
    hs_keys: bool,
    ref_a: RefRtt,
    /// as `ref_a`, but also sampling acknowledgements of packets that had been declared lost
    ref_b: RefRtt,
    initial_rtt: u64,
    need_prev: [usize; 3],
    /// (time ns, epoch) of every probe request seen
    probes: Vec<(u64, usize)>,
    abandoned: bool,
    last_tick: bool,
    consec_adv: u8,
    advances: u8,
    // window clauses
    recovery_start: Option<u64>,
    #[cfg(feature = "snapshot")]
    snap: qcongestion::VerifSnapshot,
    #[cfg(feature = "snapshot")]
    inflight_skew: i64,
    // bookkeeping
    hist: Vec<Op>,
    hist_cost: u32,
    in_finish: bool,
    pending: RefCell<Pending>,
    sink: Arc<Sink>,
    /// replay mode: `step`/`finish` return Err on this signature ("" = on any)
    strict: Option<String>,
    strict_hit: Option<Fail>,
}

fn vi(v: u64) -> VarInt {
    VarInt::from_u64(v).unwrap()
}

/// AckFrame for an arbitrary non-empty set of packet numbers.
fn ack_frame_for(set: &BTreeSet<u64>, delay_us: u64, ecn: Option<EcnCounts>) -> AckFrame {
    let mut ranges: Vec<(u64, u64)> = Vec::new(); // (lo, hi) descending
    for &p in set.iter().rev() {
        match ranges.last_mut() {
            Some((lo, _)) if *lo == p + 1 => *lo = p,
            _ => ranges.push((p, p)),
        }
    }
    let (lo0, hi0) = ranges[0];
    let mut rest = Vec::new();
    let mut prev_lo = lo0;
    for &(lo, hi) in &ranges[1..] {
        rest.push((vi(prev_lo - hi - 2), vi(hi - lo)));
        prev_lo = lo;
    }
    AckFrame::new(vi(hi0), vi(delay_us), vi(hi0 - lo0), rest, ecn)
}

impl CcSys {
    pub fn new(cfg: Cfg, sink: Arc<Sink>, strict: Option<String>) -> CcSys {
        let clock = Clock::new();
        let hs = Arc::new(HandshakeStatus::new(cfg.role == Role::Server));
        let pmtu = Arc::new(AtomicU16::new(MDS as u16));
        let status = PathStatus::new(hs.clone(), pmtu);
        let tx_waker = ArcSendWaker::new();
        let log = Arc::new(Mutex::new(Vec::new()));
        let trackers: [Arc<dyn Feedback>; 3] = [
            Arc::new(Rec { epoch: 0, log: log.clone() }),
            Arc::new(Rec { epoch: 1, log: log.clone() }),
            Arc::new(Rec { epoch: 2, log: log.clone() }),
        ];
        let cc = clock.enter(|| {
            ArcCC::new(Algorithm::NewReno, MAX_ACK_DELAY, trackers, status.clone(), tx_waker.clone())
        });
        // a server path exists because a datagram arrived on it: `Path::on_packet_rcvd` has
        // released the anti-amplification flag before the server sends anything. A client's
        // flag stays set until the first packet arrives (mirrors qconnection::path); a client
        // that has handshake keys has received the server's first flight.
        if !(cfg.role == Role::Client && cfg.phase == Phase::NoKeys) {
            status.release_anti_amplification_limit();
        }
        // initial RTT: the only public observable is the initial PTO = rtt + 4·rtt/2
        let initial_rtt = clock.enter(|| cc.get_pto(Epoch::Initial)).as_nanos() as u64 / 3;
        #[cfg(feature = "snapshot")]
        let snap = cc.verif_snapshot();
        let mut s = CcSys {
            cfg,
            clock,
            cc,
            hs,
            status,
            _tx_waker: tx_waker,
            log,
            spaces: Default::default(),
            confirmed: false,
            hs_keys: false,
            ref_a: RefRtt::default(),
            ref_b: RefRtt::default(),
            initial_rtt,
            need_prev: [0; 3],
            probes: Vec::new(),
            abandoned: false,
            last_tick: false,
            consec_adv: 0,
            advances: 0,
            recovery_start: None,
            #[cfg(feature = "snapshot")]
            snap,
            #[cfg(feature = "snapshot")]
            inflight_skew: 0,
            hist: Vec::new(),
            hist_cost: 0,
            in_finish: false,
            pending: RefCell::new(Pending::default()),
            sink,
            strict,
            strict_hit: None,
        };
        match cfg.phase {
            Phase::NoKeys => {}
            Phase::HsKeys => {
                s.hs.got_handshake_key();
                s.hs_keys = true;
            }
            Phase::Confirmed => {
                s.hs.got_handshake_key();
                s.hs_keys = true;
                s.hs.received_handshake_ack();
                s.apply_confirm();
                s.pending.replace(Pending::default());
            }
        }
        s
    }

    fn now_ns(&self) -> u64 {
        self.clock.elapsed().as_nanos() as u64
    }

    fn ns_of(&self, t: Instant) -> u64 {
        (t - self.clock.epoch).as_nanos() as u64
    }

    fn soft(&self, sig: String, detail: String) {
        let mut p = self.pending.borrow_mut();
        if self.in_finish && p.violations.iter().any(|v| v.0 == sig) {
            return; // one witness per signature and liveness run
        }
        p.violations.push((sig, detail));
    }

    fn usable_epochs(&self) -> Vec<usize> {
        let v: &[usize] = if self.confirmed {
            &[2]
        } else if self.hs_keys {
            &[0, 1, 2]
        } else {
            &[0]
        };
        v.iter().copied().filter(|&e| !self.spaces[e].discarded).collect()
    }

    /// The epochs whose outstanding ack-eliciting packets RFC 9002 promises to time out:
    /// not discarded, and Application Data only once the handshake is confirmed (§6.2.1).
    fn judged_for_liveness(&self, e: usize) -> bool {
        !self.spaces[e].discarded && (e != 2 || self.confirmed)
    }

    fn default_epoch(&self) -> usize {
        if self.confirmed {
            2
        } else if self.hs_keys {
            1
        } else {
            0
        }
    }

    /// The PTO to advance by: the largest `get_pto` over the epochs with an outstanding
    /// ack-eliciting packet (the default epoch if there is none).
    fn current_pto(&self) -> Duration {
        let mut es: Vec<usize> = (0..3)
            .filter(|&e| {
                !self.spaces[e].discarded
                    && self.spaces[e].pkts.values().any(|p| p.st == St::Out && p.ae)
            })
            .collect();
        if es.is_empty() {
            es.push(self.default_epoch());
        }
        self.clock
            .enter(|| es.iter().map(|&e| self.cc.get_pto(EPOCHS[e])).max())
            .unwrap()
    }

    fn ack_set(&self, e: usize, shape: Shape) -> Option<BTreeSet<u64>> {
        let sp = &self.spaces[e];
        if sp.next_pn == 0 {
            return None;
        }
        let largest = sp.next_pn - 1;
        let min_unacked = *sp.unacked().next()?.0;
        let unacked = |p: u64| sp.pkts.get(&p).is_some_and(|k| matches!(k.st, St::Out | St::Lost));
        let set: BTreeSet<u64> = match shape {
            Shape::Newest => {
                if !unacked(largest) {
                    return None;
                }
                [largest].into()
            }
            Shape::All => (min_unacked..=largest).collect(),
            Shape::AllButOldest => (min_unacked + 1..=largest).collect(),
            Shape::Gap(k) => {
                let k = k as u64;
                if !unacked(largest) || largest < k {
                    return None;
                }
                if !(largest - k..largest).any(unacked) {
                    return None;
                }
                let mut s: BTreeSet<u64> = (min_unacked..largest - k).collect();
                s.insert(largest);
                s
            }
            Shape::GrowDown => {
                let la = sp.largest_acked?;
                let mut lo = la;
                while lo > 0 && sp.pkts.get(&(lo - 1)).is_some_and(|p| p.st == St::Acked) {
                    lo -= 1;
                }
                if lo == 0 || !unacked(lo - 1) {
                    return None;
                }
                (lo - 1..=la).collect()
            }
        };
        if set.is_empty() || !set.iter().any(|&p| unacked(p)) {
            return None;
        }
        Some(set)
    }

    // ---- operations on the real object (each followed by `observe`) -----------------------

    fn discard_ledger(&mut self, e: usize) {
        let sp = &mut self.spaces[e];
        if sp.discarded {
            return;
        }
        sp.discarded = true;
        let mut any = false;
        for p in sp.pkts.values_mut() {
            if p.st == St::Out {
                p.st = St::Discarded;
                any = true;
            } else if p.st == St::Lost {
                p.st = St::Discarded;
            }
        }
        if any {
            self.pending.borrow_mut().discards += 1;
        }
    }

    fn apply_send(&mut self, e: usize, size: u64, ae: bool, inflight: bool) {
        let pn = self.spaces[e].next_pn;
        self.spaces[e].next_pn += 1;
        let now = self.now_ns();
        self.clock.enter(|| {
            self.cc.on_pkt_sent(EPOCHS[e], pn, ae, size as usize, inflight, if ae { None } else { Some(0) })
        });
        self.spaces[e]
            .pkts
            .insert(pn, Pkt { size, ae, inflight, sent: now, st: St::Out, was_lost: false });
        // RFC 9001 §4.9.1 (and ArcCC::on_pkt_sent): a client drops the Initial space when it
        // first sends a Handshake packet
        if e == 1 && self.cfg.role == Role::Client {
            self.discard_ledger(0);
        }
        self.observe(Ctx::Send, CallInfo::default());
    }

    fn apply_ack(&mut self, e: usize, set: &BTreeSet<u64>, delay_ms: u32, ce: bool) {
        self.apply_ack_ecn(e, set, delay_ms, if ce { EcnMode::Plus1 } else { EcnMode::Absent })
    }

    fn apply_ack_ecn(&mut self, e: usize, set: &BTreeSet<u64>, delay_ms: u32, mode: EcnMode) {
        let now = self.now_ns();
        let ecn = match mode {
            EcnMode::Absent => None,
            // the counts are cumulative: a frame may carry them without any new mark
            EcnMode::Same => Some(EcnCounts::new(vi(0), vi(0), vi(self.spaces[e].ce))),
            EcnMode::Plus1 => {
                self.spaces[e].ce += 1;
                Some(EcnCounts::new(vi(0), vi(0), vi(self.spaces[e].ce)))
            }
        };
        // The frame "carries a larger ECN-CE count" when its count exceeds the largest one the
        // sender was obliged to take note of: RFC 9002 A.7 processes the ECN section of a frame
        // only if it newly acknowledges a packet still tracked, and packets declared lost may
        // have been forgotten (OnPacketsLost removes them) — a frame that newly acknowledges
        // nothing but such packets may or may not have been looked at.
        let carried = ecn.as_ref().map(|_| self.spaces[e].ce);
        let ce = carried.is_some_and(|c| c > self.spaces[e].ce_must);
        let frame = ack_frame_for(set, delay_ms as u64 * 1000, ecn);
        // the call sequence of qconnection::space::*: frames are dispatched first, then
        // `Path::on_packet_rcvd` releases the anti-amplification flag
        self.clock.enter(|| self.cc.on_ack_rcvd(EPOCHS[e], &frame));
        if e == 1 {
            self.hs.received_handshake_ack();
        }
        self.status.release_anti_amplification_limit();

        // ledger
        let largest = *set.iter().next_back().unwrap();
        let mut info = CallInfo::default();
        let mut largest_newly: Option<(u64, u64, bool)> = None; // (pn, sent, was Out)
        let mut any_ae_out = false;
        let mut any_ae = false;
        let mut any_out = false;
        {
            let sp = &mut self.spaces[e];
            sp.largest_acked = Some(sp.largest_acked.map_or(largest, |l| l.max(largest)));
            for &pn in set {
                if let Some(p) = sp.pkts.get_mut(&pn) {
                    if matches!(p.st, St::Out | St::Lost) {
                        let was_out = p.st == St::Out;
                        info.newly_acked.push((p.sent, p.inflight));
                        any_ae |= p.ae;
                        any_ae_out |= p.ae && was_out;
                        any_out |= was_out;
                        p.st = St::Acked;
                        if largest_newly.is_none_or(|(l, _, _)| pn > l) {
                            largest_newly = Some((pn, p.sent, was_out));
                        }
                    }
                }
            }
        }
        if let (Some(c), true) = (carried, any_out) {
            let sp = &mut self.spaces[e];
            sp.ce_must = sp.ce_must.max(c);
        }
        self.pending.borrow_mut().newly_acked += info.newly_acked.len() as u64;
        if let Some((pn, sent, was_out)) = largest_newly {
            if pn == largest {
                let d = delay_ms as u64 * MS;
                if any_ae {
                    self.ref_b.sample(now - sent, d, self.confirmed);
                    self.pending.borrow_mut().rtt_samples += 1;
                }
                if was_out && any_ae_out {
                    self.ref_a.sample(now - sent, d, self.confirmed);
                }
            }
        }
        // RFC 9002 A.7 / B.7: ECN counts are processed whenever the frame newly acknowledges
        // something; the congestion event is dated by the send time of the frame's largest
        if ce && !info.newly_acked.is_empty() {
            info.ce_sent = self.spaces[e].pkts.get(&largest).map(|p| p.sent);
        }
        // ArcCC::on_ack_rcvd: a server drops the Initial space when a Handshake ACK arrives
        if e == 1 && self.cfg.role == Role::Server {
            self.discard_ledger(0);
        }
        self.observe(Ctx::Ack, info);
    }

    fn apply_tick(&mut self) {
        let r = self.clock.enter(|| self.cc.do_tick());
        if r.is_err() {
            self.abandoned = true;
        }
        self.observe(Ctx::Tick, CallInfo::default());
    }

    fn apply_confirm(&mut self) {
        // qconnection::handshake: inform_cc.handshake_confirmed(), then
        // Paths::discard_initial_and_handshake_space
        self.hs.handshake_confirmed();
        self.confirmed = true;
        self.clock.enter(|| {
            self.cc.discard_epoch(Epoch::Initial);
            self.cc.discard_epoch(Epoch::Handshake);
        });
        self.discard_ledger(0);
        self.discard_ledger(1);
        self.observe(Ctx::Discard, CallInfo::default());
    }

    // ---- the oracle ------------------------------------------------------------------------

    /// Runs after every call into the controller.
    fn observe(&mut self, ctx: Ctx, info: CallInfo) {
        let now = self.now_ns();
        // (i), (ii): loss reports
        let events: Vec<LossEvt> = std::mem::take(&mut *self.log.lock().unwrap());
        // send times of in-flight packets newly declared lost by this call
        let mut lost_inflight: Vec<(u64, bool)> = Vec::new();
        for ev in events {
            let e = ev.epoch;
            let at = self.ns_of(ev.at);
            for pn in ev.pns {
                self.pending.borrow_mut().loss_reports += 1;
                let la = self.spaces[e].largest_acked;
                let Some(p) = self.spaces[e].pkts.get(&pn).cloned() else {
                    self.soft(
                        "loss/never-sent-packet".into(),
                        format!("{} packet {pn} reported lost but never sent", EPOCH_NAMES[e]),
                    );
                    continue;
                };
                if p.st == St::Discarded {
                    // the space is gone; the statement says nothing about reports for it
                    continue;
                }
                if p.st == St::Acked {
                    self.soft(
                        format!("acked-then-lost/{}", ctx.s()),
                        format!(
                            "{} packet {pn} (sent at {} ns) had been acknowledged and was reported lost at {} ns (trigger {:?}); largest acknowledged {:?}",
                            EPOCH_NAMES[e], p.sent, at, ev.trigger, la
                        ),
                    );
                    continue;
                }
                let age = at - p.sent;
                let thr = self.ref_a.loss_delay(self.initial_rtt).min(self.ref_b.loss_delay(self.initial_rtt));
                match la {
                    Some(la) if la > pn => {
                        if la >= pn + 3 {
                            self.pending.borrow_mut().ok_pkt += 1;
                        } else if age + GRAN_NS >= thr {
                            self.pending.borrow_mut().ok_time += 1;
                        } else {
                            self.soft(
                                format!("loss/below-both-thresholds/{}", ctx.s()),
                                format!(
                                    "{} packet {pn} reported lost at {at} ns (trigger {:?}): largest acknowledged is {la} (< {pn}+3) and the packet is only {age} ns old, time threshold 9/8·max(srtt, latest_rtt) of the reference estimator is {thr} ns (srtt {} ns, latest {} ns)",
                                    EPOCH_NAMES[e], ev.trigger, self.ref_a.srtt_or(self.initial_rtt), self.ref_a.latest
                                ),
                            );
                        }
                    }
                    _ => {
                        self.soft(
                            format!("loss/no-later-packet-acked/{}", ctx.s()),
                            format!(
                                "{} packet {pn} (sent at {} ns) reported lost at {at} ns (trigger {:?}) although no packet with a larger number has been acknowledged (largest acknowledged: {la:?})",
                                EPOCH_NAMES[e], p.sent, ev.trigger
                            ),
                        );
                    }
                }
                let pk = self.spaces[e].pkts.get_mut(&pn).unwrap();
                if pk.st == St::Out {
                    pk.st = St::Lost;
                    pk.was_lost = true;
                    if pk.inflight {
                        lost_inflight.push((pk.sent, pk.ae));
                    }
                }
            }
        }
        // probe requests
        for e in 0..3 {
            let n = self.clock.enter(|| self.cc.need_send_ack_eliciting(EPOCHS[e]));
            if n > self.need_prev[e] {
                self.probes.push((now, e));
                self.pending.borrow_mut().probes += 1;
            }
            self.need_prev[e] = n;
        }
        // not judged, only counted: does the implementation's PTO equal the reference's?
        if !self.abandoned {
            let e = self.default_epoch();
            let real = self.clock.enter(|| self.cc.get_pto(EPOCHS[e])).as_nanos() as u64;
            if real.abs_diff(self.ref_pto(e, 0)) > 1000 && self.probes.is_empty() {
                self.pending.borrow_mut().rtt_div += 1;
            }
        }
        let quota = self.clock.enter(|| self.cc.send_quota());
        self.window_clauses(ctx, &info, &lost_inflight, quota.ok());
    }

    /// Reference PTO of an epoch with `backoff` doublings.
    fn ref_pto(&self, e: usize, backoff: u32) -> u64 {
        let mut d = self.ref_a.pto_base(self.initial_rtt);
        if e == 2 {
            d += MAX_ACK_DELAY.as_nanos() as u64;
        }
        d << backoff
    }

    fn ledger_inflight(&self) -> u64 {
        self.spaces
            .iter()
            .flat_map(|s| s.pkts.values())
            .filter(|p| p.inflight && p.st == St::Out)
            .map(|p| p.size)
            .sum()
    }

    #[cfg(not(feature = "snapshot"))]
    fn window_clauses(&mut self, _ctx: Ctx, _info: &CallInfo, _lost: &[(u64, bool)], _quota: Option<usize>) {}

    /// (iv)–(ix), judged on the private state exposed by the verification hook.
    #[cfg(feature = "snapshot")]
    fn window_clauses(&mut self, ctx: Ctx, info: &CallInfo, lost: &[(u64, bool)], quota: Option<usize>) {
        let now = self.now_ns();
        let snap = self.cc.verif_snapshot();
        let prev = std::mem::replace(&mut self.snap, snap.clone());
        let mds = snap.max_datagram_size;
        // (iv)
        if snap.cwnd < 2 * mds && snap.cwnd != prev.cwnd {
            self.soft(
                format!("cwnd/below-two-datagrams/{}", ctx.s()),
                format!("congestion window {} < 2·{mds} (was {})", snap.cwnd, prev.cwnd),
            );
        }
        // (vii)
        let ledger = self.ledger_inflight();
        // reported by the call that introduces (or changes) a discrepancy, not by every later one
        let skew = snap.bytes_in_flight as i64 - ledger as i64;
        let prev_skew = std::mem::replace(&mut self.inflight_skew, skew);
        if skew != 0 && skew != prev_skew {
            let dir = if snap.bytes_in_flight > ledger { "overcount" } else { "undercount" };
            self.soft(
                format!("inflight/{dir}/{}", ctx.s()),
                format!(
                    "bytes_in_flight = {} but the packets still outstanding (in flight, not acknowledged, not declared lost, not discarded) add up to {ledger}; before the call: {}",
                    snap.bytes_in_flight, prev.bytes_in_flight
                ),
            );
        }
        // (v)
        let had_trigger = !lost.is_empty() || info.ce_sent.is_some();
        let trigger_sent = lost.iter().map(|l| l.0).chain(info.ce_sent).max();
        // The implementation forgets its recovery start when its own persistent-loss rule (three
        // consecutive packets lost in one detection) fires; such witnesses get their own class.
        let cleared = self.recovery_start.is_some() && prev.recovery_start.is_none();
        let clears_now = prev.recovery_start.is_some() && snap.recovery_start.is_none();
        let suffix = if cleared {
            "/after-recovery-start-was-cleared"
        } else if clears_now {
            "/while-clearing-recovery-start"
        } else {
            ""
        };
        let grow_suffix = if cleared { "/after-recovery-start-was-cleared" } else { "" };
        if snap.cwnd < prev.cwnd {
            self.pending.borrow_mut().reductions += 1;
            if !had_trigger {
                self.soft(
                    format!("cwnd/shrank-without-loss-or-ecn/{}", ctx.s()),
                    format!("congestion window {} → {} in a call that neither declared an in-flight packet lost nor carried a larger ECN-CE count", prev.cwnd, snap.cwnd),
                );
            } else if let (Some(rs), Some(ts)) = (self.recovery_start, trigger_sent) {
                if ts <= rs && !self.rfc_persistent_congestion(lost) {
                    self.soft(
                        format!("cwnd/shrank-twice-in-one-recovery-period{suffix}"),
                        format!(
                            "congestion window {} → {} at {now} ns although the previous reduction was at {rs} ns and the newest lost / CE-marked packet of this call was sent at {ts} ns (not after it)",
                            prev.cwnd, snap.cwnd
                        ),
                    );
                }
            }
        }
        // (vi)
        if snap.cwnd > prev.cwnd {
            self.pending.borrow_mut().growths += 1;
            let acked_inflight: Vec<u64> = info.newly_acked.iter().filter(|a| a.1).map(|a| a.0).collect();
            if ctx != Ctx::Ack || acked_inflight.is_empty() {
                self.soft(
                    format!("cwnd/grew-without-ack/{}", ctx.s()),
                    format!("congestion window {} → {} in a call that newly acknowledged no in-flight packet", prev.cwnd, snap.cwnd),
                );
            } else if let Some(rs) = self.recovery_start {
                if !acked_inflight.iter().any(|&t| t > rs) {
                    self.soft(
                        format!("cwnd/grew-in-recovery{grow_suffix}"),
                        format!(
                            "congestion window {} → {} at {now} ns on acknowledgement of packets sent at {:?} ns, none after the recovery start {rs} ns",
                            prev.cwnd, snap.cwnd, acked_inflight
                        ),
                    );
                }
            }
        }
        // recovery bookkeeping: a reduction, or the implementation entering recovery now
        let entered = snap.recovery_start.is_some() && snap.recovery_start != prev.recovery_start;
        if had_trigger && (snap.cwnd < prev.cwnd || entered) {
            self.recovery_start = if self.rfc_persistent_congestion(lost) { None } else { Some(now) };
        }
        // (ix)
        if snap.bytes_in_flight >= snap.cwnd {
            self.pending.borrow_mut().window_full += 1;
            if let Some(q) = quota {
                if q > 0 {
                    self.soft(
                        "quota/granted-while-window-full".into(),
                        format!("send_quota() = Ok({q}) although bytes_in_flight {} ≥ congestion window {}", snap.bytes_in_flight, snap.cwnd),
                    );
                }
            }
        }
    }

    /// RFC 9002 §7.6: two ack-eliciting packets declared lost whose send times span more than
    /// 3·(PTO + max_ack_delay), after the first RTT sample, nothing between them acknowledged.
    #[cfg(feature = "snapshot")]
    fn rfc_persistent_congestion(&self, lost: &[(u64, bool)]) -> bool {
        if !self.ref_a.has {
            return false;
        }
        let ae: Vec<u64> = lost.iter().filter(|l| l.1).map(|l| l.0).collect();
        let (Some(&lo), Some(&hi)) = (ae.iter().min(), ae.iter().max()) else {
            return false;
        };
        let dur = 3 * (self.ref_a.pto_base(self.initial_rtt) + MAX_ACK_DELAY.as_nanos() as u64);
        if hi - lo < dur {
            return false;
        }
        !self
            .spaces
            .iter()
            .flat_map(|s| s.pkts.values())
            .any(|p| p.st == St::Acked && !p.was_lost && p.sent > lo && p.sent < hi)
    }

    fn flush(&self) {
        let mut hist = serde_json::to_value(&self.hist).unwrap_or(Value::Null);
        if self.in_finish {
            if let Value::Array(a) = &mut hist {
                a.push(json!("<finish>"));
            }
        }
        self.flush_with(hist, self.hist_cost);
    }

    fn flush_with(&self, hist: Value, cost: u32) {
        let p = self.pending.replace(Pending::default());
        let c = &self.sink.counters;
        c.loss_reports.fetch_add(p.loss_reports, Ordering::Relaxed);
        c.loss_ok_packet_threshold.fetch_add(p.ok_pkt, Ordering::Relaxed);
        c.loss_ok_time_threshold.fetch_add(p.ok_time, Ordering::Relaxed);
        c.newly_acked.fetch_add(p.newly_acked, Ordering::Relaxed);
        c.rtt_samples.fetch_add(p.rtt_samples, Ordering::Relaxed);
        c.probe_requests.fetch_add(p.probes, Ordering::Relaxed);
        c.discards_with_outstanding.fetch_add(p.discards, Ordering::Relaxed);
        c.cwnd_reductions.fetch_add(p.reductions, Ordering::Relaxed);
        c.cwnd_growths.fetch_add(p.growths, Ordering::Relaxed);
        c.window_full_states.fetch_add(p.window_full, Ordering::Relaxed);
        c.rtt_divergent_states.fetch_add(p.rtt_div, Ordering::Relaxed);
        let len = hist.as_array().map(|a| a.len()).unwrap_or(0);
        for (sig, detail) in p.violations {
            let by_finish = self.in_finish && !sig.starts_with("liveness/");
            self.sink.push(&sig, &detail, hist.clone(), (by_finish, len, cost));
        }
    }

    /// Replay mode: the first pending violation that matches the expected signature.
    fn strict_check(&mut self) -> Result<(), Fail> {
        let Some(want) = &self.strict else { return Ok(()) };
        #[cfg(feature = "snapshot")]
        println!("  [{} ns] after {:?}: {}", self.now_ns(), self.hist.last(), self.clock.canon(&format!("{:?}", self.snap)));
        let p = self.pending.replace(Pending::default());
        for (sig, detail) in p.violations {
            println!("  [{} ns] {sig} — {detail}", self.now_ns());
            if (want.is_empty() || *want == sig) && self.strict_hit.is_none() {
                self.strict_hit = Some(Fail::new(sig, detail));
            }
        }
        match &self.strict_hit {
            Some(f) => Err(f.clone()),
            None => Ok(()),
        }
    }
}

fn send_kinds() -> [(u32, bool, bool); 4] {
    // (size, ack_eliciting, in_flight); ack-eliciting ⇒ in flight (every ack-eliciting frame
    // type is congestion controlled, qbase::frame::FrameType::specs)
    [(1200, true, true), (60, true, true), (1200, false, true), (60, false, false)]
}

impl System for CcSys {
    type Op = Op;

    fn ops(&self) -> Vec<Op> {
        let mut v = Vec::new();
        if self.abandoned {
            return v;
        }
        let outstanding: usize = self.spaces.iter().map(|s| s.outstanding()).sum();
        let usable = self.usable_epochs();
        if outstanding < self.cfg.max_outstanding {
            for &(size, ack_eliciting, in_flight) in &send_kinds() {
                for &e in &usable {
                    v.push(Op::Send { epoch: e as u8, size, ack_eliciting, in_flight });
                }
            }
        }
        for &e in &usable {
            let mut seen: Vec<BTreeSet<u64>> = Vec::new();
            for shape in [
                Shape::Newest,
                Shape::All,
                Shape::AllButOldest,
                Shape::Gap(3),
                Shape::Gap(2),
                Shape::Gap(1),
                Shape::GrowDown,
            ] {
                let Some(set) = self.ack_set(e, shape) else { continue };
                if seen.contains(&set) {
                    continue;
                }
                seen.push(set);
                v.push(Op::Ack { epoch: e as u8, shape, delay_ms: 0, ce: false });
                if matches!(shape, Shape::Newest | Shape::All) {
                    v.push(Op::Ack { epoch: e as u8, shape, delay_ms: 0, ce: true });
                    v.push(Op::Ack { epoch: e as u8, shape, delay_ms: 10, ce: false });
                    v.push(Op::Ack { epoch: e as u8, shape, delay_ms: 40, ce: false });
                }
            }
        }
        let sent_any = self.spaces.iter().any(|s| s.next_pn > 0);
        if sent_any && self.consec_adv < 2 && self.advances < 4 {
            v.push(Op::Advance { dt: Dt::LossDelay });
            v.push(Op::Advance { dt: Dt::Pto });
            v.push(Op::Advance { dt: Dt::Ms1 });
        }
        if sent_any && !self.last_tick {
            v.push(Op::Tick);
        }
        if self.cfg.phase == Phase::HsKeys && !self.confirmed {
            v.push(Op::Confirm);
        }
        v
    }

    fn cost(&self, op: &Op) -> u32 {
        match op {
            Op::Send { size, ack_eliciting, .. } => (!(*size == 1200 && *ack_eliciting)) as u32,
            Op::Ack { shape, delay_ms, ce, .. } => {
                (!matches!(shape, Shape::Newest | Shape::All)) as u32 + (*delay_ms != 0) as u32 + *ce as u32
            }
            Op::Advance { dt } => (*dt == Dt::Ms1) as u32,
            Op::Tick => 0,
            Op::Confirm => 1,
        }
    }

    fn step(&mut self, op: &Op) -> Result<(), Fail> {
        if self.strict.is_none() {
            // effects of the previous step that was only a rebuild step are dropped
            self.pending.replace(Pending::default());
        }
        self.hist_cost += self.cost(op);
        self.hist.push(op.clone());
        let (mut tick, mut adv) = (false, 0u8);
        match *op {
            Op::Send { epoch, size, ack_eliciting, in_flight } => {
                self.apply_send(epoch as usize, size as u64, ack_eliciting, in_flight);
            }
            Op::Ack { epoch, shape, delay_ms, ce } => {
                let e = epoch as usize;
                match self.ack_set(e, shape) {
                    Some(set) => self.apply_ack(e, &set, delay_ms, ce),
                    None => {
                        return Err(Fail::new("machinery/ack-not-enabled", format!("{op:?} is not enabled here")));
                    }
                }
            }
            Op::Advance { dt } => {
                let d = match dt {
                    Dt::Ms1 => Duration::from_millis(1),
                    Dt::LossDelay => Duration::from_nanos(self.ref_a.loss_delay(self.initial_rtt)),
                    Dt::Pto => self.current_pto(),
                };
                self.clock.advance(d);
                adv = self.consec_adv + 1;
                self.advances += 1;
            }
            Op::Tick => {
                self.apply_tick();
                tick = true;
            }
            Op::Confirm => self.apply_confirm(),
        }
        self.last_tick = tick;
        self.consec_adv = adv;
        self.strict_check()
    }

    fn canon(&self) -> String {
        let obs = self.clock.enter(|| {
            format!(
                "{:?}{:?}{:?}",
                [self.cc.get_pto(Epoch::Initial), self.cc.get_pto(Epoch::Handshake), self.cc.get_pto(Epoch::Data)],
                self.cc.retransmit_and_expire_time(Epoch::Data),
                self.need_prev
            )
        });
        #[cfg(feature = "snapshot")]
        let snap = self.clock.canon(&format!("{:?}", self.snap));
        #[cfg(not(feature = "snapshot"))]
        let snap = "";
        format!(
            "{}|{:?}|{}{}{}|{:?}|{:?}|{}|{:?}|{}{}{}{}|{:?}|{}",
            self.now_ns(),
            self.spaces,
            self.confirmed as u8,
            self.hs_keys as u8,
            self.abandoned as u8,
            self.ref_a,
            self.ref_b,
            obs,
            self.probes,
            self.last_tick as u8,
            self.consec_adv,
            self.advances,
            self.spaces[1].largest_acked.is_some() as u8,
            self.recovery_start,
            snap
        )
    }

    /// (iii) liveness: time runs on with no further acknowledgement; the harness answers
    /// every probe request with one 60-byte ack-eliciting packet in the requested space.
    fn finish(&mut self) -> Result<(), Fail> {
        self.pending.replace(Pending::default());
        self.in_finish = true;
        self.sink.counters.finish_runs.fetch_add(1, Ordering::Relaxed);
        let targets: Vec<(usize, u64, u64)> = (0..3)
            .filter(|&e| self.judged_for_liveness(e))
            .flat_map(|e| {
                self.spaces[e]
                    .pkts
                    .iter()
                    .filter(|(_, p)| p.st == St::Out && p.ae && p.inflight)
                    .map(move |(&pn, p)| (e, pn, p.sent))
                    .collect::<Vec<_>>()
            })
            .collect();
        let probes_before = self.probes.len();
        // (probe time, epoch, get_pto(epoch) before the timeout / after it / after the probe
        // was sent, Initial space discarded by this probe)
        let mut fires: Vec<(u64, usize, u64, u64, u64, bool)> = Vec::new();
        let mut idle = 0u32;
        for _round in 0..24 {
            if self.abandoned {
                break;
            }
            let before: [u64; 3] =
                self.clock.enter(|| [0, 1, 2].map(|e| self.cc.get_pto(EPOCHS[e]).as_nanos() as u64));
            // "eventually": a quiet round is followed by ever longer waits (≥ 0.4 s, 0.8 s, …)
            // so that a timer armed with an older, longer period is not missed
            let mut d = self.current_pto();
            if idle > 0 {
                d = d.max(Duration::from_millis(200 << idle));
            }
            self.clock.advance(d);
            let seen = self.probes.len();
            let losses_before = self.pending.borrow().loss_reports;
            self.apply_tick();
            let new: Vec<(u64, usize)> = self.probes[seen..].to_vec();
            for &(t, e) in &new {
                let mid = self.clock.enter(|| self.cc.get_pto(EPOCHS[e])).as_nanos() as u64;
                let init_was = self.spaces[0].discarded;
                if !self.spaces[e].discarded && !self.abandoned {
                    self.apply_send(e, 60, true, true);
                }
                let after = self.clock.enter(|| self.cc.get_pto(EPOCHS[e])).as_nanos() as u64;
                fires.push((t, e, before[e], mid, after, self.spaces[0].discarded != init_was));
            }
            let quiet = new.is_empty() && self.pending.borrow().loss_reports == losses_before;
            idle = if quiet { idle + 1 } else { 0 };
            if idle >= 4 {
                break;
            }
        }
        // every target must be resolved
        for &(e, pn, sent) in &targets {
            let st = self.spaces[e].pkts[&pn].st;
            let probed = self.probes[probes_before..].iter().any(|&(t, pe)| pe == e && t >= sent);
            if st != St::Out {
                self.sink.counters.finish_resolved_by_loss.fetch_add(1, Ordering::Relaxed);
            } else if probed {
                self.sink.counters.finish_resolved_by_probe.fetch_add(1, Ordering::Relaxed);
            } else if !self.abandoned {
                self.soft(
                    format!("liveness/never-lost-nor-probed/{}", EPOCH_NAMES[e]),
                    format!(
                        "{} packet {pn} (ack-eliciting, in flight, sent at {sent} ns) is still outstanding at {} ns: no acknowledgement arrived, it was never declared lost and no probe was requested for its space (probe requests seen: {:?})",
                        EPOCH_NAMES[e], self.now_ns(), &self.probes[probes_before..]
                    ),
                );
            }
        }
        // the PTO period doubles with every consecutive timeout (RFC 9002 §6.2.1)
        if fires.len() >= 2 {
            self.sink.counters.finish_probe_sequences.fetch_add(1, Ordering::Relaxed);
        }
        if self.abandoned {
            self.sink.counters.finish_abandoned.fetch_add(1, Ordering::Relaxed);
        }
        let table = || fires.iter().map(|f| (f.0, EPOCH_NAMES[f.1], f.2, f.3, f.4)).collect::<Vec<_>>();
        for (i, &(t, e, before, mid, after, discarded_now)) in fires.iter().enumerate() {
            if mid + GRAN_NS < 2 * before {
                self.soft(
                    format!("liveness/pto-period-not-doubled/{}", EPOCH_NAMES[e]),
                    format!(
                        "timeout #{} at {t} ns in the {} space (no acknowledgement since the liveness run began): get_pto was {before} ns before the timeout and {mid} ns after it, less than twice; all timeouts (time, space, get_pto before / after the timeout / after the probe was sent): {:?}",
                        i + 1, EPOCH_NAMES[e], table()
                    ),
                );
            }
            // discarding a space legitimately resets the backoff (RFC 9002 A.11) — once
            if after + GRAN_NS < mid && !discarded_now {
                self.soft(
                    format!("liveness/pto-backoff-reset-without-ack/{}", EPOCH_NAMES[e]),
                    format!(
                        "timeout #{} at {t} ns in the {} space: get_pto was {mid} ns after the timeout and fell to {after} ns when the probe packet was sent, although no acknowledgement arrived and no space was discarded; all timeouts (time, space, get_pto before / after the timeout / after the probe was sent): {:?}",
                        i + 1, EPOCH_NAMES[e], table()
                    ),
                );
            }
        }
        if self.strict.is_some() {
            return self.strict_check();
        }
        self.flush();
        Ok(())
    }

    fn outcome(&self) -> Option<String> {
        self.flush();
        let c = |st: St| self.spaces.iter().flat_map(|s| s.pkts.values()).filter(|p| p.st == st).count();
        Some(format!(
            "o{}a{}l{}d{}p{}{}",
            c(St::Out),
            c(St::Acked),
            c(St::Lost),
            c(St::Discarded),
            self.probes.len().min(3),
            if self.abandoned { "X" } else { "" }
        ))
    }
}

// ---------------------------------------------------------------------------------------
// window-fill: a sender that obeys `send_quota` (the statement's last clause without hook)
// ---------------------------------------------------------------------------------------

#[derive(Debug, Clone, PartialEq, Serialize, Deserialize)]
pub enum FOp {
    /// what `qconnection::path::burst` does: read `send_quota()` once and, if it is Ok(q),
    /// send ⌊q / 1200⌋ full-size ack-eliciting packets
    Burst,
    /// virtual time passes, then one `do_tick`
    Wait { ms: u32 },
    /// the peer acknowledges the `n` oldest outstanding packets (0 = all)
    AckOldest { n: u32 },
}

pub struct FillSys {
    sys: CcSys,
    acked_bytes: u64,
    bursts: u32,
}

impl FillSys {
    pub fn new(role: Role, sink: Arc<Sink>, strict: Option<String>) -> FillSys {
        let cfg = Cfg { role, phase: Phase::Confirmed, max_outstanding: usize::MAX };
        FillSys { sys: CcSys::new(cfg, sink, strict), acked_bytes: 0, bursts: 0 }
    }

    /// An upper bound of the congestion window of any RFC 9002 NewReno sender: the initial
    /// window (§7.2: 10·max_datagram_size, at most max(14720, 2·max_datagram_size)) plus
    /// every acknowledged in-flight byte (slow start, §7.3.1). With the hook: the real cwnd.
    fn window(&self) -> u64 {
        #[cfg(feature = "snapshot")]
        return self.sys.snap.cwnd;
        #[cfg(not(feature = "snapshot"))]
        return (10 * MDS).min((2 * MDS).max(14720)) + self.acked_bytes;
    }
}

impl System for FillSys {
    type Op = FOp;

    fn ops(&self) -> Vec<FOp> {
        let mut v = vec![];
        if self.bursts < 4 {
            v.push(FOp::Burst);
        }
        if self.sys.spaces[2].next_pn > 0 {
            v.push(FOp::Wait { ms: 10 });
            v.push(FOp::Wait { ms: 50 });
        }
        if self.sys.spaces[2].outstanding() > 0 {
            v.push(FOp::AckOldest { n: 1 });
            v.push(FOp::AckOldest { n: 0 });
        }
        v
    }

    fn step(&mut self, op: &FOp) -> Result<(), Fail> {
        if self.sys.strict.is_none() {
            self.sys.pending.replace(Pending::default());
        }
        match *op {
            FOp::Burst => {
                self.bursts += 1;
                let q = self.sys.clock.enter(|| self.sys.cc.send_quota());
                if let Ok(q) = q {
                    let inflight = self.sys.ledger_inflight();
                    let window = self.window();
                    if inflight >= window && q > 0 {
                        self.sys.soft(
                            "quota/granted-while-window-full".into(),
                            format!(
                                "send_quota() = Ok({q}) although {inflight} bytes are in flight (outstanding, unacknowledged, not declared lost) and the congestion window is {}{window}",
                                if cfg!(feature = "snapshot") { "" } else { "at most " }
                            ),
                        );
                    }
                    for _ in 0..(q as u64 / MDS).min(64) {
                        self.sys.apply_send(2, MDS, true, true);
                    }
                }
            }
            FOp::Wait { ms } => {
                self.sys.clock.advance(Duration::from_millis(ms as u64));
                self.sys.apply_tick();
            }
            FOp::AckOldest { n } => {
                let out: Vec<u64> =
                    self.sys.spaces[2].pkts.iter().filter(|(_, p)| p.st == St::Out).map(|(&pn, _)| pn).collect();
                let take = if n == 0 { out.len() } else { (n as usize).min(out.len()) };
                let set: BTreeSet<u64> = out[..take].iter().copied().collect();
                if set.is_empty() {
                    return Err(Fail::new("machinery/ack-not-enabled", "nothing outstanding"));
                }
                self.acked_bytes += set.len() as u64 * MDS;
                self.sys.apply_ack(2, &set, 0, false);
            }
        }
        self.sys.strict_check()
    }

    fn canon(&self) -> String {
        format!("{}|{}|{}", self.sys.canon(), self.acked_bytes, self.bursts)
    }

    fn outcome(&self) -> Option<String> {
        // histories of FillSys are kept by the wrapper below
        None
    }
}

/// FillSys with its own history (the inner CcSys history type is `Op`, not `FOp`).
pub struct FillWrap {
    inner: FillSys,
    hist: Vec<FOp>,
}

impl System for FillWrap {
    type Op = FOp;
    fn ops(&self) -> Vec<FOp> {
        self.inner.ops()
    }
    fn step(&mut self, op: &FOp) -> Result<(), Fail> {
        self.hist.push(op.clone());
        self.inner.step(op)
    }
    fn canon(&self) -> String {
        self.inner.canon()
    }
    fn outcome(&self) -> Option<String> {
        self.inner.sys.flush_with(serde_json::to_value(&self.hist).unwrap_or(Value::Null), 0);
        let s = &self.inner.sys;
        Some(format!("inflight{}k", s.ledger_inflight() / 6000 * 6))
    }
}

// ---------------------------------------------------------------------------------------
// ecn: histories in which the peer reports ECN counts in (almost) every ACK frame. In the
// general search an ECN-CE mark is a deviation and a frame with unchanged counts does not
// occur; here both are ordinary answers, so that several marks per recovery period and the
// acknowledgements after it are within the depth bound.
// ---------------------------------------------------------------------------------------

#[derive(Debug, Clone, PartialEq, Serialize, Deserialize)]
pub enum EOp {
    Send,
    Ack { shape: Shape, ecn: EcnMode },
    /// 1 ms passes
    Wait,
}

pub struct EcnSys {
    sys: CcSys,
    hist: Vec<EOp>,
    waits: u32,
}

impl EcnSys {
    pub fn new(role: Role, sink: Arc<Sink>, strict: Option<String>) -> EcnSys {
        let cfg = Cfg { role, phase: Phase::Confirmed, max_outstanding: 3 };
        EcnSys { sys: CcSys::new(cfg, sink, strict), hist: vec![], waits: 0 }
    }
}

impl System for EcnSys {
    type Op = EOp;

    fn ops(&self) -> Vec<EOp> {
        let mut v = vec![];
        let sp = &self.sys.spaces[2];
        if sp.outstanding() < self.sys.cfg.max_outstanding {
            v.push(EOp::Send);
        }
        let mut seen: Vec<BTreeSet<u64>> = Vec::new();
        for shape in [Shape::Newest, Shape::All, Shape::GrowDown, Shape::AllButOldest] {
            let Some(set) = self.sys.ack_set(2, shape) else { continue };
            if seen.contains(&set) {
                continue;
            }
            seen.push(set);
            v.push(EOp::Ack { shape, ecn: EcnMode::Same });
            v.push(EOp::Ack { shape, ecn: EcnMode::Plus1 });
            if shape == Shape::Newest {
                v.push(EOp::Ack { shape, ecn: EcnMode::Absent });
            }
        }
        if sp.next_pn > 0 && self.waits < 3 && !matches!(self.hist.last(), Some(EOp::Wait)) {
            v.push(EOp::Wait);
        }
        v
    }

    fn step(&mut self, op: &EOp) -> Result<(), Fail> {
        if self.sys.strict.is_none() {
            self.sys.pending.replace(Pending::default());
        }
        self.hist.push(op.clone());
        match *op {
            EOp::Send => self.sys.apply_send(2, MDS, true, true),
            EOp::Ack { shape, ecn } => match self.sys.ack_set(2, shape) {
                Some(set) => self.sys.apply_ack_ecn(2, &set, 0, ecn),
                None => return Err(Fail::new("machinery/ack-not-enabled", format!("{op:?} is not enabled here"))),
            },
            EOp::Wait => {
                self.waits += 1;
                self.sys.clock.advance(Duration::from_millis(1));
                self.sys.apply_tick();
            }
        }
        self.sys.strict_check()
    }

    fn canon(&self) -> String {
        format!("{}|{}", self.sys.canon(), self.waits)
    }

    fn outcome(&self) -> Option<String> {
        self.sys.flush_with(serde_json::to_value(&self.hist).unwrap_or(Value::Null), 0);
        #[cfg(feature = "snapshot")]
        return Some(format!("cwnd{}", self.sys.snap.cwnd));
        #[cfg(not(feature = "snapshot"))]
        return Some(format!("ce{}", self.sys.spaces[2].ce));
    }
}

// ---------------------------------------------------------------------------------------
// driver
// ---------------------------------------------------------------------------------------

fn configs(max_outstanding: usize) -> Vec<Cfg> {
    let mut v = Vec::new();
    for phase in [Phase::Confirmed, Phase::HsKeys, Phase::NoKeys] {
        for role in [Role::Client, Role::Server] {
            v.push(Cfg { role, phase, max_outstanding });
        }
    }
    v
}

pub fn replay(args: &Args) -> i32 {
    let r = mc_core::report::load_replay(args.replay.as_ref().unwrap());
    let sub = r["sub"].as_str().unwrap_or("").to_string();
    let expect = r["expect"].as_str().unwrap_or("").to_string();
    let sink = Arc::new(Sink::default());
    println!("replaying {sub} (expecting signature {expect:?}); every oracle violation met on the way:");
    let res = if sub == "window-fill" {
        let role: Role = serde_json::from_value(r["config"]["role"].clone()).unwrap_or(Role::Client);
        mc_core::explore::replay(
            || FillWrap { inner: FillSys::new(role, sink.clone(), Some(expect.clone())), hist: vec![] },
            &r["history"],
        )
    } else if sub == "ecn" {
        let role: Role = serde_json::from_value(r["config"]["role"].clone()).unwrap_or(Role::Client);
        mc_core::explore::replay(|| EcnSys::new(role, sink.clone(), Some(expect.clone())), &r["history"])
    } else {
        let cfg: Cfg = match serde_json::from_value(r["config"].clone()) {
            Ok(c) => c,
            Err(e) => {
                println!("replay file has no usable config: {e}");
                return 2;
            }
        };
        mc_core::explore::replay(|| CcSys::new(cfg, sink.clone(), Some(expect.clone())), &r["history"])
    };
    match res {
        Ok(()) => {
            println!("replay: no violation with signature {expect:?}");
            0
        }
        Err(f) if f.sig.starts_with("machinery/") => {
            println!("replay: {} — {}", f.sig, f.detail);
            2
        }
        Err(f) => {
            println!("replay: {} — {}", f.sig, f.detail);
            1
        }
    }
}

/// The same history executed twice — the second time with another live system on the same
/// thread that is stepped in between — must give the same canonical state.
fn determinism_self_test() -> Result<(), String> {
    let cfg = Cfg { role: Role::Client, phase: Phase::HsKeys, max_outstanding: 5 };
    let hist = [
        Op::Send { epoch: 0, size: 1200, ack_eliciting: true, in_flight: true },
        Op::Advance { dt: Dt::LossDelay },
        Op::Ack { epoch: 0, shape: Shape::Newest, delay_ms: 10, ce: false },
        Op::Send { epoch: 1, size: 1200, ack_eliciting: true, in_flight: true },
        Op::Send { epoch: 2, size: 60, ack_eliciting: true, in_flight: true },
        Op::Advance { dt: Dt::Pto },
        Op::Tick,
        Op::Confirm,
    ];
    let run = |disturb: bool| -> Result<String, String> {
        let sink = Arc::new(Sink::default());
        let mut a = CcSys::new(cfg, sink.clone(), None);
        let mut b = CcSys::new(cfg, sink.clone(), None);
        for op in &hist {
            a.step(op).map_err(|f| f.sig)?;
            if disturb {
                b.step(&Op::Send { epoch: 0, size: 60, ack_eliciting: true, in_flight: true }).map_err(|f| f.sig)?;
                b.step(&Op::Advance { dt: Dt::Pto }).map_err(|f| f.sig)?;
            }
        }
        a.finish().map_err(|f| f.sig)?;
        Ok(a.canon())
    };
    let (x, y) = (run(false)?, run(true)?);
    if x != y {
        return Err(format!("determinism self-test failed:\n{x}\n{y}"));
    }
    Ok(())
}

fn file(report: &mut Report, sub: &str, config: Value, violations: &BTreeMap<String, (String, Value, u64)>) {
    for (sig, (detail, hist, hits)) in violations {
        // `Report::violation` counts one hit per call; the number of explored transitions that
        // raised the signature is kept in the replay object
        report.violation(
            sig,
            detail,
            json!({"sub": sub, "config": config, "history": hist, "expect": sig, "transitions_hit": hits}),
        );
    }
}

pub fn run(args: &Args) -> i32 {
    if args.replay.is_some() {
        return replay(args);
    }
    let started = std::time::Instant::now();
    let mut report = Report::new(args, "model_checking");
    report.assume("virtual clock (paused current-thread tokio runtime); every call into ArcCC runs inside it");
    report.assume("only NewReno is reachable (Algorithm::Bbr is todo!()); max_datagram_size 1200, peer max_ack_delay 25 ms");
    report.assume("ACK Delay field is written in microseconds with exponent 0, which is how qcongestion reads it (Duration::from_micros(frame.delay()))");
    report.assume("ack-eliciting ⇒ in flight (no frame type of qbase is ack-eliciting and congestion-control free); packet numbers are consecutive per space");
    report.assume("a server path has already received a datagram (anti-amplification flag released); a client path's flag is released by the first ACK-carrying packet, as in qconnection::path; a server re-entering the anti-amplification limit is not modelled");
    report.assume("time threshold judged against an RFC 9002 §5.3 reference estimator fed the same samples (the smaller of: sampling only never-lost packets / sampling late acknowledgements of lost packets too), initial RTT taken from the controller's initial PTO, 1 ms granularity allowed");
    if cfg!(feature = "snapshot") {
        report.assume("feature `snapshot`: window clauses (iv)–(ix) judged on ArcCC::verif_snapshot(); the snapshot is part of the canonical state");
    } else {
        report.assume("built WITHOUT feature `snapshot`: cwnd / ssthresh / bytes_in_flight / recovery start are not visible, clauses (iv)–(viii) are NOT judged; clause (ix) is judged by the window-fill sub-check against the RFC upper bound of the window; canonical state = ledger + reference estimator + every public observable (get_pto, retransmit_and_expire_time, need_send_ack_eliciting)");
        report.notes.push("window invariants need hook_proposal.diff + `--features snapshot`".into());
    }

    let max_out = 5usize;
    // (depth, deviation budget, expected size in million transitions — only used to split the
    // wall-clock cap) passes per handshake phase; the three-space phase is much wider
    let passes = |phase: Phase| -> Vec<(usize, u32, f64)> {
        // debugging aid only (never set by ./check)
        let env = |k: &str| std::env::var(k).ok().and_then(|s| s.parse::<usize>().ok());
        if let (Some(d), Some(b)) = (env("VERIF_C13_DEPTH"), env("VERIF_C13_BUDGET")) {
            return vec![(d, b as u32, 1.0)];
        }
        match (args.thorough, phase) {
            (false, Phase::HsKeys) => vec![(6, 1, 0.25)],
            (false, _) => vec![(8, 1, 0.4)],
            // sized for ~500 CPU-seconds in total so that the tier also completes on a busy
            // machine; (9,2) / (8,1) for the three-space phase are 5–8 million transitions each
            (true, Phase::Confirmed) => vec![(9, 1, 1.1), (8, 2, 1.9)],
            (true, Phase::NoKeys) => vec![(9, 1, 1.0), (7, 2, 0.4)],
            (true, Phase::HsKeys) => vec![(7, 1, 1.5), (6, 2, 1.4)],
        }
    };
    let total_cap: f64 = std::env::var("VERIF_C13_CAP")
        .ok()
        .and_then(|s| s.parse().ok())
        .unwrap_or(if args.thorough { 590.0 } else { 55.0 });
    if let Err(e) = determinism_self_test() {
        eprintln!("machinery error: {e}");
        return 2;
    }
    let cfgs = configs(max_out);
    let jobs: Vec<(Cfg, usize, u32, f64)> = cfgs
        .iter()
        .flat_map(|&c| passes(c.phase).into_iter().map(move |(d, b, w)| (c, d, b, w)))
        .filter(|(c, _, _, _)| args.wants(&c.name()))
        .collect();
    for (i, &(cfg, depth, budget, weight)) in jobs.iter().enumerate() {
        let name = cfg.name();
        let left = (total_cap - started.elapsed().as_secs_f64()).max(2.0);
        // A safety net, not a scheduler: the tiers are sized in CPU time (see `passes`) and
        // complete well within the limit on an idle 16-core machine; a pass is cut short only
        // when what is left of the wall-clock limit could not hold its next BFS level.
        let _ = (weight, i);
        let share = left;
        // the last BFS level costs this many times everything before it
        let growth = if cfg.phase == Phase::HsKeys { 6.5 } else { 4.5 };
        let sink = Arc::new(Sink::default());
        let ecfg = ExploreCfg {
            max_depth: depth,
            max_cost: budget,
            check_finish: true,
            // the cap is only looked at between BFS levels: do not start a level that cannot
            // finish within this pass's share of the wall-clock budget
            time_cap: Duration::from_secs_f64(share / growth),
            ..Default::default()
        };
        let sk = sink.clone();
        let mut stats = explore(move || CcSys::new(cfg, sk.clone(), None), &ecfg);
        for (sig, e) in std::mem::take(&mut *sink.map.lock().unwrap()) {
            stats.violations.entry(sig).or_insert(e);
        }
        let cj = serde_json::to_value(cfg).unwrap();
        file(&mut report, &name, cj, &stats.violations);
        if let Some(c) = &stats.cap_hit {
            report.caps_hit.push(format!("{name}-D{depth}-B{budget}: {c}"));
        }
        let mut cov = stats.coverage(&format!(
            "BFS (dedup on canonical state, ≤ {budget} deviation(s)) over histories ≤ {depth} ops on the real ArcCC ({name}): send(space, 1200|60 bytes, ack-eliciting / padding-only / ACK-only), ack(space, newest | all | all-but-oldest | newest with gap 1..3 | acknowledged range growing downwards; ACK delay 0|10|40 ms; ECN-CE +1), advance(1 ms | reference loss delay | get_pto), do_tick, handshake confirmation; ≤ {max_out} packets outstanding; liveness run (time passes, probes answered, no acks) from every distinct state. Deviations = anything but: full-size ack-eliciting send, ack newest/all without delay or ECN, advance(loss delay | PTO), tick"
        ));
        cov.extra.insert("oracle_activity".into(), sink.counters.json());
        report.sub(&format!("{name}-D{depth}-B{budget}"), cov);
    }

    if args.wants("window-fill") {
        for role in [Role::Client, Role::Server] {
            let sink = Arc::new(Sink::default());
            let depth_f = if args.thorough { 8 } else { 6 };
            let ecfg = ExploreCfg {
                max_depth: depth_f,
                time_cap: Duration::from_secs(if args.thorough { 60 } else { 5 }),
                ..Default::default()
            };
            let sk = sink.clone();
            let mut stats = explore(
                move || FillWrap { inner: FillSys::new(role, sk.clone(), None), hist: vec![] },
                &ecfg,
            );
            for (sig, e) in std::mem::take(&mut *sink.map.lock().unwrap()) {
                stats.violations.entry(sig).or_insert(e);
            }
            file(&mut report, "window-fill", json!({"role": role}), &stats.violations);
            if let Some(c) = &stats.cap_hit {
                report.caps_hit.push(format!("window-fill-{role:?}: {c}"));
            }
            let mut cov = stats.coverage(&format!(
                "BFS over histories ≤ {depth_f} ops of a sender that obeys send_quota ({role:?}, handshake confirmed): burst (send ⌊quota/1200⌋ full packets), wait 10|50 ms + do_tick, peer acknowledges the oldest 1|all outstanding; oracle: send_quota must not grant anything while the bytes in flight reach the window"
            ));
            cov.extra.insert("oracle_activity".into(), sink.counters.json());
            report.sub(&format!("window-fill-{role:?}-D{depth_f}").to_lowercase(), cov);
        }
    }
    if args.wants("ecn") {
        for role in [Role::Client, Role::Server] {
            let sink = Arc::new(Sink::default());
            let depth_e = if args.thorough { 14 } else { 12 };
            let ecfg = ExploreCfg {
                max_depth: depth_e,
                time_cap: Duration::from_secs(if args.thorough { 120 } else { 10 }),
                ..Default::default()
            };
            let sk = sink.clone();
            let mut stats = explore(move || EcnSys::new(role, sk.clone(), None), &ecfg);
            for (sig, e) in std::mem::take(&mut *sink.map.lock().unwrap()) {
                stats.violations.entry(sig).or_insert(e);
            }
            file(&mut report, "ecn", json!({"role": role}), &stats.violations);
            if let Some(c) = &stats.cap_hit {
                report.caps_hit.push(format!("ecn-{role:?}: {c}"));
            }
            let mut cov = stats.coverage(&format!(
                "BFS over histories ≤ {depth_e} ops on the real ArcCC ({role:?}, handshake confirmed) with a peer that reports ECN counts: send (full-size, ≤ 3 outstanding), ack(newest | all | all-but-oldest | range growing downwards; ECN counts unchanged | ECN-CE +1 | absent), 1 ms passes + do_tick; the window oracles of the main search apply (no reduction without a loss or a larger ECN-CE count, at most one reduction per recovery period, reduction dated by the send time of the frame's largest)"
            ));
            cov.extra.insert("oracle_activity".into(), sink.counters.json());
            report.sub(&format!("ecn-{role:?}-D{depth_e}").to_lowercase(), cov);
        }
    }
    report.finish()
}
