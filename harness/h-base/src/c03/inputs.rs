//! Systematic input families for C03 (never random).
//!
//! * `FirstByte`: first byte over all 256 values, followed by every Σ-string of length 0..=3
//!   (thorough: 0..=4) — this contains every Σ-string of length 1..=4 (1..=5);
//! * `Sigma`: every Σ-string of one length ≥ 5 with a given 2-byte prefix;
//! * `Template` (datagrams only): `[first byte, version] ++ s ++ pad` for s ∈ Σ^{0..=3}, so that
//!   the header parsers behind the type/version gate are reached by the enumeration itself;
//! * `Prefixed`: a multi-byte (or non-minimally encoded) frame type / parameter id followed by
//!   every Σ-string of length 0..=3 (thorough 0..=4);
//! * mutations of a valid encoding: every prefix, every single-position substitution by every
//!   byte of Σ, (thorough) every single-bit flip and, for encodings ≤ 24 bytes, every pair of
//!   positions × Σ².

pub const SIGMA: [u8; 12] = [
    0x00, 0x01, 0x04, 0x0f, 0x15, 0x3f, 0x40, 0x7f, 0x80, 0xbf, 0xc0, 0xff,
];

#[derive(Debug, Clone)]
pub enum Family {
    Empty,
    /// first bytes `lo..hi` (exclusive), tails Σ^{0..=tail_max}
    FirstByte { lo: usize, hi: usize, tail_max: usize },
    /// all Σ-strings of length `len` starting with Σ[a], Σ[b]
    Sigma { len: usize, a: usize, b: usize },
    /// `[fb] ++ version ++ s ++ pad`, fb in lo..hi, s ∈ Σ^{0..=3}
    Template { lo: usize, hi: usize, version: u32 },
    /// `prefix ++ s`, s ∈ Σ^{0..=tail_max}: multi-byte frame types / parameter ids that Σ cannot spell
    Prefixed { prefix: Vec<u8>, tail_max: usize },
    Prefixes { corpus: usize },
    Single { corpus: usize },
    BitFlip { corpus: usize },
    /// pairs (i, j), i in lo..hi, j > i
    Pair { corpus: usize, lo: usize, hi: usize },
}

impl Family {
    pub fn class(&self) -> &'static str {
        match self {
            Family::Empty => "empty",
            Family::FirstByte { tail_max: 3, .. } => "first-byte-256 x sigma^<=3",
            Family::FirstByte { .. } => "first-byte-256 x sigma^<=4",
            Family::Sigma { len: 5, .. } => "sigma^5",
            Family::Sigma { len: 6, .. } => "sigma^6",
            Family::Sigma { len: 7, .. } => "sigma^7",
            Family::Sigma { .. } => "sigma^n",
            Family::Template { .. } => "template",
            Family::Prefixed { .. } => "multi-byte-type-prefix x sigma^<=n",
            Family::Prefixes { .. } => "corpus-prefixes",
            Family::Single { .. } => "corpus-single-substitution",
            Family::BitFlip { .. } => "corpus-bit-flip",
            Family::Pair { .. } => "corpus-pair-substitution",
        }
    }
}

/// The 24 bytes appended to a template: a byte that works as a 21-byte length / over-long cid
/// length, then zeros.
pub const TEMPLATE_PAD: [u8; 24] = {
    let mut p = [0u8; 24];
    p[0] = 0x15;
    p
};

/// Calls `f` on every Σ-string of length 0..=max (as a suffix appended to `buf`).
fn sigma_tails(buf: &mut Vec<u8>, max: usize, f: &mut dyn FnMut(&[u8])) {
    f(buf);
    if max == 0 {
        return;
    }
    for s in SIGMA {
        buf.push(s);
        sigma_tails(buf, max - 1, f);
        buf.pop();
    }
}

/// Calls `f` on every Σ-string of exactly `n` more bytes appended to `buf`.
fn sigma_exact(buf: &mut Vec<u8>, n: usize, f: &mut dyn FnMut(&[u8])) {
    if n == 0 {
        f(buf);
        return;
    }
    for s in SIGMA {
        buf.push(s);
        sigma_exact(buf, n - 1, f);
        buf.pop();
    }
}

/// Enumerates the inputs of one family. `corpus` is the list of valid encodings of the entry.
pub fn for_each(fam: &Family, corpus: &[Vec<u8>], f: &mut dyn FnMut(&[u8])) {
    match fam {
        Family::Empty => f(&[]),
        Family::FirstByte { lo, hi, tail_max } => {
            let mut buf = Vec::with_capacity(8);
            for fb in *lo..*hi {
                buf.clear();
                buf.push(fb as u8);
                sigma_tails(&mut buf, *tail_max, f);
            }
        }
        Family::Sigma { len, a, b } => {
            let mut buf = vec![SIGMA[*a], SIGMA[*b]];
            sigma_exact(&mut buf, len - 2, f);
        }
        Family::Template { lo, hi, version } => {
            let mut buf = Vec::with_capacity(40);
            for fb in *lo..*hi {
                buf.clear();
                buf.push(fb as u8);
                buf.extend_from_slice(&version.to_be_bytes());
                let mut g = |s: &[u8]| {
                    let mut full = s.to_vec();
                    full.extend_from_slice(&TEMPLATE_PAD);
                    f(&full);
                };
                sigma_tails(&mut buf, 3, &mut g);
            }
        }
        Family::Prefixed { prefix, tail_max } => {
            let mut buf = prefix.clone();
            sigma_tails(&mut buf, *tail_max, f);
        }
        Family::Prefixes { corpus: c } => {
            let e = &corpus[*c];
            // the full encoding itself is the last "prefix": the corpus must decode
            for n in 0..=e.len() {
                f(&e[..n]);
            }
        }
        Family::Single { corpus: c } => {
            let mut e = corpus[*c].clone();
            for i in 0..e.len() {
                let orig = e[i];
                for s in SIGMA {
                    if s != orig {
                        e[i] = s;
                        f(&e);
                    }
                }
                e[i] = orig;
            }
        }
        Family::BitFlip { corpus: c } => {
            let mut e = corpus[*c].clone();
            for i in 0..e.len() {
                let orig = e[i];
                for bit in 0..8 {
                    let v = orig ^ (1 << bit);
                    // a flip that lands in Σ is already in the substitution family
                    if !SIGMA.contains(&v) {
                        e[i] = v;
                        f(&e);
                    }
                }
                e[i] = orig;
            }
        }
        Family::Pair { corpus: c, lo, hi } => {
            let mut e = corpus[*c].clone();
            for i in *lo..(*hi).min(e.len()) {
                let oi = e[i];
                for si in SIGMA {
                    if si == oi {
                        continue;
                    }
                    e[i] = si;
                    for j in i + 1..e.len() {
                        let oj = e[j];
                        for sj in SIGMA {
                            if sj != oj {
                                e[j] = sj;
                                f(&e);
                            }
                        }
                        e[j] = oj;
                    }
                }
                e[i] = oi;
            }
        }
    }
}
