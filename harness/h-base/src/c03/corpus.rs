//! Valid encodings produced with qbase's own writers (deterministic: no random cid/token
//! survives into the bytes, parameters are written one by one in a fixed order because
//! `put_parameters` iterates a `HashMap`).
use std::{
    net::{Ipv4Addr, Ipv6Addr, SocketAddr, SocketAddrV4, SocketAddrV6},
    time::Duration,
};

use bytes::{BufMut, Bytes, BytesMut};
use qbase::{
    cid::{ConnectionId, WriteConnectionId},
    error::{ErrorFrameType, ErrorKind},
    frame::{
        AckFrame, AddAddressFrame, ConnectionCloseFrame, CryptoFrame, DataBlockedFrame,
        DatagramFrame, EcnCounts, FrameType, HandshakeDoneFrame, MaxDataFrame,
        MaxStreamDataFrame, MaxStreamsFrame, NewConnectionIdFrame, NewTokenFrame, PaddingFrame,
        PathChallengeFrame, PathResponseFrame, PingFrame, PunchDoneFrame, PunchHelloFrame,
        PunchMeNowFrame, RemoveAddressFrame, ResetStreamFrame, RetireConnectionIdFrame,
        StopSendingFrame, StreamDataBlockedFrame, StreamFrame, StreamsBlockedFrame,
        io::{WriteDataFrame, WriteFrame},
    },
    net::{NatType, WriteSocketAddr},
    packet::{
        LongHeaderBuilder, OneRttHeader,
        header::io::WriteHeader,
    },
    param::{
        ParameterId, ParameterValue, WriteParameter,
        preferred_address::{PreferredAddress, WirtePreferredAddress},
    },
    role::Role,
    sid::{Dir, StreamId},
    token::ResetToken,
    varint::{EncodeBytes, VarInt, WriteVarInt},
};

use super::oracle::Entry;

/// boundary varints
pub const B: [u64; 9] = [
    0,
    1,
    63,
    64,
    16383,
    16384,
    (1 << 30) - 1,
    1 << 30,
    (1 << 62) - 1,
];

fn v(x: u64) -> VarInt {
    VarInt::from_u64(x).expect("boundary value fits a varint")
}

fn cid(n: usize) -> ConnectionId {
    let b: Vec<u8> = (0..n).map(|i| 0xd0u8.wrapping_add(i as u8)).collect();
    ConnectionId::from_slice(&b)
}

fn token16() -> [u8; 16] {
    let mut t = [0u8; 16];
    for (i, b) in t.iter_mut().enumerate() {
        *b = 0xe0 + i as u8;
    }
    t
}

fn one<F>(f: &F) -> Vec<u8>
where
    BytesMut: WriteFrame<F>,
{
    let mut b = BytesMut::new();
    b.put_frame(f);
    b.to_vec()
}

pub fn frames() -> Vec<Vec<u8>> {
    let mut out: Vec<Vec<u8>> = Vec::new();
    out.push(one(&PaddingFrame));
    out.push(one(&PingFrame));
    out.push(one(&HandshakeDoneFrame));
    for x in B {
        out.push(one(&MaxDataFrame::new(v(x))));
        out.push(one(&DataBlockedFrame::new(v(x))));
        out.push(one(&RetireConnectionIdFrame::new(v(x))));
        out.push(one(&RemoveAddressFrame { seq_num: v(x) }));
        if x <= 1 << 60 {
            out.push(one(&MaxStreamsFrame::with(Dir::Bi, v(x))));
            out.push(one(&MaxStreamsFrame::with(Dir::Uni, v(x))));
            out.push(one(&StreamsBlockedFrame::with(Dir::Bi, v(x))));
            out.push(one(&StreamsBlockedFrame::with(Dir::Uni, v(x))));
        }
    }
    let sid0 = StreamId::new(Role::Client, Dir::Bi, 0);
    let sid_big = StreamId::new(Role::Server, Dir::Uni, 4095);
    for x in [0u64, 63, 64, 16384, (1 << 62) - 1] {
        out.push(one(&MaxStreamDataFrame::new(sid0, v(x))));
        out.push(one(&StreamDataBlockedFrame::new(sid_big, v(x))));
        out.push(one(&StopSendingFrame::new(sid0, v(x))));
        out.push(one(&ResetStreamFrame::new(sid_big, v(x), v(x))));
    }
    // ACK
    out.push(one(&AckFrame::new(v(10), v(3), v(2), vec![], None)));
    out.push(one(&AckFrame::new(v(100), v(64), v(2), vec![(v(1), v(2)), (v(0), v(0))], None)));
    out.push(one(&AckFrame::new(
        v(100),
        v(0),
        v(0),
        vec![(v(3), v(4))],
        Some(EcnCounts::new(v(1), v(64), v(16384))),
    )));
    out.push(one(&AckFrame::new(v((1 << 62) - 1), v(16384), v(63), vec![], None)));
    // CRYPTO
    for (off, data) in [(0u64, &b""[..]), (1, &b"hello"[..]), (16384, &b"x"[..])] {
        let mut b = BytesMut::new();
        b.put_data_frame(&CryptoFrame::new(v(off), v(data.len() as u64)), &Bytes::copy_from_slice(data));
        out.push(b.to_vec());
    }
    // NEW_TOKEN
    out.push(one(&NewTokenFrame::new(vec![0x7a])));
    out.push(one(&NewTokenFrame::new((0..64u8).collect())));
    // STREAM, all 8 flag combinations
    for (sid, off) in [(sid0, 0u64), (sid_big, 64)] {
        for explicit in [false, true] {
            for fin in [false, true] {
                for data in [&b""[..], &b"abc"[..]] {
                    let mut f = StreamFrame::new(sid, off, data.len());
                    f.set_eos_flag(fin);
                    f.set_len_bit(if explicit {
                        qbase::frame::Len::Explicit
                    } else {
                        qbase::frame::Len::Omit
                    });
                    let mut b = BytesMut::new();
                    b.put_data_frame(&f, &Bytes::copy_from_slice(data));
                    out.push(b.to_vec());
                }
            }
        }
    }
    // STREAM / CRYPTO at the top of the offset range, written as raw bytes (the crate's own
    // writers need not be able to produce them): offset 2^62-1-k, k = 0..3, 0..3 data bytes,
    // every flag combination with the OFF bit; the sums that exceed 2^62-1 must be refused
    for k in 0..4u64 {
        let off = (((1u64 << 62) - 1 - k) | (0b11 << 62)).to_be_bytes();
        for n in 0..4usize {
            let data = &[0xaa, 0xbb, 0xcc][..n.min(3)];
            for ty in [0x0cu8, 0x0d, 0x0e, 0x0f] {
                let mut e = vec![ty, 0x00];
                e.extend_from_slice(&off);
                if ty & 0x02 != 0 {
                    e.push(data.len() as u8);
                }
                e.extend_from_slice(data);
                out.push(e);
            }
            let mut e = vec![0x06];
            e.extend_from_slice(&off);
            e.push(data.len() as u8);
            e.extend_from_slice(data);
            out.push(e);
        }
    }
    // NEW_CONNECTION_ID (the writer takes a random reset token: overwrite it)
    for (n, seq, rpt) in [(1usize, 1u64, 0u64), (8, 64, 64), (20, 16384, 1)] {
        let mut e = one(&NewConnectionIdFrame::new(cid(n), v(seq), v(rpt)));
        let l = e.len();
        e[l - 16..].copy_from_slice(&token16());
        out.push(e);
    }
    // PATH_CHALLENGE / PATH_RESPONSE
    let ch = PathChallengeFrame::from_slice(&[1, 2, 3, 4, 5, 6, 7, 8]);
    out.push(one(&ch));
    out.push(one(&PathResponseFrame::from(ch)));
    // CONNECTION_CLOSE
    out.push(one(&ConnectionCloseFrame::new_quic(
        ErrorKind::ProtocolViolation,
        ErrorFrameType::V1(FrameType::Padding),
        "",
    )));
    out.push(one(&ConnectionCloseFrame::new_quic(
        ErrorKind::FlowControl,
        ErrorFrameType::V1(FrameType::MaxData),
        "bad",
    )));
    out.push(one(&ConnectionCloseFrame::new_app(v(0), "")));
    out.push(one(&ConnectionCloseFrame::new_app(v(16384), "bye")));
    // DATAGRAM
    for (with_len, data) in [(true, &b""[..]), (true, &b"dat"[..]), (false, &b"dat"[..]), (false, &b""[..])] {
        let mut b = BytesMut::new();
        b.put_data_frame(
            &DatagramFrame::new(with_len, v(data.len() as u64)),
            &Bytes::copy_from_slice(data),
        );
        out.push(b.to_vec());
    }
    // gm-quic extension frames
    let a4 = SocketAddr::V4(SocketAddrV4::new(Ipv4Addr::new(192, 0, 2, 1), 4433));
    let a6 = SocketAddr::V6(SocketAddrV6::new(Ipv6Addr::new(0x2001, 0xdb8, 0, 0, 0, 0, 0, 1), 4433, 0, 0));
    out.push(one(&AddAddressFrame::new(1, a4, 2, NatType::RestrictedPort)));
    out.push(one(&AddAddressFrame::new(64, a6, 0, NatType::FullCone)));
    out.push(one(&PunchMeNowFrame::new(1, 2, a4, 3, NatType::Symmetric)));
    out.push(one(&PunchMeNowFrame::new(64, 0, a6, 0, NatType::Blocked)));
    out.push(one(&PunchHelloFrame::new(1, 2, 3)));
    out.push(one(&PunchDoneFrame::new(64, 16384, 0)));
    // sequences
    {
        let mut b = BytesMut::new();
        b.put_frame(&PingFrame);
        b.put_frame(&PaddingFrame);
        b.put_frame(&MaxDataFrame::new(v(64)));
        b.put_frame(&PingFrame);
        out.push(b.to_vec());
    }
    {
        let mut b = BytesMut::new();
        b.put_data_frame(&CryptoFrame::new(v(0), v(3)), &Bytes::from_static(b"tls"));
        b.put_frame(&AckFrame::new(v(1), v(0), v(1), vec![], None));
        b.put_frame(&PaddingFrame);
        out.push(b.to_vec());
    }
    {
        let mut b = BytesMut::new();
        let mut f = StreamFrame::new(sid0, 0, 2);
        f.set_len_bit(qbase::frame::Len::Explicit);
        b.put_data_frame(&f, &Bytes::from_static(b"ab"));
        let mut g = StreamFrame::new(sid0, 2, 2);
        g.set_eos_flag(true);
        g.set_len_bit(qbase::frame::Len::Omit);
        b.put_data_frame(&g, &Bytes::from_static(b"cd"));
        out.push(b.to_vec());
    }
    dedup(out)
}

fn dedup(v: Vec<Vec<u8>>) -> Vec<Vec<u8>> {
    let mut seen = std::collections::BTreeSet::new();
    v.into_iter().filter(|e| seen.insert(e.clone())).collect()
}

fn payload(n: usize) -> Vec<u8> {
    (0..n).map(|i| 0x11u8.wrapping_add(i as u8)).collect()
}

fn finish_long(mut b: BytesMut, payload_len: usize, two: bool) -> Vec<u8> {
    let len = v(payload_len as u64);
    if two {
        b.encode_varint(&len, EncodeBytes::Two);
    } else {
        b.put_varint(&len);
    }
    b.put_slice(&payload(payload_len));
    b.to_vec()
}

pub fn packets() -> Vec<Vec<u8>> {
    let mut out = Vec::new();
    let tok = |n: usize| -> Vec<u8> { (0..n).map(|i| 0x70 + (i as u8 & 0x0f)).collect() };
    // Initial
    for (d, s) in [(0usize, 0usize), (8, 8), (20, 20), (8, 0)] {
        for t in [0usize, 1, 64] {
            let mut b = BytesMut::new();
            b.put_header(&LongHeaderBuilder::with_cid(cid(d), cid(s)).initial(tok(t)));
            out.push(finish_long(b, 20, t == 1));
        }
    }
    // 0-RTT, Handshake
    for (d, s) in [(0usize, 0usize), (8, 8), (20, 20)] {
        let mut b = BytesMut::new();
        b.put_header(&LongHeaderBuilder::with_cid(cid(d), cid(s)).zero_rtt());
        out.push(finish_long(b, 20, false));
        let mut b = BytesMut::new();
        b.put_header(&LongHeaderBuilder::with_cid(cid(d), cid(s)).handshake());
        out.push(finish_long(b, 25, true));
    }
    // Retry
    {
        let mut b = BytesMut::new();
        b.put_header(&LongHeaderBuilder::with_cid(cid(8), cid(8)).retry(tok(3), token16()));
        out.push(b.to_vec());
        let mut b = BytesMut::new();
        b.put_header(&LongHeaderBuilder::with_cid(cid(0), cid(0)).retry(vec![], token16()));
        out.push(b.to_vec());
    }
    // Version negotiation
    {
        let mut b = BytesMut::new();
        b.put_header(&LongHeaderBuilder::with_cid(cid(8), cid(8)).vn(vec![1, 0x0a0a_0a0a]));
        out.push(b.to_vec());
        let mut b = BytesMut::new();
        b.put_header(&LongHeaderBuilder::with_cid(cid(0), cid(20)).vn(vec![]));
        out.push(b.to_vec());
    }
    // 1-RTT
    for d in [0usize, 8, 20] {
        let mut b = BytesMut::new();
        b.put_header(&OneRttHeader::new(0x20.into(), cid(d)));
        b.put_slice(&payload(20));
        out.push(b.to_vec());
    }
    // coalesced Initial + Handshake + 1-RTT
    {
        let mut all = Vec::new();
        let mut b = BytesMut::new();
        b.put_header(&LongHeaderBuilder::with_cid(cid(8), cid(8)).initial(vec![]));
        all.extend(finish_long(b, 20, true));
        let mut b = BytesMut::new();
        b.put_header(&LongHeaderBuilder::with_cid(cid(8), cid(8)).handshake());
        all.extend(finish_long(b, 20, false));
        let mut b = BytesMut::new();
        b.put_header(&OneRttHeader::new(0.into(), cid(8)));
        b.put_slice(&payload(20));
        all.extend(b.to_vec());
        out.push(all);
    }
    dedup(out)
}

fn put(b: &mut BytesMut, id: ParameterId, val: impl Into<ParameterValue>) {
    b.put_parameter(id, &val.into());
}

fn common_params(b: &mut BytesMut) {
    put(b, ParameterId::MaxIdleTimeout, Duration::from_millis(30_000));
    put(b, ParameterId::MaxUdpPayloadSize, v(1472));
    put(b, ParameterId::InitialMaxData, v(1 << 20));
    put(b, ParameterId::InitialMaxStreamDataBidiLocal, v(65536));
    put(b, ParameterId::InitialMaxStreamDataBidiRemote, v(65536));
    put(b, ParameterId::InitialMaxStreamDataUni, v(65536));
    put(b, ParameterId::InitialMaxStreamsBidi, v(100));
    put(b, ParameterId::InitialMaxStreamsUni, v(3));
    put(b, ParameterId::AckDelayExponent, v(3));
    put(b, ParameterId::MaxAckDelay, Duration::from_millis(25));
    put(b, ParameterId::DisableActiveMigration, ParameterValue::True);
    put(b, ParameterId::ActiveConnectionIdLimit, v(4));
    put(b, ParameterId::InitialSourceConnectionId, cid(8));
    put(b, ParameterId::MaxDatagramFrameSize, v(1200));
    put(b, ParameterId::GreaseQuicBit, ParameterValue::True);
}

pub fn params() -> Vec<Vec<u8>> {
    let mut out = Vec::new();
    // full client blob
    {
        let mut b = BytesMut::new();
        common_params(&mut b);
        put(&mut b, ParameterId::ClientName, ParameterValue::Bytes(Bytes::from_static(b"cli")));
        out.push(b.to_vec());
    }
    // minimal client blob: zero-length initial_source_connection_id
    {
        let mut b = BytesMut::new();
        put(&mut b, ParameterId::InitialSourceConnectionId, cid(0));
        out.push(b.to_vec());
    }
    // small client blob with a reserved (ignored) parameter 31*2+27
    {
        let mut b = BytesMut::new();
        put(&mut b, ParameterId::InitialSourceConnectionId, cid(4));
        put(&mut b, ParameterId::InitialMaxData, v(64));
        b.put_varint(&v(89));
        b.put_varint(&v(3));
        b.put_slice(&[9, 9, 9]);
        put(&mut b, ParameterId::MaxIdleTimeout, Duration::from_millis(63));
        out.push(b.to_vec());
    }
    // full server blob
    {
        let mut b = BytesMut::new();
        put(&mut b, ParameterId::OriginalDestinationConnectionId, cid(8));
        put(&mut b, ParameterId::StatelessResetToken, ResetToken::new(&token16()));
        common_params(&mut b);
        put(
            &mut b,
            ParameterId::PreferredAddress,
            PreferredAddress::new(
                SocketAddrV4::new(Ipv4Addr::new(192, 0, 2, 1), 4433),
                SocketAddrV6::new(Ipv6Addr::new(0x2001, 0xdb8, 0, 0, 0, 0, 0, 1), 4433, 0, 0),
                cid(8),
                ResetToken::new(&token16()),
            ),
        );
        put(&mut b, ParameterId::RetrySourceConnectionId, cid(20));
        out.push(b.to_vec());
    }
    // minimal server blob
    {
        let mut b = BytesMut::new();
        put(&mut b, ParameterId::OriginalDestinationConnectionId, cid(0));
        put(&mut b, ParameterId::InitialSourceConnectionId, cid(0));
        out.push(b.to_vec());
    }
    // small server blob
    {
        let mut b = BytesMut::new();
        put(&mut b, ParameterId::OriginalDestinationConnectionId, cid(4));
        put(&mut b, ParameterId::InitialSourceConnectionId, cid(4));
        put(&mut b, ParameterId::ActiveConnectionIdLimit, v(2));
        put(&mut b, ParameterId::MaxUdpPayloadSize, v(1200));
        out.push(b.to_vec());
    }
    dedup(out)
}

pub fn preferred_addresses() -> Vec<Vec<u8>> {
    [0usize, 8, 20]
        .iter()
        .map(|n| {
            let mut b = BytesMut::new();
            b.put_preferred_address(&PreferredAddress::new(
                SocketAddrV4::new(Ipv4Addr::new(192, 0, 2, 1), 4433),
                SocketAddrV6::new(Ipv6Addr::new(0x2001, 0xdb8, 0, 0, 0, 0, 0, 1), 4433, 0, 0),
                cid(*n),
                ResetToken::new(&token16()),
            ));
            b.to_vec()
        })
        .collect()
}

pub fn socket_addrs() -> Vec<Vec<u8>> {
    let a4 = SocketAddr::V4(SocketAddrV4::new(Ipv4Addr::new(192, 0, 2, 1), 4433));
    let a6 = SocketAddr::V6(SocketAddrV6::new(Ipv6Addr::new(0x2001, 0xdb8, 0, 0, 0, 0, 0, 1), 4433, 0, 0));
    [a4, a6]
        .iter()
        .map(|a| {
            let mut b = BytesMut::new();
            b.put_socket_addr(a);
            b.to_vec()
        })
        .collect()
}

pub fn cids() -> Vec<Vec<u8>> {
    [0usize, 1, 8, 20]
        .iter()
        .map(|n| {
            let mut b = BytesMut::new();
            b.put_connection_id(&cid(*n));
            b.to_vec()
        })
        .collect()
}

pub fn varints() -> Vec<Vec<u8>> {
    let mut out = Vec::new();
    for x in B {
        let mut b = BytesMut::new();
        b.put_varint(&v(x));
        out.push(b.to_vec());
    }
    // non-minimal encodings
    for n in [EncodeBytes::Two, EncodeBytes::Four, EncodeBytes::Eight] {
        let mut b = BytesMut::new();
        b.encode_varint(&v(1), n);
        out.push(b.to_vec());
    }
    dedup(out)
}

pub fn for_entry(e: Entry) -> Vec<Vec<u8>> {
    match e {
        Entry::Packet(_) => packets(),
        Entry::Frame(_) => frames(),
        Entry::ParamsClient | Entry::ParamsServer | Entry::ParamsRemembered => params(),
        Entry::PreferredAddress => preferred_addresses(),
        Entry::SocketAddr(_) => socket_addrs(),
        Entry::ConnectionId => cids(),
        Entry::VarInt => varints(),
    }
}
