//! C03 oracle: one call of [`eval`] drives one entry point of qbase on one byte string and
//! records what happened into an [`Acc`].
//!
//! Clauses (DESIGN.md §3 C03):
//!  1. `panic/…`          — the decoder panicked (every call runs under `panics::catch`);
//!  2. `hang/…`, `bounds/…`, `misframe/…` — an `Ok` step consumed no input, more items than input
//!     bytes, a decoded length larger than the input, a packet whose bytes are not the slice of
//!     the datagram it was cut from, a frame accepted in a packet type that does not carry it;
//!  3. `error-kind/…`     — the `QuicError` produced by the crate's own `From` conversion has
//!     a kind other than the one RFC 9000 §12.4 / §7.4 prescribes;
//!  4. `drop/…`           — a malformed datagram leaves the reader neither exhausted nor advanced.
use std::collections::BTreeMap;

use bytes::{Bytes, BytesMut};
use mc_core::panics::{self, PanicInfo};
use qbase::{
    error::{ErrorKind, QuicError},
    frame::{ConnectionCloseFrame, Frame, FrameReader, error::Error as FrameError},
    net::Family,
    packet::{
        DataHeader, GetDcid, GetScid, Packet, PacketReader,
        error::Error as PacketError,
        header::long,
        r#type::{
            Type,
            long::{Type::V1, Ver1},
            short::OneRtt,
        },
    },
    param::{ClientParameters, ServerParameters},
};
use serde_json::{Value, json};

// ------------------------------------------------------------------------------------------
// entry points
// ------------------------------------------------------------------------------------------

#[derive(Debug, Clone, Copy, PartialEq, Eq)]
pub enum Pt {
    Initial,
    ZeroRtt,
    Handshake,
    OneRtt,
}

impl Pt {
    pub const ALL: [Pt; 4] = [Pt::Initial, Pt::ZeroRtt, Pt::Handshake, Pt::OneRtt];
    fn ty(self) -> Type {
        match self {
            Pt::Initial => Type::Long(V1(Ver1::INITIAL)),
            Pt::ZeroRtt => Type::Long(V1(Ver1::ZERO_RTT)),
            Pt::Handshake => Type::Long(V1(Ver1::HANDSHAKE)),
            Pt::OneRtt => Type::Short(OneRtt(0.into())),
        }
    }
    fn name(self) -> &'static str {
        match self {
            Pt::Initial => "initial",
            Pt::ZeroRtt => "0rtt",
            Pt::Handshake => "handshake",
            Pt::OneRtt => "1rtt",
        }
    }
}

#[derive(Debug, Clone, Copy, PartialEq, Eq)]
pub enum Entry {
    /// `PacketReader::new(bytes, dcid_len)` iterated to the end
    Packet(usize),
    /// `FrameReader::new(bytes, packet_type)` iterated to the end / first error
    Frame(Pt),
    ParamsClient,
    ParamsServer,
    ParamsRemembered,
    PreferredAddress,
    SocketAddr(Family),
    ConnectionId,
    VarInt,
}

impl Entry {
    pub fn all() -> Vec<Entry> {
        let mut v = vec![Entry::Packet(0), Entry::Packet(8), Entry::Packet(20)];
        v.extend(Pt::ALL.iter().map(|p| Entry::Frame(*p)));
        v.extend([
            Entry::ParamsClient,
            Entry::ParamsServer,
            Entry::ParamsRemembered,
            Entry::PreferredAddress,
            Entry::SocketAddr(Family::V4),
            Entry::SocketAddr(Family::V6),
            Entry::ConnectionId,
            Entry::VarInt,
        ]);
        v
    }

    /// sub-check name (also the `entry` member of a replay object)
    pub fn name(&self) -> String {
        match self {
            Entry::Packet(n) => format!("packet.dcid{n}"),
            Entry::Frame(p) => format!("frame.{}", p.name()),
            Entry::ParamsClient => "params.client".into(),
            Entry::ParamsServer => "params.server".into(),
            Entry::ParamsRemembered => "params.server-remembered".into(),
            Entry::PreferredAddress => "nom.preferred_address".into(),
            Entry::SocketAddr(Family::V4) => "nom.socket_addr_v4".into(),
            Entry::SocketAddr(Family::V6) => "nom.socket_addr_v6".into(),
            Entry::ConnectionId => "nom.connection_id".into(),
            Entry::VarInt => "nom.varint".into(),
        }
    }

    pub fn from_name(s: &str) -> Option<Entry> {
        Entry::all().into_iter().find(|e| e.name() == s)
    }

    /// the API name that goes into panic signatures (configuration-independent)
    pub fn api(&self) -> &'static str {
        match self {
            Entry::Packet(_) => "PacketReader::next",
            Entry::Frame(_) => "FrameReader::next",
            Entry::ParamsClient => "ClientParameters::parse_from_bytes",
            Entry::ParamsServer => "ServerParameters::parse_from_bytes",
            Entry::ParamsRemembered => "ServerParameters::try_from_remembered_bytes",
            Entry::PreferredAddress => "be_preferred_address",
            Entry::SocketAddr(_) => "be_socket_addr",
            Entry::ConnectionId => "be_connection_id",
            Entry::VarInt => "be_varint",
        }
    }

    pub fn config(&self) -> Value {
        match self {
            Entry::Packet(n) => json!({"dcid_len": n}),
            Entry::Frame(p) => json!({"packet_type": p.name()}),
            Entry::SocketAddr(f) => json!({"family": format!("{f}")}),
            _ => json!({}),
        }
    }

    pub fn is_packet(&self) -> bool {
        matches!(self, Entry::Packet(_))
    }
    pub fn is_frame(&self) -> bool {
        matches!(self, Entry::Frame(_))
    }
    pub fn is_params(&self) -> bool {
        matches!(
            self,
            Entry::ParamsClient | Entry::ParamsServer | Entry::ParamsRemembered
        )
    }
}

// ------------------------------------------------------------------------------------------
// accumulator
// ------------------------------------------------------------------------------------------

#[derive(Debug, Clone)]
pub struct Viol {
    pub detail: String,
    pub input: Vec<u8>,
    pub hits: u64,
}

#[derive(Debug, Default)]
pub struct Acc {
    pub evaluations: u64,
    /// inputs for which at least one item decoded `Ok`
    pub inputs_some_ok: u64,
    /// inputs that ended in a decoder `Err`
    pub inputs_err: u64,
    pub inputs_panic: u64,
    pub items_ok: u64,
    /// (some item ok?, how the run ended) -> count
    pub outcomes: BTreeMap<(bool, &'static str), u64>,
    /// one example input per outcome class
    pub examples: BTreeMap<(bool, &'static str), Vec<u8>>,
    /// decoded item kinds -> count
    pub item_kinds: BTreeMap<&'static str, u64>,
    /// QuicError kinds produced by error conversion -> count
    pub quic_kinds: BTreeMap<String, u64>,
    /// set by the driver: the family being run is an enumeration whose inputs are distinct by
    /// construction (first-byte × Σ^≤3, Σ^n) — non-trivial inputs are then only counted
    pub enumerated: bool,
    /// set by the driver: longest Σ-tail of the first-byte family of this run
    pub fb_tail_max: usize,
    pub nontrivial_enum: u64,
    /// FNV-1a hashes of the non-trivial inputs of the other families (deduplicated by the
    /// caller), without those that an enumerated family contains anyway
    pub nontrivial: Vec<u64>,
    /// non-trivial mutation inputs that are pure Σ-strings of length 5..=7: duplicates of the
    /// Σ^n family if (and only if) that length was enumerated
    pub sigma_like: Vec<(usize, u64)>,
    pub violations: BTreeMap<String, Viol>,
}

impl Acc {
    fn viol(&mut self, sig: &str, input: &[u8], detail: impl FnOnce() -> String) {
        if let Some(v) = self.violations.get_mut(sig) {
            v.hits += 1;
            // keep the shortest (then first) witness
            if input.len() < v.input.len() {
                v.input = input.to_vec();
                v.detail = detail();
            }
        } else {
            self.violations.insert(
                sig.to_string(),
                Viol {
                    detail: detail(),
                    input: input.to_vec(),
                    hits: 1,
                },
            );
        }
    }

    pub fn merge(&mut self, o: Acc) {
        self.evaluations += o.evaluations;
        self.inputs_some_ok += o.inputs_some_ok;
        self.inputs_err += o.inputs_err;
        self.inputs_panic += o.inputs_panic;
        self.items_ok += o.items_ok;
        for (k, n) in o.outcomes {
            *self.outcomes.entry(k).or_default() += n;
        }
        for (k, ex) in o.examples {
            let e = self.examples.entry(k).or_insert_with(|| ex.clone());
            if ex.len() < e.len() {
                *e = ex;
            }
        }
        for (k, n) in o.item_kinds {
            *self.item_kinds.entry(k).or_default() += n;
        }
        for (k, n) in o.quic_kinds {
            *self.quic_kinds.entry(k).or_default() += n;
        }
        self.nontrivial_enum += o.nontrivial_enum;
        self.nontrivial.extend(o.nontrivial);
        self.sigma_like.extend(o.sigma_like);
        for (sig, v) in o.violations {
            match self.violations.get_mut(&sig) {
                Some(m) => {
                    m.hits += v.hits;
                    if v.input.len() < m.input.len() {
                        m.input = v.input;
                        m.detail = v.detail;
                    }
                }
                None => {
                    self.violations.insert(sig, v);
                }
            }
        }
    }
}

pub fn hex(b: &[u8]) -> String {
    let mut s = String::with_capacity(b.len() * 2);
    for x in b {
        s.push_str(&format!("{x:02x}"));
    }
    s
}

pub fn unhex(s: &str) -> Option<Vec<u8>> {
    let s: String = s.chars().filter(|c| !c.is_whitespace()).collect();
    if s.len() % 2 != 0 {
        return None;
    }
    (0..s.len())
        .step_by(2)
        .map(|i| u8::from_str_radix(&s[i..i + 2], 16).ok())
        .collect()
}

pub fn fnv(b: &[u8]) -> u64 {
    let mut h: u64 = 0xcbf29ce484222325;
    for x in b {
        h ^= *x as u64;
        h = h.wrapping_mul(0x100000001b3);
    }
    // length is mixed in so that strings of zero bytes of different length differ strongly
    h ^ (b.len() as u64).wrapping_mul(0x9e3779b97f4a7c15)
}

/// Panic class that does not depend on the witness: file + message with digits masked and
/// the contents of `[...]` lists (the crate prints the offending input there) removed.
pub fn panic_class(p: &PanicInfo) -> String {
    let file = p.location.split(':').next().unwrap_or("?");
    let mut msg = String::new();
    let mut depth = 0usize;
    for c in p.message.chars() {
        match c {
            '[' => {
                if depth == 0 {
                    msg.push_str("[..]");
                }
                depth += 1;
            }
            ']' => depth = depth.saturating_sub(1),
            _ if depth > 0 => {}
            c if c.is_ascii_digit() => {
                if !msg.ends_with('#') {
                    msg.push('#');
                }
            }
            c => msg.push(c),
        }
    }
    if msg.len() > 110 {
        let mut cut = 110;
        while !msg.is_char_boundary(cut) {
            cut -= 1;
        }
        msg.truncate(cut);
    }
    format!("{file}:{msg}")
}

// ------------------------------------------------------------------------------------------
// reference tables
// ------------------------------------------------------------------------------------------

/// Own decoder of a QUIC varint (RFC 9000 §16): `(value, encoded length)` or `None` when the
/// input is shorter than the encoding announces.
pub fn ref_varint(b: &[u8]) -> Option<(u64, usize)> {
    let first = *b.first()?;
    let len = 1usize << (first >> 6);
    if b.len() < len {
        return None;
    }
    let mut v = (first & 0x3f) as u64;
    for x in &b[1..len] {
        v = (v << 8) | *x as u64;
    }
    Some((v, len))
}

fn minimal_len(v: u64) -> usize {
    if v < 1 << 6 {
        1
    } else if v < 1 << 14 {
        2
    } else if v < 1 << 30 {
        4
    } else {
        8
    }
}

#[derive(Debug, Clone, Copy, PartialEq, Eq)]
enum RefType {
    Truncated,
    Unknown,
    Known { permitted: bool, minimal: bool },
}

/// RFC 9000 Table 3 (column "Pkts"), RFC 9221 §4 for DATAGRAM, and gm-quic's own extension
/// frames 0x3d7e90..=0x3d7e96 (application-data frames, 0-RTT and 1-RTT only).
fn ref_frame_type(b: &[u8], pt: Pt) -> RefType {
    let Some((ty, len)) = ref_varint(b) else {
        return RefType::Truncated;
    };
    let (i, h, o, l) = (
        pt == Pt::Initial,
        pt == Pt::Handshake,
        pt == Pt::ZeroRtt,
        pt == Pt::OneRtt,
    );
    let permitted = match ty {
        0x00 | 0x01 => i | h | o | l,
        0x02 | 0x03 => i | h | l,
        0x04 | 0x05 => o | l,
        0x06 => i | h | l,
        0x07 => l,
        0x08..=0x0f => o | l,
        0x10..=0x1a => o | l,
        0x1b => l,
        0x1c => i | h | o | l,
        0x1d => o | l,
        0x1e => l,
        0x30 | 0x31 => o | l,
        0x3d7e90..=0x3d7e96 => o | l,
        _ => return RefType::Unknown,
    };
    RefType::Known {
        permitted,
        minimal: len == minimal_len(ty),
    }
}

fn kind_name(k: ErrorKind) -> String {
    format!("{k:?}")
}

// ------------------------------------------------------------------------------------------
// eval
// ------------------------------------------------------------------------------------------

/// What one evaluation looked like, for `--replay` printing.
#[derive(Debug, Default)]
pub struct Trace {
    pub lines: Vec<String>,
}

// ------------------------------------------------------------------------------------------
// process-killing inputs: an abort inside a decoder (allocation failure, double panic) cannot be
// caught; a SIGABRT handler turns it into a verdict that names the input being decoded
// ------------------------------------------------------------------------------------------

thread_local! {
    /// (pointer, length) of the input the current thread is decoding
    static CRUMB: std::cell::Cell<(*const u8, usize)> = const { std::cell::Cell::new((std::ptr::null(), 0)) };
}

static ABORT_REPLAY_PATH: std::sync::OnceLock<std::ffi::CString> = std::sync::OnceLock::new();
static ABORT_PROPERTY: std::sync::OnceLock<String> = std::sync::OnceLock::new();

fn wr(fd: i32, b: &[u8]) {
    unsafe {
        libc::write(fd, b.as_ptr() as *const libc::c_void, b.len());
    }
}

extern "C" fn on_sigabrt(_sig: libc::c_int) {
    // no allocation in here: the allocator is what just failed
    let (ptr, len) = CRUMB.with(|c| c.get());
    let mut hex = [0u8; 4096];
    let mut n = 0usize;
    if !ptr.is_null() {
        let input = unsafe { std::slice::from_raw_parts(ptr, len) };
        for b in input.iter().take(hex.len() / 2) {
            hex[n] = b"0123456789abcdef"[(b >> 4) as usize];
            hex[n + 1] = b"0123456789abcdef"[(b & 15) as usize];
            n += 2;
        }
    }
    let prop = ABORT_PROPERTY.get().map(|s| s.as_bytes()).unwrap_or(b"C03");
    if let Some(path) = ABORT_REPLAY_PATH.get() {
        let fd = unsafe { libc::open(path.as_ptr(), libc::O_WRONLY | libc::O_CREAT | libc::O_TRUNC, 0o644) };
        if fd >= 0 {
            wr(fd, b"{\"property\": \"");
            wr(fd, prop);
            wr(fd, b"\", \"signature\": \"abort/decoder-killed-the-process\", \"detail\": \"SIGABRT while this input was being decoded (allocation failure or abort inside the decoder)\", \"replay\": {\"input_hex\": \"");
            wr(fd, &hex[..n]);
            wr(fd, b"\"}}\n");
            unsafe { libc::close(fd) };
        }
        wr(1, b"VIOLATION property=");
        wr(1, prop);
        wr(1, b" replay=");
        wr(1, path.as_bytes());
        wr(1, b"\n");
    }
    wr(1, b"  signature: abort/decoder-killed-the-process\n  detail: the process received SIGABRT (allocation failure or abort inside the decoder) while decoding the input ");
    wr(1, &hex[..n]);
    wr(1, b"\n");
    unsafe { libc::_exit(1) };
}

/// Installs the SIGABRT handler (once per process).
pub fn install_abort_verdict(property: &str) {
    let root = std::env::var("VERIF_ROOT").unwrap_or_else(|_| "/verif".into());
    let dir = format!("{root}/replays/{property}");
    let _ = std::fs::create_dir_all(&dir);
    let _ = ABORT_REPLAY_PATH.set(std::ffi::CString::new(format!("{dir}/abort_decoder-killed-the-process.json")).unwrap());
    let _ = ABORT_PROPERTY.set(property.to_string());
    unsafe {
        libc::signal(libc::SIGABRT, on_sigabrt as *const () as libc::sighandler_t);
    }
}

pub fn eval(entry: Entry, input: &[u8], acc: &mut Acc, mut trace: Option<&mut Trace>) {
    CRUMB.with(|c| c.set((input.as_ptr(), input.len())));
    acc.evaluations += 1;
    let (some_ok, end, nontrivial) = match entry {
        Entry::Packet(n) => eval_packet(n, input, acc, &mut trace),
        Entry::Frame(pt) => eval_frame(pt, input, acc, &mut trace),
        Entry::ParamsClient | Entry::ParamsServer | Entry::ParamsRemembered => {
            eval_params(entry, input, acc, &mut trace)
        }
        _ => eval_nom(entry, input, acc, &mut trace),
    };
    if some_ok {
        acc.inputs_some_ok += 1;
    }
    let key = (some_ok, end);
    *acc.outcomes.entry(key).or_default() += 1;
    match acc.examples.get_mut(&key) {
        Some(e) if e.len() <= input.len() => {}
        Some(e) => *e = input.to_vec(),
        None => {
            acc.examples.insert(key, input.to_vec());
        }
    }
    if nontrivial {
        let sigma = |b: &[u8]| b.iter().all(|x| super::inputs::SIGMA.contains(x));
        if acc.enumerated {
            acc.nontrivial_enum += 1;
        } else if input.len() <= acc.fb_tail_max + 1 && (input.is_empty() || sigma(&input[1..])) {
            // contained in the (always executed) empty / first-byte families
        } else if (5..=7).contains(&input.len()) && sigma(input) {
            acc.sigma_like.push((input.len(), fnv(input)));
        } else {
            acc.nontrivial.push(fnv(input));
        }
    }
}

fn tr(trace: &mut Option<&mut Trace>, f: impl FnOnce() -> String) {
    if let Some(t) = trace {
        t.lines.push(f());
    }
}

fn record_panic(entry: Entry, p: &PanicInfo, input: &[u8], acc: &mut Acc) {
    acc.inputs_panic += 1;
    let sig = format!("panic/{}@{}", panic_class(p), entry.api());
    acc.viol(&sig, input, || {
        format!(
            "{} ({}) panicked at {}: {} — input {}",
            entry.api(),
            entry.name(),
            p.location,
            p.message,
            hex(input)
        )
    });
}

fn packet_err_name(e: &PacketError) -> &'static str {
    match e {
        PacketError::UnsupportedVersion(_) => "Err(UnsupportedVersion)",
        PacketError::InvalidFixedBit => "Err(InvalidFixedBit)",
        PacketError::IncompleteType(_) => "Err(IncompleteType)",
        PacketError::IncompleteHeader(..) => "Err(IncompleteHeader)",
        PacketError::IncompletePacket(..) => "Err(IncompletePacket)",
        PacketError::UnderSampling(..) => "Err(UnderSampling)",
        PacketError::RemoveProtectionFailure => "Err(RemoveProtectionFailure)",
        PacketError::InvalidReservedBits(..) => "Err(InvalidReservedBits)",
        PacketError::DecryptPacketFailure => "Err(DecryptPacketFailure)",
    }
}

fn eval_packet(
    dcid_len: usize,
    input: &[u8],
    acc: &mut Acc,
    trace: &mut Option<&mut Trace>,
) -> (bool, &'static str, bool) {
    let entry = Entry::Packet(dcid_len);
    let mut rd = PacketReader::new(BytesMut::from(input), dcid_len);
    let cap = input.len() + 2;
    let mut steps = 0usize;
    let mut consumed = 0usize;
    let mut ok_items = 0u64;
    let mut nontrivial = false;
    let end: &'static str = loop {
        steps += 1;
        if steps > cap {
            acc.viol("hang/no-progress@PacketReader::next", input, || {
                format!(
                    "PacketReader (dcid_len {dcid_len}) still yields items after {cap} steps on a {}-byte datagram {}",
                    input.len(),
                    hex(input)
                )
            });
            break "step-cap";
        }
        let item = match panics::catch(|| rd.next()) {
            Ok(it) => it,
            Err(p) => {
                tr(trace, || format!("step {steps}: PANIC at {}: {}", p.location, p.message));
                record_panic(entry, &p, input, acc);
                nontrivial = true;
                break "panic";
            }
        };
        match item {
            None => {
                tr(trace, || format!("step {steps}: None"));
                break "None";
            }
            Some(Ok(pkt)) => {
                ok_items += 1;
                nontrivial = true;
                match pkt {
                    Packet::VN(h) => {
                        *acc.item_kinds.entry("VN").or_default() += 1;
                        tr(trace, || format!("step {steps}: Ok(VN versions={:?})", h.versions()));
                        let cids = h.dcid().len() + h.scid().len();
                        if h.versions().len() * 4 + cids + 7 > input.len() - consumed {
                            acc.viol("bounds/vn-longer-than-input@PacketReader::next", input, || {
                                format!(
                                    "VN header with {} versions and {cids} cid bytes decoded from {} bytes: {}",
                                    h.versions().len(),
                                    input.len() - consumed,
                                    hex(input)
                                )
                            });
                        }
                        consumed = input.len();
                    }
                    Packet::Retry(h) => {
                        *acc.item_kinds.entry("Retry").or_default() += 1;
                        tr(trace, || format!("step {steps}: Ok(Retry token_len={})", h.token().len()));
                        let cids = h.dcid().len() + h.scid().len();
                        if h.token().len() + 16 + cids + 7 > input.len() - consumed {
                            acc.viol("bounds/retry-longer-than-input@PacketReader::next", input, || {
                                format!(
                                    "Retry header with {}-byte token decoded from {} bytes: {}",
                                    h.token().len(),
                                    input.len() - consumed,
                                    hex(input)
                                )
                            });
                        }
                        consumed = input.len();
                    }
                    Packet::Data(p) => {
                        let kind = match &p.header {
                            DataHeader::Long(long::DataHeader::Initial(_)) => "Initial",
                            DataHeader::Long(long::DataHeader::ZeroRtt(_)) => "ZeroRtt",
                            DataHeader::Long(long::DataHeader::Handshake(_)) => "Handshake",
                            DataHeader::Short(_) => "OneRtt",
                        };
                        *acc.item_kinds.entry(kind).or_default() += 1;
                        let n = p.bytes.len();
                        tr(trace, || {
                            format!("step {steps}: Ok({kind} bytes={n} payload_offset={})", p.offset)
                        });
                        if n == 0 {
                            acc.viol("hang/no-progress@PacketReader::next", input, || {
                                format!(
                                    "PacketReader (dcid_len {dcid_len}) returned an Ok {kind} packet of 0 bytes at offset {consumed} of {}",
                                    hex(input)
                                )
                            });
                        }
                        if consumed + n > input.len() {
                            acc.viol("bounds/packet-longer-than-input@PacketReader::next", input, || {
                                format!(
                                    "{kind} packet of {n} bytes at offset {consumed} of a {}-byte datagram {}",
                                    input.len(),
                                    hex(input)
                                )
                            });
                        } else if p.bytes[..] != input[consumed..consumed + n] {
                            acc.viol("misframe/packet-bytes-differ-from-datagram-slice@PacketReader::next", input, || {
                                format!(
                                    "{kind} packet bytes {} are not datagram[{consumed}..{}] of {}",
                                    hex(&p.bytes),
                                    consumed + n,
                                    hex(input)
                                )
                            });
                        }
                        // RFC 9001 §5.4.2: a packet too short to take the 16-byte header
                        // protection sample 4 bytes behind the pn offset MUST be discarded
                        if n >= p.offset && n - p.offset < 20 {
                            acc.viol("drop/undersized-packet-not-dropped@PacketReader::next", input, || {
                                format!(
                                    "{kind} packet with only {} bytes behind the header (a header-protection sample needs 20) was returned instead of being dropped: {}",
                                    n - p.offset,
                                    hex(input)
                                )
                            });
                        }
                        if p.offset > n {
                            acc.viol("bounds/payload-offset-beyond-packet@PacketReader::next", input, || {
                                format!(
                                    "{kind} packet of {n} bytes reports payload offset {}: {}",
                                    p.offset,
                                    hex(input)
                                )
                            });
                        }
                        let hdr_len = match &p.header {
                            DataHeader::Long(long::DataHeader::Initial(h)) => {
                                h.dcid().len() + h.scid().len() + h.token().len()
                            }
                            DataHeader::Long(long::DataHeader::ZeroRtt(h)) => {
                                h.dcid().len() + h.scid().len()
                            }
                            DataHeader::Long(long::DataHeader::Handshake(h)) => {
                                h.dcid().len() + h.scid().len()
                            }
                            DataHeader::Short(h) => h.dcid().len(),
                        };
                        if hdr_len > n {
                            acc.viol("bounds/header-fields-longer-than-packet@PacketReader::next", input, || {
                                format!(
                                    "{kind} header carries {hdr_len} bytes of cid/token but the packet is {n} bytes: {}",
                                    hex(input)
                                )
                            });
                        }
                        consumed += n;
                    }
                }
                if ok_items as usize > input.len() {
                    acc.viol("hang/more-items-than-bytes@PacketReader::next", input, || {
                        format!("{ok_items} packets from a {}-byte datagram {}", input.len(), hex(input))
                    });
                }
            }
            Some(Err(e)) => {
                acc.inputs_err += 1;
                let name = packet_err_name(&e);
                tr(trace, || format!("step {steps}: Err({e})"));
                if !matches!(
                    e,
                    PacketError::IncompleteType(_)
                        | PacketError::UnsupportedVersion(_)
                        | PacketError::InvalidFixedBit
                ) {
                    nontrivial = true;
                }
                // "a malformed datagram is simply dropped": nothing more comes out of it
                match panics::catch(|| rd.next()) {
                    Ok(None) => tr(trace, || "after error: None (rest dropped)".into()),
                    Ok(Some(r)) => {
                        let what = match &r {
                            Ok(_) => "Ok(packet)".to_string(),
                            Err(e2) => format!("Err({e2})"),
                        };
                        acc.viol("drop/reader-not-exhausted-after-error@PacketReader::next", input, || {
                            format!(
                                "after {name} the reader (dcid_len {dcid_len}) yielded {what} instead of dropping the rest of {}",
                                hex(input)
                            )
                        });
                    }
                    Err(p) => record_panic(entry, &p, input, acc),
                }
                break name;
            }
        }
    };
    acc.items_ok += ok_items;
    (ok_items > 0, end, nontrivial)
}

fn frame_kind(f: &Frame) -> &'static str {
    match f {
        Frame::Padding(_) => "Padding",
        Frame::Ping(_) => "Ping",
        Frame::Ack(_) => "Ack",
        Frame::Close(_) => "Close",
        Frame::NewToken(_) => "NewToken",
        Frame::MaxData(_) => "MaxData",
        Frame::DataBlocked(_) => "DataBlocked",
        Frame::NewConnectionId(_) => "NewConnectionId",
        Frame::RetireConnectionId(_) => "RetireConnectionId",
        Frame::HandshakeDone(_) => "HandshakeDone",
        Frame::PathChallenge(_) => "PathChallenge",
        Frame::PathResponse(_) => "PathResponse",
        Frame::StreamCtl(_) => "StreamCtl",
        Frame::Stream(..) => "Stream",
        Frame::Crypto(..) => "Crypto",
        Frame::Datagram(..) => "Datagram",
        Frame::AddAddress(_) => "AddAddress",
        Frame::RemoveAddress(_) => "RemoveAddress",
        Frame::PunchMeNow(_) => "PunchMeNow",
        Frame::PunchHello(_) => "PunchHello",
        Frame::PunchDone(_) => "PunchDone",
    }
}

fn frame_err_name(e: &FrameError) -> &'static str {
    match e {
        FrameError::NoFrames => "Err(NoFrames)",
        FrameError::IncompleteType(_) => "Err(IncompleteType)",
        FrameError::InvalidType(_) => "Err(InvalidType)",
        FrameError::WrongType(..) => "Err(WrongType)",
        FrameError::IncompleteFrame(..) => "Err(IncompleteFrame)",
        FrameError::ParseError(..) => "Err(ParseError)",
    }
}

/// `Some((what, decoded, allowed))` when a length carried by the decoded frame is larger than
/// the bytes the frame was decoded from.
fn frame_length_excess(f: &Frame, consumed: usize) -> Option<(&'static str, usize, usize)> {
    match f {
        Frame::Stream(sf, data) => {
            if data.len() != sf.len() {
                Some(("stream data vs length field", data.len(), sf.len()))
            } else if data.len() > consumed {
                Some(("stream data", data.len(), consumed))
            } else {
                None
            }
        }
        Frame::Crypto(cf, data) => {
            if data.len() as u64 != cf.len() {
                Some(("crypto data vs length field", data.len(), cf.len() as usize))
            } else if data.len() > consumed {
                Some(("crypto data", data.len(), consumed))
            } else {
                None
            }
        }
        Frame::Datagram(df, data) => {
            if df.encode_len() && df.len().into_u64() != data.len() as u64 {
                Some(("datagram data vs length field", data.len(), df.len().into_u64() as usize))
            } else if data.len() > consumed {
                Some(("datagram data", data.len(), consumed))
            } else {
                None
            }
        }
        Frame::NewToken(t) => (t.token().len() > consumed).then(|| ("token", t.token().len(), consumed)),
        Frame::Ack(a) => {
            (a.ranges().len() * 2 > consumed).then(|| ("ack ranges", a.ranges().len(), consumed / 2))
        }
        Frame::Close(c) => {
            let n = match c {
                ConnectionCloseFrame::Quic(q) => q.reason().len(),
                ConnectionCloseFrame::App(a) => a.reason().len(),
            };
            // invalid UTF-8 is replaced lossily: one input byte becomes at most 3 bytes
            (n > consumed * 3).then(|| ("close reason", n, consumed * 3))
        }
        _ => None,
    }
}

fn eval_frame(
    pt: Pt,
    input: &[u8],
    acc: &mut Acc,
    trace: &mut Option<&mut Trace>,
) -> (bool, &'static str, bool) {
    let entry = Entry::Frame(pt);
    let mut rd = FrameReader::new(Bytes::copy_from_slice(input), pt.ty());
    let cap = input.len() + 2;
    let mut steps = 0usize;
    let mut ok_items = 0u64;
    let mut nontrivial = false;
    let end: &'static str = loop {
        steps += 1;
        if steps > cap {
            acc.viol("hang/no-progress@FrameReader::next", input, || {
                format!(
                    "FrameReader ({}) still yields items after {cap} steps on a {}-byte payload {}",
                    pt.name(),
                    input.len(),
                    hex(input)
                )
            });
            break "step-cap";
        }
        let before = rd.len();
        let off = input.len() - before;
        let item = match panics::catch(|| rd.next()) {
            Ok(it) => it,
            Err(p) => {
                tr(trace, || format!("step {steps}: PANIC at {}: {}", p.location, p.message));
                record_panic(entry, &p, input, acc);
                nontrivial = true;
                break "panic";
            }
        };
        match item {
            None => {
                tr(trace, || format!("step {steps}: None ({before} bytes left)"));
                if before != 0 {
                    acc.viol("misframe/none-with-bytes-left@FrameReader::next", input, || {
                        format!(
                            "FrameReader ({}) ended with {before} undecoded bytes of {}",
                            pt.name(),
                            hex(input)
                        )
                    });
                }
                // (an empty payload yields no frame and no error here: the PROTOCOL_VIOLATION of
                // RFC 9000 §12.4 is raised by the caller of the reader, read_plain_packet, and
                // judged there by the packet-level part of this check, h-conn C03c)
                break "None";
            }
            Some(Ok((frame, fty))) => {
                ok_items += 1;
                nontrivial = true;
                let after = rd.len();
                let kind = frame_kind(&frame);
                *acc.item_kinds.entry(kind).or_default() += 1;
                tr(trace, || {
                    format!("step {steps}: Ok({fty:?}) consumed {} bytes", before.saturating_sub(after))
                });
                if after >= before {
                    acc.viol("hang/no-progress@FrameReader::next", input, || {
                        format!(
                            "FrameReader ({}) returned Ok({fty:?}) at offset {off} without consuming input ({before} -> {after} bytes left): {}",
                            pt.name(),
                            hex(input)
                        )
                    });
                    break "no-progress";
                }
                let consumed = before - after;
                match ref_frame_type(&input[off..], pt) {
                    RefType::Known { permitted: true, .. } => {}
                    other => {
                        let sig = match other {
                            RefType::Known { .. } => "misframe/accepted-frame-not-permitted-in-packet-type@FrameReader::next",
                            RefType::Unknown => "misframe/accepted-unknown-frame-type@FrameReader::next",
                            _ => "misframe/accepted-truncated-frame-type@FrameReader::next",
                        };
                        acc.viol(sig, input, || {
                            format!(
                                "FrameReader ({}) accepted {fty:?} at offset {off} of {} ({other:?} by RFC 9000 table 3)",
                                pt.name(),
                                hex(input)
                            )
                        });
                    }
                }
                if let Some((what, got, allowed)) = frame_length_excess(&frame, consumed) {
                    acc.viol("bounds/frame-length-exceeds-input@FrameReader::next", input, || {
                        format!(
                            "{kind} decoded from {consumed} bytes at offset {off} carries {what} = {got} (> {allowed}): {}",
                            hex(input)
                        )
                    });
                }
                // "yields either well-formed values or an error": RFC 9000 §19.8 / §19.6 — the
                // largest offset delivered on a stream (offset + length) cannot exceed 2^62-1;
                // receipt of a frame that exceeds it is a FRAME_ENCODING_ERROR
                {
                    const VMAX: u64 = (1 << 62) - 1;
                    let over = match &frame {
                        Frame::Stream(sf, data) => sf.offset().checked_add(data.len() as u64).is_none_or(|e| e > VMAX).then_some("STREAM"),
                        Frame::Crypto(cf, data) => cf.offset().checked_add(data.len() as u64).is_none_or(|e| e > VMAX).then_some("CRYPTO"),
                        _ => None,
                    };
                    if let Some(which) = over {
                        acc.viol(&format!("malformed-value/{which}-offset-plus-length-exceeds-2^62-1@FrameReader::next"), input, || {
                            format!(
                                "FrameReader ({}) decoded a {which} frame whose offset + data length exceeds 2^62-1 instead of answering FRAME_ENCODING_ERROR: {kind} from {}",
                                pt.name(),
                                hex(input)
                            )
                        });
                    }
                }
                if ok_items as usize > input.len() {
                    acc.viol("hang/more-items-than-bytes@FrameReader::next", input, || {
                        format!("{ok_items} frames from a {}-byte payload {}", input.len(), hex(input))
                    });
                }
            }
            Some(Err(e)) => {
                acc.inputs_err += 1;
                let name = frame_err_name(&e);
                if matches!(e, FrameError::IncompleteFrame(..) | FrameError::ParseError(..)) {
                    nontrivial = true;
                }
                let shown = e.to_string();
                // the crate's own conversion, as qconnection/src/space.rs uses it
                let qe = match panics::catch(|| QuicError::from(e)) {
                    Ok(q) => q,
                    Err(p) => {
                        record_panic(entry, &p, input, acc);
                        break "panic";
                    }
                };
                let got = qe.kind();
                *acc.quic_kinds.entry(kind_name(got)).or_default() += 1;
                tr(trace, || format!("step {steps}: Err({shown}) -> QuicError kind {got:?}"));
                let r = ref_frame_type(&input[off..], pt);
                let (situation, ok) = match r {
                    RefType::Truncated => ("truncated-frame-type", got == ErrorKind::FrameEncoding),
                    RefType::Unknown => ("unknown-frame-type", got == ErrorKind::FrameEncoding),
                    RefType::Known { permitted: false, .. } => (
                        "frame-not-permitted-in-packet-type",
                        got == ErrorKind::ProtocolViolation,
                    ),
                    RefType::Known { permitted: true, minimal } => (
                        "malformed-frame",
                        got == ErrorKind::FrameEncoding
                            // RFC 9000 §12.4: a non-minimal type encoding MAY be a PROTOCOL_VIOLATION
                            || (!minimal && got == ErrorKind::ProtocolViolation),
                    ),
                };
                if !ok {
                    let sig = format!("error-kind/{situation}/got-{got:?}@FrameReader::next");
                    acc.viol(&sig, input, || {
                        let want = if situation == "frame-not-permitted-in-packet-type" {
                            "PROTOCOL_VIOLATION (RFC 9000 §12.4: a frame in a packet type that does not permit it)"
                        } else {
                            "FRAME_ENCODING_ERROR"
                        };
                        format!(
                            "{} payload {} : frame at offset {off} fails with `{shown}`, converted to {got:?}; the protocol prescribes {want}",
                            pt.name(),
                            hex(input)
                        )
                    });
                }
                break name;
            }
        }
    };
    acc.items_ok += ok_items;
    (ok_items > 0, end, nontrivial)
}

/// first `id, length, value` triple complete (own decoder)?
fn first_tlv_complete(b: &[u8]) -> bool {
    let Some((_, n1)) = ref_varint(b) else {
        return false;
    };
    let Some((len, n2)) = ref_varint(&b[n1..]) else {
        return false;
    };
    (b.len() - n1 - n2) as u64 >= len
}

fn eval_params(
    entry: Entry,
    input: &[u8],
    acc: &mut Acc,
    trace: &mut Option<&mut Trace>,
) -> (bool, &'static str, bool) {
    let r: Result<Result<usize, QuicError>, PanicInfo> = match entry {
        Entry::ParamsClient => panics::catch(|| {
            ClientParameters::parse_from_bytes(input).map(|p| if p.is_empty() { 0 } else { 1 })
        }),
        Entry::ParamsServer => panics::catch(|| {
            ServerParameters::parse_from_bytes(input).map(|p| if p.is_empty() { 0 } else { 1 })
        }),
        _ => panics::catch(|| {
            ServerParameters::try_from_remembered_bytes(input).map(|p| if p.is_empty() { 0 } else { 1 })
        }),
    };
    let tlv = first_tlv_complete(input);
    match r {
        Err(p) => {
            tr(trace, || format!("PANIC at {}: {}", p.location, p.message));
            record_panic(entry, &p, input, acc);
            (false, "panic", true)
        }
        Ok(Ok(nonempty)) => {
            tr(trace, || format!("Ok(parameters, {})", if nonempty == 1 { "non-empty" } else { "empty" }));
            acc.items_ok += 1;
            *acc.item_kinds
                .entry(if nonempty == 1 { "Parameters(non-empty)" } else { "Parameters(empty)" })
                .or_default() += 1;
            (true, "Ok", true)
        }
        Ok(Err(qe)) => {
            acc.inputs_err += 1;
            let got = qe.kind();
            *acc.quic_kinds.entry(kind_name(got)).or_default() += 1;
            tr(trace, || format!("Err(kind {got:?}: {})", qe.reason()));
            if got != ErrorKind::TransportParameter {
                let sig = format!("error-kind/transport-parameters/got-{got:?}@{}", entry.api());
                acc.viol(&sig, input, || {
                    format!(
                        "{} on {} fails with kind {got:?} ({}); RFC 9000 §7.4 prescribes TRANSPORT_PARAMETER_ERROR",
                        entry.api(),
                        hex(input),
                        qe.reason()
                    )
                });
            }
            let end = {
                let r = qe.reason();
                if r.starts_with("Incomplete parameter id") {
                    "Err(Incomplete)"
                } else if r.starts_with("Lack ") {
                    "Err(LackParameterId)"
                } else if r.contains("is not belong to") {
                    "Err(InvalidParameterId)"
                } else if r.contains("out of bounds") {
                    "Err(OutOfBounds)"
                } else if r.contains("is not supported for") {
                    "Err(InvalidValueType)"
                } else {
                    "Err(other)"
                }
            };
            (false, end, tlv)
        }
    }
}

fn eval_nom(
    entry: Entry,
    input: &[u8],
    acc: &mut Acc,
    trace: &mut Option<&mut Trace>,
) -> (bool, &'static str, bool) {
    // Ok(consumed) / Err(kind of nom error)
    let r: Result<Result<usize, &'static str>, PanicInfo> = panics::catch(|| {
        fn conv<T>(input: &[u8], r: nom::IResult<&[u8], T>) -> Result<usize, &'static str> {
            match r {
                Ok((remain, _)) => {
                    // the remainder must be a suffix of the input
                    let ok = remain.len() <= input.len()
                        && std::ptr::eq(
                            remain.as_ptr(),
                            input[input.len() - remain.len()..].as_ptr(),
                        );
                    if ok { Ok(input.len() - remain.len()) } else { Err("remain-not-a-suffix") }
                }
                Err(nom::Err::Incomplete(_)) => Err("Err(Incomplete)"),
                Err(nom::Err::Error(_)) => Err("Err(Error)"),
                Err(nom::Err::Failure(_)) => Err("Err(Failure)"),
            }
        }
        match entry {
            Entry::PreferredAddress => {
                conv(input, qbase::param::preferred_address::be_preferred_address(input))
            }
            Entry::SocketAddr(f) => conv(input, qbase::net::be_socket_addr(input, f)),
            Entry::ConnectionId => conv(input, qbase::cid::be_connection_id(input)),
            _ => conv(input, qbase::varint::be_varint(input)),
        }
    });
    match r {
        Err(p) => {
            tr(trace, || format!("PANIC at {}: {}", p.location, p.message));
            record_panic(entry, &p, input, acc);
            (false, "panic", true)
        }
        Ok(Ok(consumed)) => {
            tr(trace, || format!("Ok, consumed {consumed} of {} bytes", input.len()));
            acc.items_ok += 1;
            let min = match entry {
                Entry::PreferredAddress => 6 + 18 + 1 + 16,
                Entry::SocketAddr(Family::V4) => 6,
                Entry::SocketAddr(Family::V6) => 18,
                _ => 1,
            };
            if consumed < min {
                let sig = format!("hang/no-progress@{}", entry.api());
                acc.viol(&sig, input, || {
                    format!(
                        "{} returned Ok having consumed {consumed} bytes (< {min}) of {}",
                        entry.api(),
                        hex(input)
                    )
                });
            }
            (true, "Ok", true)
        }
        Ok(Err("remain-not-a-suffix")) => {
            let sig = format!("bounds/remainder-not-a-suffix@{}", entry.api());
            acc.viol(&sig, input, || {
                format!("{} returned a remainder that is not a suffix of {}", entry.api(), hex(input))
            });
            (false, "remain-not-a-suffix", true)
        }
        Ok(Err(e)) => {
            acc.inputs_err += 1;
            tr(trace, || e.to_string());
            (false, e, false)
        }
    }
}

/// Shrinks a witness while it keeps producing `sig` (greedy chunk removal, then zeroing of
/// bytes): deterministic, a few hundred evaluations.
pub fn minimize(entry: Entry, sig: &str, input: &[u8]) -> Vec<u8> {
    let still = |cand: &[u8]| {
        let mut a = Acc::default();
        eval(entry, cand, &mut a, None);
        a.violations.contains_key(sig)
    };
    let mut cur = input.to_vec();
    if !still(&cur) {
        return cur;
    }
    loop {
        let mut changed = false;
        let mut chunk = (cur.len() / 2).max(1);
        while chunk >= 1 {
            let mut i = 0;
            while i + chunk <= cur.len() {
                let mut cand = cur.clone();
                cand.drain(i..i + chunk);
                if still(&cand) {
                    cur = cand;
                    changed = true;
                } else {
                    i += 1;
                }
            }
            if chunk == 1 {
                break;
            }
            chunk /= 2;
        }
        if !changed {
            break;
        }
    }
    for i in 0..cur.len() {
        if cur[i] != 0 {
            let old = cur[i];
            cur[i] = 0;
            if !still(&cur) {
                cur[i] = old;
            }
        }
    }
    cur
}
