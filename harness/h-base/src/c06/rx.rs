//! The receive wrapper `qinterface::component::route::packet::CipherPacket::{decrypt_long_packet,
//! decrypt_short_packet}`, replicated statement for statement over the same qbase functions
//! (h-base links qbase only; the wrapper is qlog events + the call sequence below). The text of
//! the real functions is fingerprinted at run time ([`wrapper_fingerprint_matches`]) so that a
//! change in the real wrapper is reported as a coverage cap instead of going unnoticed.
use bytes::{Bytes, BytesMut};
use qbase::{
    error::QuicError,
    packet::{
        KeyPhaseBit,
        decrypt::{
            decrypt_packet, remove_protection_of_long_packet, remove_protection_of_short_packet,
        },
        keys::ArcOneRttPacketKeys,
        number::{InvalidPacketNumber, PacketNumber},
    },
};
use rustls::quic::{HeaderProtectionKey, PacketKey};

pub const WRAPPER_SOURCE: &str = "/repo/qinterface/src/component/route/packet.rs";
/// FNV-1a/64 of the whitespace-stripped text from `pub fn decrypt_long_packet(` up to
/// `impl CipherPacket<InitialHeader>` in [`WRAPPER_SOURCE`] as of the replicated revision.
pub const WRAPPER_FNV: u64 = 0x92b1_d93a_36b6_2c5a;

pub fn wrapper_fingerprint() -> Result<u64, String> {
    let s = std::fs::read_to_string(WRAPPER_SOURCE).map_err(|e| e.to_string())?;
    let a = s
        .find("pub fn decrypt_long_packet(")
        .ok_or("decrypt_long_packet not found")?;
    let b = s
        .find("impl CipherPacket<InitialHeader>")
        .ok_or("end marker not found")?;
    if b <= a {
        return Err("markers out of order".into());
    }
    let mut h: u64 = 0xcbf2_9ce4_8422_2325;
    for c in s[a..b].bytes().filter(|c| !c.is_ascii_whitespace()) {
        h ^= c as u64;
        h = h.wrapping_mul(0x0000_0100_0000_01b3);
    }
    Ok(h)
}

/// How far a packet got inside the wrapper (for the evidence histogram).
#[derive(Debug, Clone, Copy, PartialEq, Eq)]
pub enum Stage {
    HeaderProtection,
    ReservedBits,
    PnDecoder,
    Aead,
    Done,
}

pub struct PlainPacket {
    pub decoded_pn: u64,
    pub undecoded_pn: PacketNumber,
    pub plain: Bytes,
    pub payload_offset: usize,
    pub body_len: usize,
    /// short header only: the key phase bit seen after header-protection removal
    pub key_phase: Option<KeyPhaseBit>,
}

impl PlainPacket {
    pub fn body(&self) -> Bytes {
        let packet_offset = self.payload_offset + self.undecoded_pn.size();
        self.plain
            .slice(packet_offset..packet_offset + self.body_len)
    }
}

/// `CipherPacket::decrypt_long_packet`
pub fn decrypt_long_packet(
    mut payload: BytesMut,
    payload_offset: usize,
    hpk: &dyn HeaderProtectionKey,
    pk: &dyn PacketKey,
    pn_decoder: impl FnOnce(PacketNumber) -> Result<u64, InvalidPacketNumber>,
    stage: &mut Stage,
) -> Option<Result<PlainPacket, QuicError>> {
    let pkt_buf = payload.as_mut();
    *stage = Stage::HeaderProtection;
    let undecoded_pn = match remove_protection_of_long_packet(hpk, pkt_buf, payload_offset) {
        Ok(Some(undecoded_pn)) => undecoded_pn,
        Ok(None) => {
            return None;
        }
        Err(invalid_reverse_bits) => {
            *stage = Stage::ReservedBits;
            return Some(Err(invalid_reverse_bits.into()));
        }
    };
    *stage = Stage::PnDecoder;
    let decoded_pn = match pn_decoder(undecoded_pn) {
        Ok(pn) => pn,
        Err(_invalid_packet_number) => {
            return None;
        }
    };
    *stage = Stage::Aead;
    let body_offset = payload_offset + undecoded_pn.size();
    let body_length = match decrypt_packet(pk, decoded_pn, pkt_buf, body_offset) {
        Ok(body_length) => body_length,
        Err(_error) => {
            return None;
        }
    };
    *stage = Stage::Done;
    Some(Ok(PlainPacket {
        plain: payload.freeze(),
        payload_offset,
        undecoded_pn,
        decoded_pn,
        body_len: body_length,
        key_phase: None,
    }))
}

/// `CipherPacket::decrypt_short_packet`
pub fn decrypt_short_packet(
    mut payload: BytesMut,
    payload_offset: usize,
    hpk: &dyn HeaderProtectionKey,
    pk: &ArcOneRttPacketKeys,
    pn_decoder: impl FnOnce(PacketNumber) -> Result<u64, InvalidPacketNumber>,
    stage: &mut Stage,
) -> Option<Result<PlainPacket, QuicError>> {
    let pkt_buf = payload.as_mut();
    *stage = Stage::HeaderProtection;
    let (undecoded_pn, key_phase) =
        match remove_protection_of_short_packet(hpk, pkt_buf, payload_offset) {
            Ok(Some((undecoded, key_phase))) => (undecoded, key_phase),
            Ok(None) => {
                return None;
            }
            Err(invalid_reverse_bits) => {
                *stage = Stage::ReservedBits;
                return Some(Err(invalid_reverse_bits.into()));
            }
        };
    *stage = Stage::PnDecoder;
    let decoded_pn = match pn_decoder(undecoded_pn) {
        Ok(pn) => pn,
        Err(_invalid_pn) => {
            return None;
        }
    };
    *stage = Stage::Aead;
    let pk = pk.lock_guard().get_remote(key_phase, decoded_pn);
    let body_offset = payload_offset + undecoded_pn.size();
    let body_length = match decrypt_packet(pk.as_ref(), decoded_pn, pkt_buf, body_offset) {
        Ok(body_length) => body_length,
        Err(_error) => {
            return None;
        }
    };
    *stage = Stage::Done;
    Some(Ok(PlainPacket {
        plain: payload.freeze(),
        payload_offset,
        undecoded_pn,
        decoded_pn,
        body_len: body_length,
        key_phase: Some(key_phase),
    }))
}
