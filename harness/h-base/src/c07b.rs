//! C07 (b) — the truncated packet number on the wire is always reconstructed to the number sent.
//!
//! E0 exhaustive enumeration over the real `qbase::packet::number`:
//! `PacketNumber::encode(pn, largest_acked)` (what `NewPacketGuard::pn()` calls, with
//! `largest_acked_pktno` = 0 while nothing is acknowledged) → first-byte pn-length bits
//! (`LongSpecificBits::with_pn_len` → `pn_len()`) + `put_packet_number` → `take_pn_len(len)` →
//! `decode(expected)` with `expected` = largest received + 1 (`RcvdJournal::decode_pn` uses
//! `queue.largest()`, which is 0 for a receiver that has received nothing).
//!
//! Domain (property statement): pn < 2^62, pn − largest_acked ≤ 2^31 − 1 (`encode` panics
//! beyond, by contract: `test_encode_packet_number_overflow`), receiver position `expected`
//! between largest_acked + 1 and the packet itself; with nothing acknowledged the receiver may
//! have received nothing, so `expected` starts at 0.
use std::collections::BTreeSet;

use mc_core::{Args, Report, panics::catch, par::par_map, report::Coverage};
use qbase::packet::{
    GetPacketNumberLength, LongSpecificBits, PacketNumber, ShortSpecificBits, WritePacketNumber,
    take_pn_len,
};
use serde_json::{Map, Value, json};

const MAX_PN: u64 = (1 << 62) - 1;
/// `pn − largest_acked`. The design's set {1, 2, 127, 128, 129, 255, 256, 32767, 32768, 32769,
/// 2^23±1, 2^23, 2^31−2, 2^31−1} plus values strictly inside the upper half of each window
/// (where an encoding one size too small first fails to decode).
const DELTAS: [u64; 28] = [
    1,
    2,
    127,
    128,
    129,
    130,
    255,
    256,
    257,
    32767,
    32768,
    32769,
    32770,
    49152,
    65535,
    65536,
    65537,
    (1 << 23) - 1,
    1 << 23,
    (1 << 23) + 1,
    (1 << 23) + 2,
    3 << 22,
    (1 << 24) - 1,
    1 << 24,
    (1 << 24) + 1,
    1 << 30,
    (1 << 31) - 2,
    (1 << 31) - 1,
];

fn boundary_pns() -> BTreeSet<u64> {
    let mut s = BTreeSet::new();
    let mut centres = vec![MAX_PN];
    for shift in [8u32, 16, 24, 32] {
        for k in 1..=4u64 {
            centres.push(k << shift);
        }
        centres.push(255u64 << shift); // the last multiple below the next power
    }
    centres.extend([(1u64 << 31) - 1, 1 << 31, 1 << 40, 1 << 61]);
    for c in centres {
        for d in 0..=2u64 {
            if let Some(x) = c.checked_sub(d) {
                s.insert(x);
            }
            if c + d <= MAX_PN {
                s.insert(c + d);
            }
        }
    }
    s
}

/// One sender/receiver situation.
#[derive(Debug, Clone, Copy, PartialEq, Eq, PartialOrd, Ord)]
struct Triple {
    pn: u64,
    /// the sender's `largest_acked_pktno` field (0 while nothing is acked)
    la: u64,
    expected: u64,
}

#[derive(Debug)]
struct Mismatch {
    sig: String,
    detail: String,
    input: Value,
}

/// The whole path for one triple; `Ok(len)` = encoding length when the oracle holds.
fn check(t: Triple) -> Result<usize, Mismatch> {
    let input = || json!({"pn": t.pn, "largest_acked": t.la, "expected": t.expected});
    let r = catch(|| {
        let enc = PacketNumber::encode(t.pn, t.la);
        let mut buf = [0u8; 4];
        let mut w = &mut buf[..];
        w.put_packet_number(enc);
        let written = 4 - w.len();
        let wire = (buf, written);
        // the pn length travels in the two low bits of the first byte
        let first_long: u8 = *LongSpecificBits::with_pn_len(enc.size());
        let first_short: u8 = *ShortSpecificBits::with_pn_len(enc.size());
        let len_long = LongSpecificBits::from(first_long).pn_len().ok();
        let len_short = ShortSpecificBits::from(first_short).pn_len().ok();
        let parsed = match len_long {
            Some(n) => take_pn_len(n)(&wire.0[..wire.1]).map(|(rest, p)| (rest.len(), p)).ok(),
            None => None,
        };
        (enc, wire, len_long, len_short, parsed)
    });
    let (enc, (buf, written), len_long, len_short, parsed) = match r {
        Ok(x) => x,
        Err(p) => {
            return Err(Mismatch {
                sig: format!("panic/{}", p.class()),
                detail: format!(
                    "encode/parse of pn {} (largest acked {}) panicked inside the stated domain: {} at {}",
                    t.pn, t.la, p.message, p.location
                ),
                input: input(),
            });
        }
    };
    let wire = &buf[..written];
    let n = enc.size();
    if wire.len() != n || len_long != Some(n as u8) || len_short != Some(n as u8) {
        return Err(Mismatch {
            sig: "wire/length-mismatch".into(),
            detail: format!(
                "encode({}, {}) = {enc:?} (size {n}) but {} bytes written, first-byte bits say long {len_long:?} / short {len_short:?}",
                t.pn, t.la, wire.len()
            ),
            input: input(),
        });
    }
    let Some((rest, parsed)) = parsed else {
        return Err(Mismatch {
            sig: "wire/unparseable".into(),
            detail: format!("take_pn_len({n}) failed on {wire:02x?}"),
            input: input(),
        });
    };
    // compare what is on the wire, not the in-memory representation (`encode` leaves the bits
    // above 24 set inside `U24`, which `put_packet_number` never writes)
    let mut rebuf = [0u8; 4];
    let mut w = &mut rebuf[..];
    w.put_packet_number(parsed);
    let rewritten = 4 - w.len();
    let rewire = &rebuf[..rewritten];
    if rest != 0 || parsed.size() != n || rewire != wire {
        return Err(Mismatch {
            sig: "wire/parse-mismatch".into(),
            detail: format!("wrote {enc:?} as {wire:02x?}, parsed {parsed:?} (= {rewire:02x?}) with {rest} bytes left"),
            input: input(),
        });
    }
    match catch(|| parsed.decode(t.expected)) {
        Err(p) => Err(Mismatch {
            sig: format!("panic/{}", p.class()),
            detail: format!(
                "decode of {parsed:?} at receiver position {} panicked: {} at {}",
                t.expected, p.message, p.location
            ),
            input: input(),
        }),
        Ok(got) if got != t.pn => Err(Mismatch {
            sig: format!(
                "decode/wrong-pn/{}-byte/{}",
                n,
                if got > t.pn { "too-large" } else { "too-small" }
            ),
            detail: format!(
                "pn {} with largest acked {} is sent as {enc:?}; a receiver expecting {} decodes {got} (off by {})",
                t.pn,
                t.la,
                t.expected,
                got.abs_diff(t.pn)
            ),
            input: input(),
        }),
        Ok(_) => Ok(n),
    }
}

/// RFC 9000 A.3 sample algorithm (informational differential only).
fn rfc_a3(largest: Option<u64>, truncated: u64, nbits: u32) -> u64 {
    let expected = largest.map_or(0, |l| l + 1);
    let win = 1u64 << nbits;
    let hwin = win / 2;
    let mask = win - 1;
    let candidate = (expected & !mask) | truncated;
    if candidate + hwin <= expected && candidate < (1 << 62) - win {
        candidate + win
    } else if candidate > expected + hwin && candidate >= win {
        candidate - win
    } else {
        candidate
    }
}

/// Receiver positions the property quantifies over, for one (pn, la).
fn positions(pn: u64, la: u64, nothing_acked: bool, all: bool) -> Vec<u64> {
    let lo = if nothing_acked { 0 } else { la + 1 };
    if lo > pn {
        return vec![];
    }
    if all {
        return (lo..=pn).collect();
    }
    let mut v = vec![lo, lo + 1, lo + (pn - lo) / 2, pn.saturating_sub(1), pn];
    if nothing_acked {
        v.push(1);
    }
    v.retain(|e| *e >= lo && *e <= pn);
    v.sort();
    v.dedup();
    v
}

#[derive(Default)]
struct Out {
    triples: u64,
    nontrivial: u64,
    by_len: [u64; 5],
    nothing_acked: u64,
    mismatches: Vec<Mismatch>,
    beyond_dup: u64,
    beyond_dup_wrong: u64,
    rfc_disagree: u64,
    rfc_sample: Option<Value>,
    sample: Option<Value>,
}

fn run_pn(pn: u64, exhaustive_small: u64, out: &mut Out) {
    let mut seen: Vec<Triple> = Vec::new();
    let mut situations: Vec<(u64, bool)> = Vec::new(); // (la, nothing_acked)
    for d in DELTAS {
        if let Some(la) = pn.checked_sub(d) {
            situations.push((la, false));
        }
    }
    if pn < (1 << 31) {
        situations.push((0, true));
    }
    for (la, nothing) in situations {
        let all = pn - la <= exhaustive_small;
        for e in positions(pn, la, nothing, all) {
            seen.push(Triple { pn, la, expected: e });
        }
        if nothing {
            out.nothing_acked += 1;
        }
        // informational: the position just past the property's range (a duplicate arriving)
        if pn < MAX_PN {
            out.beyond_dup += 1;
            let got = catch(|| PacketNumber::encode(pn, la).decode(pn + 1));
            if got.ok() != Some(pn) {
                out.beyond_dup_wrong += 1;
            }
        }
    }
    seen.sort();
    seen.dedup();
    for t in seen {
        out.triples += 1;
        match check(t) {
            Ok(n) => {
                out.by_len[n] += 1;
                if t.pn >> (8 * n) != 0 {
                    out.nontrivial += 1;
                    if out.sample.is_none() && n >= 3 {
                        out.sample = Some(json!({"pn": t.pn, "largest_acked": t.la, "expected": t.expected, "wire_bytes": n}));
                    }
                }
                // differential against the RFC's sample decoder (never a verdict)
                let nbits = 8 * n as u32;
                let truncated = t.pn & ((1u64 << nbits) - 1);
                let rfc = rfc_a3(t.expected.checked_sub(1), truncated, nbits);
                if rfc != t.pn {
                    out.rfc_disagree += 1;
                    if out.rfc_sample.is_none() {
                        out.rfc_sample = Some(json!({"pn": t.pn, "largest_acked": t.la, "expected": t.expected, "rfc_a3": rfc}));
                    }
                }
            }
            Err(m) => {
                if out.mismatches.len() < 64 {
                    out.mismatches.push(m);
                } else {
                    // keep counting hits per signature without storing every witness
                    out.mismatches.push(Mismatch { sig: m.sig, detail: String::new(), input: Value::Null });
                }
            }
        }
    }
}

fn replay(path: &std::path::Path) -> i32 {
    let r = mc_core::report::load_replay(path);
    let i = &r["input"];
    let (Some(pn), Some(la), Some(expected)) =
        (i["pn"].as_u64(), i["largest_acked"].as_u64(), i["expected"].as_u64())
    else {
        eprintln!("replay: input needs pn, largest_acked, expected");
        return 2;
    };
    println!("replay: pn {pn}, sender's largest acked {la}, receiver expects {expected}");
    match check(Triple { pn, la, expected }) {
        Ok(n) => {
            println!("replay: sent in {n} bytes, decoded to {pn}: no violation");
            0
        }
        Err(m) => {
            println!("replay: {} — {}", m.sig, m.detail);
            1
        }
    }
}

pub fn run(args: &Args) -> i32 {
    if let Some(p) = &args.replay {
        mc_core::panics::install_hook();
        return replay(p);
    }
    let mut report = Report::new(args, "exploration");
    report.assume("sender: PacketNumber::encode(pn, SentJournal.largest_acked_pktno) with the field at 0 while nothing is acked; receiver: decode(RcvdJournal queue.largest()) = largest received + 1, 0 when nothing was received; a receiver has received at least everything the sender has seen acknowledged");

    let boundary_set: BTreeSet<u64> = boundary_pns();
    let boundary = boundary_set.len();
    let mut pns = boundary_set.clone();
    let dense: u64 = if args.thorough { 1 << 18 } else { 70_000 };
    pns.extend(0..dense);
    let pns: Vec<u64> = pns.into_iter().collect();
    // every receiver position (not only the landmarks) when pn − largest_acked is at most this:
    // for the boundary packet numbers / for the dense range
    let exhaustive_small: u64 = 32_769;
    let exhaustive_dense: u64 = if args.thorough { 256 } else { 0 };

    // work items: the boundary packet numbers sweep up to ~10^5 positions each, so one item per
    // pn; the dense range in slices
    let mut items: Vec<Vec<u64>> = boundary_set.iter().map(|p| vec![*p]).collect();
    let dense_only: Vec<u64> = pns.iter().copied().filter(|p| !boundary_set.contains(p)).collect();
    items.extend(dense_only.chunks(256).map(|c| c.to_vec()));
    let outs = par_map(&items, |chunk| {
        let mut out = Out::default();
        for pn in chunk.iter() {
            let ex = if boundary_set.contains(pn) { exhaustive_small } else { exhaustive_dense };
            run_pn(*pn, ex, &mut out);
        }
        out
    });

    let mut triples = 0u64;
    let mut nontrivial = 0u64;
    let mut by_len = [0u64; 5];
    let mut nothing = 0u64;
    let mut beyond = (0u64, 0u64);
    let mut rfc = 0u64;
    let mut rfc_sample = None;
    let mut samples = Vec::new();
    for o in outs {
        triples += o.triples;
        nontrivial += o.nontrivial;
        for i in 0..5 {
            by_len[i] += o.by_len[i];
        }
        nothing += o.nothing_acked;
        beyond.0 += o.beyond_dup;
        beyond.1 += o.beyond_dup_wrong;
        rfc += o.rfc_disagree;
        if rfc_sample.is_none() {
            rfc_sample = o.rfc_sample;
        }
        if samples.len() < 3 {
            samples.extend(o.sample);
        }
        for m in o.mismatches {
            report.violation(&m.sig, &m.detail, json!({"sub": "encode-decode", "input": m.input}));
        }
    }
    let mut extra = Map::new();
    extra.insert("packet_numbers".into(), json!(pns.len()));
    extra.insert("boundary_packet_numbers".into(), json!(boundary));
    extra.insert("dense_range".into(), json!(format!("[0, {dense})")));
    extra.insert("deltas".into(), json!(DELTAS));
    extra.insert("nothing_acked_situations".into(), json!(nothing));
    extra.insert(
        "encodings_by_length".into(),
        json!({"1": by_len[1], "2": by_len[2], "3": by_len[3], "4": by_len[4]}),
    );
    extra.insert(
        "all_positions_when_window_at_most".into(),
        json!({"boundary_packet_numbers": exhaustive_small, "dense_range": exhaustive_dense}),
    );
    extra.insert(
        "informational_duplicate_position_pn_plus_1".into(),
        json!({"evaluated": beyond.0, "decoded_to_other_pn": beyond.1}),
    );
    extra.insert(
        "informational_rfc9000_a3_disagreements_in_domain".into(),
        json!({"count": rfc, "first": rfc_sample}),
    );
    report.notes.push("PacketNumber::encode never produces a 1-byte encoding (16-bit minimum in the code); 1-byte packet numbers are exercised by C06 through PacketWriter with a hand-built PacketNumber::U8".into());
    report.sub(
        "encode-decode",
        Coverage {
            evaluations: triples,
            distinct_nontrivial: nontrivial,
            exhaustive: true,
            rule: "triples (pn, largest_acked, expected) de-duplicated per pn; non-trivial = the full pn does not fit the bytes on the wire, so high bits had to be reconstructed from the receiver position".into(),
            samples,
            extra,
            ..Default::default()
        },
    );
    report.finish()
}
