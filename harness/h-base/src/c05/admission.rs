//! `admission` — "a frame that was admitted into a packet by size always fits", for the data
//! frames, driven exactly as the senders drive it:
//!
//! * STREAM (qrecovery/src/send/outgoing.rs `try_load_data_into`):
//!   `estimate_max_capacity(room, sid, offset)` bounds the data, then
//!   `StreamFrame::new` → `encoding_strategy(room)` → `set_len_bit` → `put_bytes(0, pre_padding)`
//!   → `(frame, data).dump(packet)`;
//! * CRYPTO (qrecovery/src/crypto.rs `try_load_data`):
//!   `CryptoFrame::estimate_max_capacity(room, offset)` bounds the data, then
//!   `(CryptoFrame::new(offset, len), data).dump(packet)`.
//!
//! The packet is a real `PacketWriter` with exactly `room` bytes; afterwards it is padded to full
//! (what `PadToFull` does) and read back with the real `FrameReader`.
use bytes::{BufMut, Bytes};
use mc_core::panics::catch;
use qbase::{
    frame::{CryptoFrame, EncodeSize, Frame, FrameReader, Len, StreamFrame},
    packet::Package,
    sid::StreamId,
};
use serde::{Deserialize, Serialize};
use serde_json::{Value, json};

use super::{
    Acc,
    util::{Pkt, hex, pattern_bytes, vi, with_writer},
};

#[derive(Debug, Clone, Copy, Serialize, Deserialize, PartialEq)]
pub enum Sel {
    Max,
    MaxMinus1,
    MaxMinus2,
    Half,
    One,
    Zero,
}

impl Sel {
    fn pick(self, n: usize) -> Option<usize> {
        match self {
            Sel::Max => Some(n),
            Sel::MaxMinus1 => n.checked_sub(1),
            Sel::MaxMinus2 => n.checked_sub(2),
            Sel::Half => Some(n / 2),
            Sel::One => (n >= 1).then_some(1),
            Sel::Zero => Some(0),
        }
    }
}

#[derive(Debug, Clone, Serialize, Deserialize)]
#[serde(tag = "frame")]
pub enum AdmSpec {
    Stream {
        room: usize,
        sid: u64,
        offset: u64,
        sel: Sel,
        fin: bool,
    },
    Crypto {
        room: usize,
        offset: u64,
        sel: Sel,
    },
}

/// Reads a padded payload back: exactly one non-PADDING frame is expected.
fn read_back(payload: Vec<u8>, pkt: Pkt) -> Result<(usize, Vec<Frame<Bytes>>), String> {
    let mut pads = 0;
    let mut others = Vec::new();
    let mut reader = FrameReader::new(Bytes::from(payload), pkt.ty());
    let mut steps = 0usize;
    loop {
        steps += 1;
        if steps > 200_000 {
            return Err("reader does not terminate".into());
        }
        match reader.next() {
            None => break,
            Some(Err(e)) => return Err(format!("{e}")),
            Some(Ok((Frame::Padding(_), _))) => pads += 1,
            Some(Ok((f, _))) => others.push(f),
        }
    }
    Ok((pads, others))
}

pub fn check(spec: &AdmSpec, acc: &mut Acc) {
    acc.evaluations += 1;
    let input = || json!({"input": serde_json::to_value(spec).unwrap()});
    match *spec {
        AdmSpec::Stream {
            room,
            sid,
            offset,
            sel,
            fin,
        } => {
            let Ok(sidv) = vi(sid) else { return };
            let sid_ = StreamId::from(sidv);
            let n = match catch(|| StreamFrame::estimate_max_capacity(room, sid_, offset)) {
                Ok(Some(n)) => n,
                Ok(None) => {
                    acc.count("nothing_admitted");
                    return;
                }
                Err(p) => {
                    acc.violation(
                        &format!("panic/admission-STREAM/estimate/{}", super::pclass(&p)),
                        format!("StreamFrame::estimate_max_capacity({room}, {sid}, {offset}) panics at {}: {}", super::ploc(&p), p.message),
                        input(),
                    );
                    return;
                }
            };
            let Some(len) = sel.pick(n) else {
                acc.count("selection_not_applicable");
                return;
            };
            if len == 0 && !fin {
                acc.count("selection_not_applicable");
                return;
            }
            if offset + len as u64 > (1 << 62) - 1 {
                acc.count("selection_not_applicable");
                return;
            }
            let data = pattern_bytes(len, 0x0d);
            // the send buffer hands out a slice of segments
            let chunks: Vec<Bytes> = vec![data.slice(..len / 3), data.slice(len / 3..)];
            // the sender's sequence
            let res = catch(|| {
                let mut frame = StreamFrame::new(sid_, offset, len);
                frame.set_eos_flag(fin);
                let strategy = frame.encoding_strategy(room);
                frame.set_len_bit(strategy.len_bit());
                let pre = strategy.pre_padding();
                let out = with_writer(Pkt::OneRtt, room, |w| {
                    w.put_bytes(0, pre);
                    (frame, chunks.as_slice()).dump(w)
                });
                (frame, pre, out)
            });
            let (frame, pre, out) = match res {
                Ok(x) => x,
                Err(p) => {
                    acc.violation(
                        &format!("panic/admission-STREAM/{}", super::pclass(&p)),
                        format!(
                            "room {room}: estimate_max_capacity admits {n} bytes for stream {sid} at offset {offset}; sending {len} of them (fin={fin}) through encoding_strategy + dump panics at {}: {}",
                            super::ploc(&p), p.message
                        ),
                        input(),
                    );
                    return;
                }
            };
            let (dumped, written) = match out {
                Ok(x) => x,
                Err(e) => {
                    acc.count("writer_not_built");
                    if acc.verbose {
                        println!("  {e}");
                    }
                    return;
                }
            };
            acc.count("stream_admitted");
            acc.encoding(&written);
            if acc.samples.len() < 4 && written.len() > 4 {
                acc.sample(json!({"value": serde_json::to_value(spec).unwrap(), "hex": hex(&written)}));
            }
            if let Err(sig) = dumped {
                acc.violation(
                    "admit/STREAM/admitted-then-refused",
                    format!(
                        "room {room}: {len} bytes were admitted by estimate_max_capacity (max {n}) and encoding_strategy chose {:?} with {pre} bytes of padding, but dump refuses: {sig:?}",
                        frame_len_bit(&frame)
                    ),
                    input(),
                );
                return;
            }
            let expect = pre + frame.encoding_size() + len;
            if written.len() != expect {
                acc.violation(
                    "size/announced!=written/STREAM-in-packet",
                    format!(
                        "room {room}: padding {pre} + encoding_size() {} + data {len} = {expect}, the packet holds {} bytes",
                        frame.encoding_size(),
                        written.len()
                    ),
                    input(),
                );
            }
            if frame_len_bit(&frame) == Len::Omit && written.len() != room {
                acc.violation(
                    "admit/STREAM/open-ended-frame-not-last",
                    format!(
                        "room {room}: encoding_strategy omits the length for {len} bytes on stream {sid} at offset {offset} with {pre} bytes of padding, which leaves {} bytes of room behind a frame that runs to the end of the packet",
                        room - written.len()
                    ),
                    input(),
                );
            }
            let mut payload = written.clone();
            payload.resize(room, 0);
            match catch(|| read_back(payload, Pkt::OneRtt)) {
                Err(p) => acc.violation(
                    &format!("panic/admission-STREAM/decode/{}", super::pclass(&p)),
                    format!("reading the packet back panics at {}: {}", super::ploc(&p), p.message),
                    input(),
                ),
                Ok(Err(e)) => acc.violation(
                    "admit/STREAM/packet-does-not-decode",
                    format!("room {room}: packet payload {} is rejected: {e}", hex(&written)),
                    input(),
                ),
                Ok(Ok((_, frames))) => {
                    let want = Frame::Stream(frame, data.clone());
                    if frames.len() != 1 || frames[0] != want {
                        acc.violation(
                            "admit/STREAM/packet-decodes-differently",
                            format!(
                                "room {room}: wrote {frame:?} with {len} bytes (padding {pre}), the packet {} reads back as {:?}",
                                hex(&written),
                                frames.iter().map(|f| match f { Frame::Stream(f, d) => format!("{f:?}+{}B", d.len()), o => format!("{o:?}") }).collect::<Vec<_>>()
                            ),
                            input(),
                        );
                    } else {
                        acc.count("stream_read_back_equal");
                    }
                }
            }
        }
        AdmSpec::Crypto { room, offset, sel } => {
            let n = match catch(|| CryptoFrame::estimate_max_capacity(room, offset)) {
                Ok(Some(n)) => n,
                Ok(None) => {
                    acc.count("nothing_admitted");
                    return;
                }
                Err(p) => {
                    acc.violation(
                        &format!("panic/admission-CRYPTO/estimate/{}", super::pclass(&p)),
                        format!("CryptoFrame::estimate_max_capacity({room}, {offset}) panics at {}: {}", super::ploc(&p), p.message),
                        input(),
                    );
                    return;
                }
            };
            let Some(len) = sel.pick(n) else {
                acc.count("selection_not_applicable");
                return;
            };
            if len == 0 || offset + len as u64 > (1 << 62) - 1 {
                acc.count("selection_not_applicable");
                return;
            }
            let data = pattern_bytes(len, 0x0b);
            let chunks: Vec<Bytes> = vec![data.slice(..len / 2), data.slice(len / 2..)];
            let (Ok(o), Ok(l)) = (vi(offset), vi(len as u64)) else { return };
            let frame = CryptoFrame::new(o, l);
            let res = catch(|| {
                with_writer(Pkt::Initial, room, |w| (frame, chunks.as_slice()).dump(w))
            });
            let (dumped, written) = match res {
                Err(p) => {
                    acc.violation(
                        &format!("panic/admission-CRYPTO/{}", super::pclass(&p)),
                        format!(
                            "room {room}: estimate_max_capacity admits {n} bytes at offset {offset}; dumping {len} of them panics at {}: {}",
                            super::ploc(&p), p.message
                        ),
                        input(),
                    );
                    return;
                }
                Ok(Err(_)) => {
                    acc.count("writer_not_built");
                    return;
                }
                Ok(Ok(x)) => x,
            };
            acc.count("crypto_admitted");
            acc.encoding(&written);
            if let Err(sig) = dumped {
                acc.violation(
                    "admit/CRYPTO/admitted-then-refused",
                    format!("room {room}: {len} bytes admitted by estimate_max_capacity (max {n}) at offset {offset}, dump refuses: {sig:?}"),
                    input(),
                );
                return;
            }
            if written.len() != frame.encoding_size() + len {
                acc.violation(
                    "size/announced!=written/CRYPTO-in-packet",
                    format!(
                        "encoding_size() {} + data {len}, the packet holds {} bytes",
                        frame.encoding_size(),
                        written.len()
                    ),
                    input(),
                );
            }
            let mut payload = written.clone();
            payload.resize(room, 0);
            match catch(|| read_back(payload, Pkt::Initial)) {
                Err(p) => acc.violation(
                    &format!("panic/admission-CRYPTO/decode/{}", super::pclass(&p)),
                    format!("reading the packet back panics at {}: {}", super::ploc(&p), p.message),
                    input(),
                ),
                Ok(Err(e)) => acc.violation(
                    "admit/CRYPTO/packet-does-not-decode",
                    format!("room {room}: packet payload {} is rejected: {e}", hex(&written)),
                    input(),
                ),
                Ok(Ok((_, frames))) => {
                    let want = Frame::Crypto(frame, data.clone());
                    if frames.len() != 1 || frames[0] != want {
                        acc.violation(
                            "admit/CRYPTO/packet-decodes-differently",
                            format!("room {room}: wrote {frame:?}, the packet {} reads back as {} frames", hex(&written), frames.len()),
                            input(),
                        );
                    } else {
                        acc.count("crypto_read_back_equal");
                    }
                }
            }
        }
    }
}

fn frame_len_bit(f: &StreamFrame) -> Len {
    use qbase::frame::{FrameType, GetFrameType};
    match f.frame_type() {
        FrameType::Stream(_, l, _) => l,
        _ => Len::Omit,
    }
}

pub fn enumerate(thorough: bool) -> Vec<AdmSpec> {
    let mut rooms: Vec<usize> = (0..=if thorough { 300 } else { 140 }).collect();
    if thorough {
        rooms.extend(16300..=16500);
        rooms.extend([1199, 1201, 1350, 1452, 9000, 16383 + 25, 32768, 65535]);
    } else {
        rooms.extend(16370..=16420);
    }
    rooms.extend([1200, 1472, 65527]);
    rooms.sort_unstable();
    rooms.dedup();
    let sids = [0u64, 64, 16384, 1 << 30];
    let offsets = [0u64, 1, 64, 16384, 1 << 30];
    let sels = [
        Sel::Max,
        Sel::MaxMinus1,
        Sel::MaxMinus2,
        Sel::Half,
        Sel::One,
        Sel::Zero,
    ];
    let mut out = Vec::new();
    for &room in &rooms {
        for &offset in &offsets {
            for &sel in &sels {
                for &sid in &sids {
                    for fin in [false, true] {
                        out.push(AdmSpec::Stream {
                            room,
                            sid,
                            offset,
                            sel,
                            fin,
                        });
                    }
                }
                if sel != Sel::Zero {
                    out.push(AdmSpec::Crypto { room, offset, sel });
                }
            }
        }
    }
    out
}

pub fn run(thorough: bool) -> Acc {
    let cases = enumerate(thorough);
    let mut acc = super::run_sharded(&cases, check);
    acc.add("cases_enumerated", cases.len() as u64);
    acc
}

pub fn replay(input: &Value, acc: &mut Acc) -> Result<(), String> {
    let spec: AdmSpec = serde_json::from_value(input.clone()).map_err(|e| e.to_string())?;
    check(&spec, acc);
    for (k, n) in &acc.counters {
        println!("  {k} = {n}");
    }
    Ok(())
}
