//! `frames` — every frame kind over boundary products.
use std::net::{IpAddr, Ipv4Addr, Ipv6Addr, SocketAddr};

use bytes::{BufMut, Bytes};
use mc_core::panics::catch;
use qbase::{
    error::{ErrorFrameType, ErrorKind},
    frame::{
        AckFrame, AddAddressFrame, ConnectionCloseFrame, CryptoFrame, DataBlockedFrame,
        DatagramFrame, EcnCounts, EncodeSize, Frame, FrameFeature, FrameReader, FrameType,
        GetFrameType, HandshakeDoneFrame, Len, MaxDataFrame, MaxStreamDataFrame, MaxStreamsFrame,
        NewConnectionIdFrame, NewTokenFrame, PaddingFrame, PathChallengeFrame, PathResponseFrame,
        PingFrame, PunchDoneFrame, PunchHelloFrame, PunchMeNowFrame, ReliableFrame,
        RemoveAddressFrame, ResetStreamFrame, RetireConnectionIdFrame, StopSendingFrame,
        StreamCtlFrame, StreamDataBlockedFrame, StreamFrame, StreamsBlockedFrame, io::WriteFrame,
    },
    net::{NatType, tx::Signals},
    packet::{Package, PacketContent, PacketWriter},
    sid::{Dir, StreamId},
    varint::VarInt,
};
use serde::{Deserialize, Serialize};
use serde_json::{Value, json};

use super::{
    Acc, B, b_neighbours,
    util::{Pkt, cid, hex, pattern, pattern_bytes, reason, vi, with_writer},
};

/// Three legal frames appended behind every self-delimiting frame: PING PADDING PING.
const SENTINEL: [u8; 3] = [0x01, 0x00, 0x01];

#[derive(Debug, Clone, Serialize, Deserialize)]
#[serde(tag = "frame")]
pub enum FrameSpec {
    Padding,
    Ping,
    HandshakeDone,
    Ack {
        largest: u64,
        delay: u64,
        first: u64,
        ranges: Vec<(u64, u64)>,
        ecn: Option<[u64; 3]>,
    },
    ResetStream {
        sid: u64,
        err: u64,
        final_size: u64,
    },
    StopSending {
        sid: u64,
        err: u64,
    },
    Crypto {
        offset: u64,
        len: usize,
    },
    NewToken {
        len: usize,
    },
    Stream {
        sid: u64,
        offset: u64,
        len: usize,
        fin: bool,
        len_bit: bool,
    },
    MaxData {
        v: u64,
    },
    MaxStreamData {
        sid: u64,
        v: u64,
    },
    MaxStreams {
        uni: bool,
        v: u64,
    },
    DataBlocked {
        v: u64,
    },
    StreamDataBlocked {
        sid: u64,
        v: u64,
    },
    StreamsBlocked {
        uni: bool,
        v: u64,
    },
    NewConnectionId {
        seq: u64,
        retire: u64,
        cid_len: usize,
    },
    RetireConnectionId {
        seq: u64,
    },
    PathChallenge {
        fill: u8,
    },
    PathResponse {
        fill: u8,
    },
    CloseApp {
        code: u64,
        reason_len: usize,
        style: u8,
    },
    /// `fty` is the wire value of the offending frame type; `ext` selects
    /// `ErrorFrameType::Ext` (only used for values no `FrameType` exists for).
    CloseQuic {
        kind: u64,
        fty: u64,
        ext: bool,
        reason_len: usize,
        style: u8,
    },
    Datagram {
        with_len: bool,
        len: usize,
    },
    AddAddress {
        seq: u32,
        addr: usize,
        tire: u32,
        nat: u8,
    },
    RemoveAddress {
        seq: u64,
    },
    PunchMeNow {
        local: u32,
        remote: u32,
        addr: usize,
        tire: u32,
        nat: u8,
    },
    PunchHello {
        local: u32,
        remote: u32,
        probe: u32,
    },
    PunchDone {
        local: u32,
        remote: u32,
        probe: u32,
    },
}

pub fn addresses() -> Vec<SocketAddr> {
    vec![
        SocketAddr::new(IpAddr::V4(Ipv4Addr::new(0, 0, 0, 0)), 0),
        SocketAddr::new(IpAddr::V4(Ipv4Addr::new(127, 0, 0, 1)), 4433),
        SocketAddr::new(IpAddr::V4(Ipv4Addr::new(255, 255, 255, 255)), 65535),
        SocketAddr::new(IpAddr::V6(Ipv6Addr::UNSPECIFIED), 0),
        SocketAddr::new(
            IpAddr::V6(Ipv6Addr::new(0x2001, 0xdb8, 0, 0, 0, 0, 0, 1)),
            443,
        ),
        SocketAddr::new(IpAddr::V6(Ipv6Addr::from([0xffu8; 16])), 65535),
        SocketAddr::new(
            IpAddr::V6(Ipv4Addr::new(1, 2, 3, 4).to_ipv6_mapped()),
            256,
        ),
    ]
}

fn nat(n: u8) -> Result<NatType, String> {
    NatType::try_from(n).map_err(|e| e.to_string())
}

impl FrameSpec {
    pub fn kind(&self) -> &'static str {
        match self {
            FrameSpec::Padding => "PADDING",
            FrameSpec::Ping => "PING",
            FrameSpec::HandshakeDone => "HANDSHAKE_DONE",
            FrameSpec::Ack { .. } => "ACK",
            FrameSpec::ResetStream { .. } => "RESET_STREAM",
            FrameSpec::StopSending { .. } => "STOP_SENDING",
            FrameSpec::Crypto { .. } => "CRYPTO",
            FrameSpec::NewToken { .. } => "NEW_TOKEN",
            FrameSpec::Stream { .. } => "STREAM",
            FrameSpec::MaxData { .. } => "MAX_DATA",
            FrameSpec::MaxStreamData { .. } => "MAX_STREAM_DATA",
            FrameSpec::MaxStreams { .. } => "MAX_STREAMS",
            FrameSpec::DataBlocked { .. } => "DATA_BLOCKED",
            FrameSpec::StreamDataBlocked { .. } => "STREAM_DATA_BLOCKED",
            FrameSpec::StreamsBlocked { .. } => "STREAMS_BLOCKED",
            FrameSpec::NewConnectionId { .. } => "NEW_CONNECTION_ID",
            FrameSpec::RetireConnectionId { .. } => "RETIRE_CONNECTION_ID",
            FrameSpec::PathChallenge { .. } => "PATH_CHALLENGE",
            FrameSpec::PathResponse { .. } => "PATH_RESPONSE",
            FrameSpec::CloseApp { .. } => "CONNECTION_CLOSE_APP",
            FrameSpec::CloseQuic { .. } => "CONNECTION_CLOSE",
            FrameSpec::Datagram { .. } => "DATAGRAM",
            FrameSpec::AddAddress { .. } => "ADD_ADDRESS",
            FrameSpec::RemoveAddress { .. } => "REMOVE_ADDRESS",
            FrameSpec::PunchMeNow { .. } => "PUNCH_ME_NOW",
            FrameSpec::PunchHello { .. } => "PUNCH_HELLO",
            FrameSpec::PunchDone { .. } => "PUNCH_DONE",
        }
    }

    /// Builds the value with the crate's public constructors.
    pub fn build(&self) -> Result<Frame<Bytes>, String> {
        let sid = |x: u64| -> Result<StreamId, String> { Ok(StreamId::from(vi(x)?)) };
        let addrs = addresses();
        Ok(match self {
            FrameSpec::Padding => Frame::Padding(PaddingFrame),
            FrameSpec::Ping => Frame::Ping(PingFrame),
            FrameSpec::HandshakeDone => Frame::HandshakeDone(HandshakeDoneFrame),
            FrameSpec::Ack {
                largest,
                delay,
                first,
                ranges,
                ecn,
            } => {
                let mut rs = Vec::new();
                for (g, l) in ranges {
                    rs.push((vi(*g)?, vi(*l)?));
                }
                let ecn = match ecn {
                    None => None,
                    Some([a, b, c]) => Some(EcnCounts::new(vi(*a)?, vi(*b)?, vi(*c)?)),
                };
                Frame::Ack(AckFrame::new(
                    vi(*largest)?,
                    vi(*delay)?,
                    vi(*first)?,
                    rs,
                    ecn,
                ))
            }
            FrameSpec::ResetStream {
                sid: s,
                err,
                final_size,
            } => Frame::StreamCtl(StreamCtlFrame::ResetStream(ResetStreamFrame::new(
                sid(*s)?,
                vi(*err)?,
                vi(*final_size)?,
            ))),
            FrameSpec::StopSending { sid: s, err } => Frame::StreamCtl(
                StreamCtlFrame::StopSending(StopSendingFrame::new(sid(*s)?, vi(*err)?)),
            ),
            FrameSpec::Crypto { offset, len } => Frame::Crypto(
                CryptoFrame::new(vi(*offset)?, vi(*len as u64)?),
                pattern_bytes(*len, 3),
            ),
            FrameSpec::NewToken { len } => Frame::NewToken(NewTokenFrame::new(pattern(*len, 5))),
            FrameSpec::Stream {
                sid: s,
                offset,
                len,
                fin,
                len_bit,
            } => {
                if *offset > (1 << 62) - 1 {
                    return Err("offset is not a varint".into());
                }
                let mut f = StreamFrame::new(sid(*s)?, *offset, *len);
                f.set_eos_flag(*fin);
                f.set_len_bit(if *len_bit { Len::Explicit } else { Len::Omit });
                Frame::Stream(f, pattern_bytes(*len, 7))
            }
            FrameSpec::MaxData { v } => Frame::MaxData(MaxDataFrame::new(vi(*v)?)),
            FrameSpec::MaxStreamData { sid: s, v } => Frame::StreamCtl(
                StreamCtlFrame::MaxStreamData(MaxStreamDataFrame::new(sid(*s)?, vi(*v)?)),
            ),
            FrameSpec::MaxStreams { uni, v } => {
                Frame::StreamCtl(StreamCtlFrame::MaxStreams(MaxStreamsFrame::with(
                    if *uni { Dir::Uni } else { Dir::Bi },
                    vi(*v)?,
                )))
            }
            FrameSpec::DataBlocked { v } => Frame::DataBlocked(DataBlockedFrame::new(vi(*v)?)),
            FrameSpec::StreamDataBlocked { sid: s, v } => Frame::StreamCtl(
                StreamCtlFrame::StreamDataBlocked(StreamDataBlockedFrame::new(sid(*s)?, vi(*v)?)),
            ),
            FrameSpec::StreamsBlocked { uni, v } => {
                Frame::StreamCtl(StreamCtlFrame::StreamsBlocked(StreamsBlockedFrame::with(
                    if *uni { Dir::Uni } else { Dir::Bi },
                    vi(*v)?,
                )))
            }
            FrameSpec::NewConnectionId {
                seq,
                retire,
                cid_len,
            } => Frame::NewConnectionId(NewConnectionIdFrame::new(
                cid(*cid_len, 0x11),
                vi(*seq)?,
                vi(*retire)?,
            )),
            FrameSpec::RetireConnectionId { seq } => {
                Frame::RetireConnectionId(RetireConnectionIdFrame::new(vi(*seq)?))
            }
            FrameSpec::PathChallenge { fill } => {
                Frame::PathChallenge(PathChallengeFrame::from_slice(&fill8(*fill)))
            }
            FrameSpec::PathResponse { fill } => Frame::PathResponse(PathResponseFrame::from(
                PathChallengeFrame::from_slice(&fill8(*fill)),
            )),
            FrameSpec::CloseApp {
                code,
                reason_len,
                style,
            } => Frame::Close(ConnectionCloseFrame::new_app(
                vi(*code)?,
                reason(*reason_len, *style),
            )),
            FrameSpec::CloseQuic {
                kind,
                fty,
                ext,
                reason_len,
                style,
            } => {
                let kind = ErrorKind::try_from(vi(*kind)?).map_err(|e| e.to_string())?;
                let fty = if *ext {
                    ErrorFrameType::Ext(vi(*fty)?)
                } else {
                    ErrorFrameType::V1(FrameType::try_from(vi(*fty)?).map_err(|e| e.to_string())?)
                };
                Frame::Close(ConnectionCloseFrame::new_quic(
                    kind,
                    fty,
                    reason(*reason_len, *style),
                ))
            }
            FrameSpec::Datagram { with_len, len } => Frame::Datagram(
                DatagramFrame::new(*with_len, vi(*len as u64)?),
                pattern_bytes(*len, 9),
            ),
            FrameSpec::AddAddress {
                seq,
                addr,
                tire,
                nat: n,
            } => Frame::AddAddress(AddAddressFrame::new(
                *seq,
                *addrs.get(*addr).ok_or("address index")?,
                *tire,
                nat(*n)?,
            )),
            FrameSpec::RemoveAddress { seq } => {
                Frame::RemoveAddress(RemoveAddressFrame { seq_num: vi(*seq)? })
            }
            FrameSpec::PunchMeNow {
                local,
                remote,
                addr,
                tire,
                nat: n,
            } => Frame::PunchMeNow(PunchMeNowFrame::new(
                *local,
                *remote,
                *addrs.get(*addr).ok_or("address index")?,
                *tire,
                nat(*n)?,
            )),
            FrameSpec::PunchHello {
                local,
                remote,
                probe,
            } => Frame::PunchHello(PunchHelloFrame::new(*local, *remote, *probe)),
            FrameSpec::PunchDone {
                local,
                remote,
                probe,
            } => Frame::PunchDone(PunchDoneFrame::new(*local, *remote, *probe)),
        })
    }

    /// Number of trailing bytes of the encoding that the crate chose at random.
    fn random_tail(&self) -> usize {
        match self {
            FrameSpec::NewConnectionId { .. } => 16,
            _ => 0,
        }
    }
}

fn fill8(fill: u8) -> [u8; 8] {
    match fill {
        0 => [0; 8],
        0xff => [0xff; 8],
        s => {
            let mut a = [0u8; 8];
            a.copy_from_slice(&pattern(8, s));
            a
        }
    }
}

fn data_len(frame: &Frame<Bytes>) -> usize {
    match frame {
        Frame::Stream(_, d) | Frame::Crypto(_, d) | Frame::Datagram(_, d) => d.len(),
        _ => 0,
    }
}

/// Does the frame run to the end of the packet (no length on the wire)?
fn open_ended(frame: &Frame<Bytes>) -> bool {
    match frame {
        Frame::Stream(f, _) => {
            matches!(f.frame_type(), FrameType::Stream(_, Len::Omit, _))
        }
        Frame::Datagram(f, _) => !f.encode_len(),
        _ => false,
    }
}

/// `Package::dump` through the same impls the connection uses.
fn dump(frame: &Frame<Bytes>, w: &mut PacketWriter<'_>) -> Result<PacketContent, Signals> {
    match frame {
        Frame::Padding(f) => f.clone().dump(w),
        Frame::Ping(f) => f.clone().dump(w),
        Frame::Ack(f) => f.clone().dump(w),
        Frame::Close(f) => f.clone().dump(w),
        // reliable frames travel as `ReliableFrame` (qrecovery/src/reliable.rs)
        Frame::NewToken(f) => ReliableFrame::NewToken(f.clone()).dump(w),
        Frame::MaxData(f) => ReliableFrame::MaxData(*f).dump(w),
        Frame::DataBlocked(f) => ReliableFrame::DataBlocked(*f).dump(w),
        Frame::NewConnectionId(f) => ReliableFrame::NewConnectionId(*f).dump(w),
        Frame::RetireConnectionId(f) => ReliableFrame::RetireConnectionId(*f).dump(w),
        Frame::HandshakeDone(f) => ReliableFrame::HandshakeDone(*f).dump(w),
        Frame::PathChallenge(f) => f.clone().dump(w),
        Frame::PathResponse(f) => f.clone().dump(w),
        Frame::StreamCtl(f) => ReliableFrame::StreamCtl(*f).dump(w),
        Frame::Stream(f, d) => (*f, d.clone()).dump(w),
        Frame::Crypto(f, d) => (*f, d.clone()).dump(w),
        Frame::Datagram(f, d) => (*f, d.clone()).dump(w),
        Frame::AddAddress(f) => ReliableFrame::AddAddress(*f).dump(w),
        Frame::RemoveAddress(f) => ReliableFrame::RemoveAddress(*f).dump(w),
        Frame::PunchMeNow(f) => ReliableFrame::PunchMeNow(*f).dump(w),
        Frame::PunchHello(f) => f.clone().dump(w),
        Frame::PunchDone(f) => ReliableFrame::PunchDone(*f).dump(w),
    }
}

fn error_class(e: &qbase::frame::Error) -> String {
    use qbase::frame::Error as E;
    let s = match e {
        E::NoFrames => "NoFrames".to_string(),
        E::IncompleteType(_) => "IncompleteType".to_string(),
        E::InvalidType(_) => "InvalidType".to_string(),
        E::WrongType(..) => "WrongType".to_string(),
        E::IncompleteFrame(..) => "IncompleteFrame".to_string(),
        E::ParseError(_, d) => format!("ParseError-{d}"),
    };
    s.chars()
        .map(|c| if c.is_ascii_alphanumeric() || c == '-' { c } else { '_' })
        .collect()
}

/// Outcome of a dump into a writer with `room` bytes, in words (for details).
fn dump_outcome(frame: &Frame<Bytes>, pkt: Pkt, room: usize) -> String {
    match catch(|| with_writer(pkt, room, |w| dump(frame, w))) {
        Err(p) => format!("panics at {} ({})", super::ploc(&p), p.message),
        Ok(Err(e)) => format!("harness could not build the writer: {e}"),
        Ok(Ok((Ok(_), bytes))) => format!("returns Ok having written {} bytes", bytes.len()),
        Ok(Ok((Err(s), _))) => format!("refuses with {s:?}"),
    }
}

pub fn check(spec: &FrameSpec, acc: &mut Acc) {
    acc.evaluations += 1;
    let kind = spec.kind();
    let input = || json!({"input": serde_json::to_value(spec).unwrap()});
    let frame = match catch(|| spec.build()) {
        Ok(Ok(f)) => f,
        Ok(Err(e)) => {
            // not a legal value of the domain: nothing to decide
            acc.count("not_constructible");
            if acc.verbose {
                println!("  not constructible: {e}");
            }
            return;
        }
        Err(p) => {
            acc.violation(
                &format!("panic/{kind}/construct/{}", super::pclass(&p)),
                format!("constructing {spec:?} panics at {}: {}", super::ploc(&p), p.message),
                input(),
            );
            return;
        }
    };

    // 1. encode with the crate's own writer
    let encoded: Vec<u8> = match catch(|| {
        let mut buf: Vec<u8> = Vec::new();
        WriteFrame::<Frame<Bytes>>::put_frame(&mut buf, &frame);
        buf
    }) {
        Ok(b) => b,
        Err(p) => {
            acc.violation(
                &format!("panic/{kind}/encode/{}", super::pclass(&p)),
                format!("put_frame({spec:?}) panics at {}: {}", super::ploc(&p), p.message),
                input(),
            );
            return;
        }
    };
    let written = encoded.len();
    let tail = spec.random_tail();
    acc.encoding(&encoded[..written - tail.min(written)]);
    acc.count(&format!("kind.{kind}"));
    if acc.samples.len() < 4 && written >= 3 {
        acc.sample(json!({"value": serde_json::to_value(spec).unwrap(), "hex": hex(&encoded[..written - tail.min(written)])}));
    }

    // 2. announced sizes
    let dlen = data_len(&frame);
    let sizes = catch(|| (frame.encoding_size(), frame.max_encoding_size()));
    let (announced, max) = match sizes {
        Ok((a, m)) => (a + dlen, m + dlen),
        Err(p) => {
            acc.violation(
                &format!("panic/{kind}/encoding_size/{}", super::pclass(&p)),
                format!("encoding_size()/max_encoding_size() of {spec:?} panics at {}: {}", super::ploc(&p), p.message),
                input(),
            );
            (written, written)
        }
    };
    let fty = frame.frame_type();
    let dump_pkt = Pkt::OneRtt;
    if announced != written {
        let consequence = if announced < written {
            format!(
                "; Package::dump into a PacketWriter with exactly the announced {announced} bytes of room {}",
                dump_outcome(&frame, dump_pkt, announced)
            )
        } else {
            String::new()
        };
        acc.violation(
            &format!("size/announced!=written/{kind}"),
            format!(
                "{spec:?}: encoding_size() announces {announced} bytes{}, the writer writes {written} ({}){consequence}",
                if dlen > 0 { format!(" (header {} + data {dlen})", announced - dlen) } else { String::new() },
                hex(&encoded)
            ),
            input(),
        );
    }
    if announced > max {
        // admitted by `remaining >= max_encoding_size()` although it needs more
        let consequence = if max < written {
            format!(
                "; Package::dump into a PacketWriter with exactly max_encoding_size() = {max} bytes of room {}",
                dump_outcome(&frame, dump_pkt, max)
            )
        } else {
            String::new()
        };
        acc.violation(
            &format!("size/announced>max/{kind}"),
            format!(
                "{spec:?}: encoding_size() = {announced} exceeds max_encoding_size() = {max} (written {written}){consequence}"
            ),
            input(),
        );
    }

    // 3. decode in every packet type the frame belongs to
    let open = open_ended(&frame);
    let mut wire = encoded.clone();
    if !open {
        wire.extend_from_slice(&SENTINEL);
    }
    let wire = Bytes::from(wire);
    let mut permitted = 0;
    for pkt in Pkt::ALL {
        if !fty.belongs_to(pkt.ty()) {
            acc.count("packet_type_not_permitted");
            continue;
        }
        permitted += 1;
        let res = catch(|| {
            let mut reader = FrameReader::new(wire.clone(), pkt.ty());
            let first = reader.next();
            let left_after_first = reader.len();
            let mut rest = Vec::new();
            if matches!(first, Some(Ok(_))) {
                for _ in 0..4 {
                    match reader.next() {
                        Some(Ok((f, _))) => rest.push(Some(f)),
                        Some(Err(_)) => {
                            rest.push(None);
                            break;
                        }
                        None => break,
                    }
                }
            }
            (first, left_after_first, rest)
        });
        let (first, left, rest) = match res {
            Ok(x) => x,
            Err(p) => {
                acc.violation(
                    &format!("panic/{kind}/decode/{}", super::pclass(&p)),
                    format!(
                        "FrameReader({pkt:?}) over the encoding of {spec:?} ({}) panics at {}: {}",
                        hex(&wire),
                        super::ploc(&p),
                        p.message
                    ),
                    input(),
                );
                continue;
            }
        };
        match first {
            None => acc.violation(
                &format!("roundtrip/{kind}/decode-error/none"),
                format!("{spec:?}: FrameReader({pkt:?}) yields nothing for {}", hex(&wire)),
                input(),
            ),
            Some(Err(e)) => acc.violation(
                &format!("roundtrip/{kind}/decode-error/{}", error_class(&e)),
                format!(
                    "{spec:?} encodes to {} but FrameReader({pkt:?}) rejects it: {e}",
                    hex(&encoded)
                ),
                input(),
            ),
            Some(Ok((decoded, decoded_ty))) => {
                acc.count("decoded_ok");
                if decoded != frame {
                    acc.violation(
                        &format!("roundtrip/{kind}/value-differs"),
                        format!(
                            "{spec:?} encodes to {} and decodes in {pkt:?} to a different value: wrote {}, read {}",
                            hex(&encoded),
                            short_debug(&frame),
                            short_debug(&decoded)
                        ),
                        input(),
                    );
                }
                if decoded_ty != fty {
                    acc.violation(
                        &format!("roundtrip/{kind}/frame-type-differs"),
                        format!("{spec:?}: wrote frame type {fty:?}, the reader reports {decoded_ty:?}"),
                        input(),
                    );
                }
                let consumed = wire.len() - left;
                let sentinel_ok = open
                    || (rest.len() == 3
                        && matches!(rest[0], Some(Frame::Ping(_)))
                        && matches!(rest[1], Some(Frame::Padding(_)))
                        && matches!(rest[2], Some(Frame::Ping(_))));
                if consumed != written || !sentinel_ok {
                    acc.violation(
                        &format!("roundtrip/{kind}/consumed!=written"),
                        format!(
                            "{spec:?}: {written} bytes written, FrameReader({pkt:?}) consumed {consumed}; frames behind it decoded as {:?}",
                            rest.iter().map(|f| f.as_ref().map(|f| format!("{:?}", f.frame_type()))).collect::<Vec<_>>()
                        ),
                        input(),
                    );
                }
            }
        }
    }
    if permitted == 0 {
        acc.violation(
            &format!("roundtrip/{kind}/no-permitted-packet-type"),
            format!("{spec:?}: belongs_to() is false for every packet type"),
            input(),
        );
    }

    // 4. the admission boundary of Package::dump on a real PacketWriter
    //    (`remaining >= max_encoding_size() || remaining >= encoding_size()`)
    let boundary = announced.min(max);
    if boundary < written {
        return; // already reported above, with the consequence
    }
    for pkt in [Pkt::OneRtt, Pkt::Initial] {
        if !fty.belongs_to(pkt.ty()) {
            continue;
        }
        // exactly enough room: must be admitted, must fit, must write the same bytes
        match catch(|| with_writer(pkt, boundary, |w| dump(&frame, w))) {
            Err(p) => acc.violation(
                &format!("panic/{kind}/dump-exact/{}", super::pclass(&p)),
                format!(
                    "{spec:?}: Package::dump into a {pkt:?} PacketWriter with exactly {boundary} bytes of room panics at {}: {}",
                    super::ploc(&p), p.message
                ),
                input(),
            ),
            Ok(Err(e)) => {
                acc.count("writer_not_built");
                if acc.verbose {
                    println!("  {e}");
                }
            }
            Ok(Ok((Err(sig), _))) => acc.violation(
                &format!("admit/exact-fit-refused/{kind}"),
                format!("{spec:?}: dump into exactly {boundary} bytes of room is refused with {sig:?}"),
                input(),
            ),
            Ok(Ok((Ok(_), bytes))) => {
                acc.count("dump_exact_ok");
                let same = bytes.len() == written
                    && bytes[..written - tail] == encoded[..written - tail];
                if !same {
                    acc.violation(
                        &format!("admit/dump-writes-other-bytes/{kind}"),
                        format!(
                            "{spec:?}: put_frame writes {}, dump into a PacketWriter writes {}",
                            hex(&encoded),
                            hex(&bytes)
                        ),
                        input(),
                    );
                }
            }
        }
        // one byte less than the frame header needs: must be refused cleanly
        let hdr_boundary = boundary - dlen;
        if hdr_boundary == 0 {
            continue;
        }
        match catch(|| with_writer(pkt, hdr_boundary - 1, |w| dump(&frame, w))) {
            Err(p) => acc.violation(
                &format!("panic/{kind}/dump-one-less/{}", super::pclass(&p)),
                format!(
                    "{spec:?}: Package::dump into {} bytes of room (one less than announced) panics at {}: {}",
                    hdr_boundary - 1,
                    super::ploc(&p),
                    p.message
                ),
                input(),
            ),
            Ok(Err(_)) => acc.count("writer_not_built"),
            Ok(Ok((Ok(_), bytes))) => acc.violation(
                &format!("admit/one-less-accepted/{kind}"),
                format!(
                    "{spec:?}: dump into {} bytes of room (one less than the announced {hdr_boundary}) returns Ok having written {} bytes",
                    hdr_boundary - 1,
                    bytes.len()
                ),
                input(),
            ),
            Ok(Ok((Err(_), bytes))) => {
                acc.count("dump_one_less_refused");
                if !bytes.is_empty() {
                    acc.violation(
                        &format!("admit/refused-but-wrote/{kind}"),
                        format!("{spec:?}: dump refused but left {} bytes in the packet", bytes.len()),
                        input(),
                    );
                }
            }
        }
    }
}

fn short_debug(f: &Frame<Bytes>) -> String {
    let mut s = format!("{f:?}");
    if s.len() > 300 {
        let mut cut = 300;
        while !s.is_char_boundary(cut) {
            cut -= 1;
        }
        s.truncate(cut);
        s.push('…');
    }
    s
}

fn all_frame_types() -> Vec<u64> {
    let mut v: Vec<u64> = (0x00..=0x1e).collect();
    v.extend([0x30, 0x31]);
    v.extend(0x3d7e90..=0x3d7e96u64);
    v
}

fn all_error_kinds() -> Vec<u64> {
    let mut v: Vec<u64> = (0x00..=0x10).collect();
    v.extend([0x100, 0x13f, 0x140, 0x1ff]);
    v
}

pub fn enumerate(thorough: bool) -> Vec<FrameSpec> {
    let v: Vec<u64> = if thorough { b_neighbours() } else { B.to_vec() };
    let lens: Vec<usize> = if thorough {
        vec![0, 1, 62, 63, 64, 65, 16383, 16384, 16385, 65536, 1 << 20]
    } else {
        vec![0, 1, 63, 64, 16383, 16384, 65536]
    };
    let u32b: Vec<u32> = {
        let mut s: Vec<u32> = v.iter().filter(|x| **x <= u32::MAX as u64).map(|x| *x as u32).collect();
        s.push(u32::MAX);
        if thorough {
            s.push(u32::MAX - 1);
        }
        s.sort_unstable();
        s.dedup();
        s
    };
    let max = (1u64 << 62) - 1;
    let mut out = vec![FrameSpec::Padding, FrameSpec::Ping, FrameSpec::HandshakeDone];

    // ACK, no extra ranges: full product of the three leading fields (first <= largest) × ECN
    let ecns = |full: bool| -> Vec<Option<[u64; 3]>> {
        let mut e = vec![None];
        if full {
            for a in &B {
                for b in &B {
                    for c in &B {
                        e.push(Some([*a, *b, *c]));
                    }
                }
            }
        } else {
            for a in [0u64, 63, 64, 1 << 30, max] {
                e.push(Some([a, a, a]));
            }
            e.push(Some([0, 16384, max]));
        }
        e
    };
    for &largest in &v {
        for &delay in &v {
            for &first in v.iter().filter(|f| **f <= largest) {
                for ecn in ecns(false) {
                    out.push(FrameSpec::Ack {
                        largest,
                        delay,
                        first,
                        ranges: vec![],
                        ecn,
                    });
                }
            }
        }
    }
    // every ECN count triple on one ACK
    for ecn in ecns(true) {
        out.push(FrameSpec::Ack {
            largest: 100,
            delay: 25,
            first: 3,
            ranges: vec![],
            ecn,
        });
    }
    // ACK with 1..3 extra ranges; largest = 2^62-1 leaves room for every gap/length below
    let small: Vec<u64> = vec![0, 63, 64, 16383, 16384, 1 << 30];
    let tiny: Vec<u64> = vec![0, 64, 16384];
    let ecn3 = [None, Some([1u64, 64, 16384])];
    for delay in [0u64, 16384] {
        for first in [0u64, 64] {
            for ecn in ecn3 {
                for &g in &v {
                    for &l in &v {
                        if g >= max / 4 || l >= max / 4 {
                            continue;
                        }
                        out.push(FrameSpec::Ack {
                            largest: max,
                            delay,
                            first,
                            ranges: vec![(g, l)],
                            ecn,
                        });
                    }
                }
                for &g1 in &small {
                    for &l1 in &small {
                        for &g2 in &small {
                            for &l2 in &small {
                                out.push(FrameSpec::Ack {
                                    largest: max,
                                    delay,
                                    first,
                                    ranges: vec![(g1, l1), (g2, l2)],
                                    ecn,
                                });
                            }
                        }
                    }
                }
                for &g1 in &tiny {
                    for &l1 in &tiny {
                        for &g2 in &tiny {
                            for &l2 in &tiny {
                                for &g3 in &tiny {
                                    for &l3 in &tiny {
                                        out.push(FrameSpec::Ack {
                                            largest: max,
                                            delay,
                                            first,
                                            ranges: vec![(g1, l1), (g2, l2), (g3, l3)],
                                            ecn,
                                        });
                                    }
                                }
                            }
                        }
                    }
                }
            }
        }
    }

    for &sid in &v {
        for &a in &v {
            for &b in &v {
                out.push(FrameSpec::ResetStream {
                    sid,
                    err: a,
                    final_size: b,
                });
            }
            out.push(FrameSpec::StopSending { sid, err: a });
            out.push(FrameSpec::MaxStreamData { sid, v: a });
            out.push(FrameSpec::StreamDataBlocked { sid, v: a });
        }
    }
    for &x in &v {
        out.push(FrameSpec::MaxData { v: x });
        out.push(FrameSpec::DataBlocked { v: x });
        out.push(FrameSpec::RetireConnectionId { seq: x });
        out.push(FrameSpec::RemoveAddress { seq: x });
    }
    // stream counts: legal up to 2^60 (RFC 9000 §19.11, §19.14)
    let mut counts: Vec<u64> = v.iter().copied().filter(|x| *x <= 1 << 60).collect();
    counts.extend([(1 << 60) - 1, 1 << 60]);
    for uni in [false, true] {
        for &c in &counts {
            out.push(FrameSpec::MaxStreams { uni, v: c });
            out.push(FrameSpec::StreamsBlocked { uni, v: c });
        }
    }

    // CRYPTO and STREAM: offset + length <= 2^62-1
    for &len in &lens {
        let mut offs: Vec<u64> = v.iter().copied().filter(|o| o + len as u64 <= max).collect();
        offs.extend([(1 << 61) - 1, 1 << 61, max - len as u64]);
        offs.sort_unstable();
        offs.dedup();
        for &offset in &offs {
            out.push(FrameSpec::Crypto { offset, len });
            for &sid in &v {
                for fin in [false, true] {
                    for len_bit in [false, true] {
                        out.push(FrameSpec::Stream {
                            sid,
                            offset,
                            len,
                            fin,
                            len_bit,
                        });
                    }
                }
            }
        }
        if len > 0 {
            out.push(FrameSpec::NewToken { len });
        }
        for with_len in [false, true] {
            out.push(FrameSpec::Datagram { with_len, len });
        }
    }

    for &seq in &v {
        for &retire in v.iter().filter(|r| **r <= seq) {
            let cls: Vec<usize> = if thorough { (1..=20).collect() } else { vec![1, 8, 20] };
            for cid_len in cls {
                out.push(FrameSpec::NewConnectionId {
                    seq,
                    retire,
                    cid_len,
                });
            }
        }
    }
    for fill in [0u8, 0xff, 0x21] {
        out.push(FrameSpec::PathChallenge { fill });
        out.push(FrameSpec::PathResponse { fill });
    }

    let reasons: Vec<usize> = if thorough {
        vec![0, 1, 62, 63, 64, 65, 16383, 16384, 16385]
    } else {
        vec![0, 1, 63, 64, 16383, 16384]
    };
    for &code in &v {
        for &reason_len in &reasons {
            for style in [0u8, 1] {
                out.push(FrameSpec::CloseApp {
                    code,
                    reason_len,
                    style,
                });
            }
        }
    }
    for kind in all_error_kinds() {
        for fty in all_frame_types() {
            for &reason_len in &reasons {
                out.push(FrameSpec::CloseQuic {
                    kind,
                    fty,
                    ext: false,
                    reason_len,
                    style: (reason_len % 2) as u8,
                });
            }
        }
        // extension frame types this build has no FrameType for
        for fty in [0x1fu64, 0x40, 0x3d7e97, max] {
            out.push(FrameSpec::CloseQuic {
                kind,
                fty,
                ext: true,
                reason_len: 5,
                style: 0,
            });
        }
    }

    // every TLS alert code
    for kind in 0x100..=0x1ffu64 {
        out.push(FrameSpec::CloseQuic {
            kind,
            fty: 0x06,
            ext: false,
            reason_len: 3,
            style: 0,
        });
    }

    let addrs = addresses().len();
    for &seq in &u32b {
        for addr in 0..addrs {
            for &tire in &u32b {
                for nat in 0u8..=5 {
                    out.push(FrameSpec::AddAddress {
                        seq,
                        addr,
                        tire,
                        nat,
                    });
                }
            }
        }
    }
    let tires: Vec<u32> = if thorough { u32b.clone() } else { vec![0, 64, u32::MAX] };
    for &local in &u32b {
        for &remote in &u32b {
            for addr in 0..addrs {
                for &tire in &tires {
                    for nat in [0u8, 3, 5] {
                        out.push(FrameSpec::PunchMeNow {
                            local,
                            remote,
                            addr,
                            tire,
                            nat,
                        });
                    }
                }
            }
            for &probe in &u32b {
                out.push(FrameSpec::PunchHello {
                    local,
                    remote,
                    probe,
                });
                out.push(FrameSpec::PunchDone {
                    local,
                    remote,
                    probe,
                });
            }
        }
    }
    out
}

pub fn run(thorough: bool) -> Acc {
    let cases = enumerate(thorough);
    let mut acc = super::run_sharded(&cases, check);
    acc.add("cases_enumerated", cases.len() as u64);
    acc
}

pub fn replay(input: &Value, acc: &mut Acc) -> Result<(), String> {
    let spec: FrameSpec = serde_json::from_value(input.clone()).map_err(|e| e.to_string())?;
    check(&spec, acc);
    for (k, n) in &acc.counters {
        println!("  {k} = {n}");
    }
    Ok(())
}

#[allow(dead_code)]
fn _unused(_: VarInt, _: &mut dyn BufMut) {}
