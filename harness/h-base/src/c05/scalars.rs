//! `scalars` — varints, connection ids, reset tokens, stream ids, addresses.
use std::{
    fmt::Debug,
    net::{SocketAddr, SocketAddrV4, SocketAddrV6},
};

use mc_core::panics::catch;
use qbase::{
    cid::{ConnectionId, WriteConnectionId, be_connection_id, be_connection_id_with_len},
    frame::EncodeSize,
    net::{
        AddrFamily, WriteSocketAddr,
        addr::{EndpointAddr, WriteEndpointAddr, be_endpoint_addr},
        be_socket_addr,
    },
    param::preferred_address::{PreferredAddress, WirtePreferredAddress, be_preferred_address},
    role::Role,
    sid::{Dir, StreamId, WriteStreamId, be_streamid},
    token::{ResetToken, WriteResetToken, be_reset_token},
    varint::{EncodeBytes, VarInt, WriteVarInt, be_varint},
};
use serde::{Deserialize, Serialize};
use serde_json::{Value, json};

use super::{
    Acc, B, b_neighbours,
    frames::addresses,
    util::{hex, pattern, vi},
};

const SENTINEL: [u8; 2] = [0xAA, 0x55];

#[derive(Debug, Clone, Serialize, Deserialize)]
#[serde(tag = "scalar")]
pub enum ScalarSpec {
    /// `nbytes` 0 = `put_varint` (minimal), otherwise `encode_varint` with that width
    VarInt { v: u64, nbytes: u8 },
    Cid { len: usize, seed: u8 },
    ResetToken { seed: u8 },
    StreamIdRaw { v: u64 },
    StreamIdNew { server: bool, uni: bool, id: u64 },
    SockAddr { addr: usize, port: u16 },
    Endpoint { agent: bool, a: usize, b: usize },
    Preferred { v4: usize, v6: usize, cid_len: usize, seed: u8 },
}

fn token(seed: u8) -> ResetToken {
    match seed {
        0 => ResetToken::new(&[0u8; 16]),
        0xff => ResetToken::new(&[0xffu8; 16]),
        s => ResetToken::new(&pattern(16, s)),
    }
}

/// Generic oracle: write, compare the announced size, parse with two sentinel bytes behind,
/// compare value and consumption.
fn roundtrip<T: PartialEq + Debug>(
    acc: &mut Acc,
    name: &str,
    spec: &ScalarSpec,
    value: &T,
    announced: impl FnOnce() -> Option<usize>,
    enc: impl FnOnce(&mut Vec<u8>),
    dec: impl FnOnce(&[u8]) -> Result<(usize, T), String>,
) {
    let input = || json!({"input": serde_json::to_value(spec).unwrap()});
    let encoded = match catch(|| {
        let mut b = Vec::new();
        enc(&mut b);
        b
    }) {
        Ok(b) => b,
        Err(p) => {
            acc.violation(
                &format!("panic/{name}/encode/{}", super::pclass(&p)),
                format!("encoding {spec:?} panics at {}: {}", super::ploc(&p), p.message),
                input(),
            );
            return;
        }
    };
    acc.encoding(&encoded);
    acc.count(&format!("kind.{name}"));
    if acc.samples.len() < 4 && encoded.len() >= 2 {
        acc.sample(json!({"value": serde_json::to_value(spec).unwrap(), "hex": hex(&encoded)}));
    }
    match catch(announced) {
        Err(p) => acc.violation(
            &format!("panic/{name}/encoding_size/{}", super::pclass(&p)),
            format!("encoding_size of {spec:?} panics at {}: {}", super::ploc(&p), p.message),
            input(),
        ),
        Ok(Some(a)) if a != encoded.len() => acc.violation(
            &format!("size/announced!=written/{name}"),
            format!(
                "{spec:?}: announced {a} bytes, wrote {} ({})",
                encoded.len(),
                hex(&encoded)
            ),
            input(),
        ),
        Ok(_) => {}
    }
    let mut wire = encoded.clone();
    wire.extend_from_slice(&SENTINEL);
    match catch(|| dec(&wire)) {
        Err(p) => acc.violation(
            &format!("panic/{name}/decode/{}", super::pclass(&p)),
            format!(
                "decoding {} (from {spec:?}) panics at {}: {}",
                hex(&wire),
                super::ploc(&p),
                p.message
            ),
            input(),
        ),
        Ok(Err(e)) => acc.violation(
            &format!("roundtrip/{name}/decode-error"),
            format!("{spec:?} encodes to {} but the parser rejects it: {e}", hex(&encoded)),
            input(),
        ),
        Ok(Ok((left, decoded))) => {
            acc.count("decoded_ok");
            if &decoded != value {
                acc.violation(
                    &format!("roundtrip/{name}/value-differs"),
                    format!(
                        "{spec:?}: wrote {value:?} as {}, read {decoded:?}",
                        hex(&encoded)
                    ),
                    input(),
                );
            }
            let consumed = wire.len() - left;
            if consumed != encoded.len() {
                acc.violation(
                    &format!("roundtrip/{name}/consumed!=written"),
                    format!(
                        "{spec:?}: {} bytes written, {consumed} consumed",
                        encoded.len()
                    ),
                    input(),
                );
            }
        }
    }
}

fn nom_res<T>(r: nom::IResult<&[u8], T>) -> Result<(usize, T), String> {
    r.map(|(rest, v)| (rest.len(), v)).map_err(|e| format!("{e:?}"))
}

pub fn check(spec: &ScalarSpec, acc: &mut Acc) {
    acc.evaluations += 1;
    let addrs = addresses();
    match spec {
        ScalarSpec::VarInt { v, nbytes } => {
            let Ok(x) = vi(*v) else {
                acc.count("not_constructible");
                return;
            };
            let name = if *nbytes == 0 { "varint" } else { "varint-wide" };
            roundtrip(
                acc,
                name,
                spec,
                &x,
                || Some(if *nbytes == 0 { x.encoding_size() } else { *nbytes as usize }),
                |b| match nbytes {
                    0 => b.put_varint(&x),
                    1 => b.encode_varint(&x, EncodeBytes::One),
                    2 => b.encode_varint(&x, EncodeBytes::Two),
                    4 => b.encode_varint(&x, EncodeBytes::Four),
                    _ => b.encode_varint(&x, EncodeBytes::Eight),
                },
                |w| nom_res(be_varint(w)),
            );
        }
        ScalarSpec::Cid { len, seed } => {
            let c = ConnectionId::from_slice(&pattern(*len, *seed));
            roundtrip(
                acc,
                "cid",
                spec,
                &c,
                || Some(c.encoding_size()),
                |b| b.put_connection_id(&c),
                |w| nom_res(be_connection_id(w)),
            );
            // the length-less form used by short headers and parameters
            roundtrip(
                acc,
                "cid-with-len",
                spec,
                &c,
                || Some(c.len()),
                |b| b.extend_from_slice(&c),
                |w| nom_res(be_connection_id_with_len(w, *len)),
            );
        }
        ScalarSpec::ResetToken { seed } => {
            let t = token(*seed);
            roundtrip(
                acc,
                "reset-token",
                spec,
                &t,
                || Some(t.encoding_size()),
                |b| b.put_reset_token(&t),
                |w| nom_res(be_reset_token(w)),
            );
        }
        ScalarSpec::StreamIdRaw { v } => {
            let Ok(x) = vi(*v) else {
                acc.count("not_constructible");
                return;
            };
            let s = StreamId::from(x);
            roundtrip(
                acc,
                "stream-id",
                spec,
                &s,
                || Some(s.encoding_size()),
                |b| b.put_streamid(&s),
                |w| nom_res(be_streamid(w)),
            );
        }
        ScalarSpec::StreamIdNew { server, uni, id } => {
            let role = if *server { Role::Server } else { Role::Client };
            let dir = if *uni { Dir::Uni } else { Dir::Bi };
            let s = match catch(|| StreamId::new(role, dir, *id)) {
                Ok(s) => s,
                Err(p) => {
                    acc.violation(
                        &format!("panic/stream-id/construct/{}", super::pclass(&p)),
                        format!("StreamId::new({role:?},{dir:?},{id}) panics: {}", p.message),
                        json!({"input": serde_json::to_value(spec).unwrap()}),
                    );
                    return;
                }
            };
            roundtrip(
                acc,
                "stream-id",
                spec,
                &(role, dir, *id),
                || Some(s.encoding_size()),
                |b| b.put_streamid(&s),
                |w| nom_res(be_streamid(w)).map(|(l, d)| (l, (d.role(), d.dir(), d.id()))),
            );
        }
        ScalarSpec::SockAddr { addr, port } => {
            let Some(a) = addrs.get(*addr) else { return };
            let a = SocketAddr::new(a.ip(), *port);
            roundtrip(
                acc,
                "socket-addr",
                spec,
                &a,
                || {
                    let (e, m) = (a.encoding_size(), a.max_encoding_size());
                    Some(if e <= m { e } else { usize::MAX })
                },
                |b| b.put_socket_addr(&a),
                |w| nom_res(be_socket_addr(w, a.family())),
            );
        }
        ScalarSpec::Endpoint { agent, a, b } => {
            let (Some(x), Some(y)) = (addrs.get(*a), addrs.get(*b)) else { return };
            if *agent && x.family() != y.family() {
                acc.count("not_constructible");
                return;
            }
            let e = if *agent {
                EndpointAddr::with_agent(*x, *y)
            } else {
                EndpointAddr::direct(*x)
            };
            roundtrip(
                acc,
                "endpoint-addr",
                spec,
                &e,
                || Some(e.encoding_size()),
                |buf| buf.put_endpoint_addr(e),
                |w| nom_res(be_endpoint_addr(w, *agent as u8, x.family())),
            );
        }
        ScalarSpec::Preferred {
            v4,
            v6,
            cid_len,
            seed,
        } => {
            let (Some(SocketAddr::V4(a4)), Some(SocketAddr::V6(a6))) =
                (addrs.get(*v4), addrs.get(*v6))
            else {
                acc.count("not_constructible");
                return;
            };
            let (a4, a6): (SocketAddrV4, SocketAddrV6) = (*a4, *a6);
            let p = PreferredAddress::new(
                a4,
                a6,
                ConnectionId::from_slice(&pattern(*cid_len, *seed)),
                token(*seed),
            );
            roundtrip(
                acc,
                "preferred-address",
                spec,
                &p,
                || Some(p.encoding_size()),
                |b| b.put_preferred_address(&p),
                |w| nom_res(be_preferred_address(w)),
            );
        }
    }
}

pub fn enumerate(thorough: bool) -> Vec<ScalarSpec> {
    let mut out = Vec::new();
    let mut vs = b_neighbours();
    vs.push(1 << 62); // not a varint: must be refused by the constructor
    vs.extend(0..=if thorough { 300_000u64 } else { 20_000 });
    for k in 0..62 {
        let p = 1u64 << k;
        vs.extend([p - 1, p, p + 1]);
    }
    vs.sort_unstable();
    vs.dedup();
    for &v in &vs {
        out.push(ScalarSpec::VarInt { v, nbytes: 0 });
        for (nbytes, bits) in [(1u8, 6u32), (2, 14), (4, 30), (8, 62)] {
            if v < 1u64 << bits {
                out.push(ScalarSpec::VarInt { v, nbytes });
            }
        }
        out.push(ScalarSpec::StreamIdRaw { v });
    }
    for len in 0..=20usize {
        for seed in [0u8, 0xff, 0x31] {
            out.push(ScalarSpec::Cid { len, seed });
        }
    }
    for seed in [0u8, 0xff, 0x31, 0x77] {
        out.push(ScalarSpec::ResetToken { seed });
    }
    let ids: Vec<u64> = {
        let mut s: Vec<u64> = B.iter().copied().filter(|x| *x < 1 << 60).collect();
        s.extend([(1 << 60) - 2, (1 << 60) - 1]);
        s
    };
    for server in [false, true] {
        for uni in [false, true] {
            for &id in &ids {
                out.push(ScalarSpec::StreamIdNew { server, uni, id });
            }
        }
    }
    let n = addresses().len();
    for addr in 0..n {
        for port in [0u16, 1, 255, 256, 443, 65535] {
            out.push(ScalarSpec::SockAddr { addr, port });
        }
        out.push(ScalarSpec::Endpoint {
            agent: false,
            a: addr,
            b: addr,
        });
        for b in 0..n {
            if addresses()[addr].family() == addresses()[b].family() {
                out.push(ScalarSpec::Endpoint {
                    agent: true,
                    a: addr,
                    b,
                });
            }
        }
    }
    for v4 in (0..n).filter(|i| addresses()[*i].is_ipv4()) {
        for v6 in (0..n).filter(|i| addresses()[*i].is_ipv6()) {
            // a preferred address never carries a zero-length connection id (RFC 9000 §18.2)
            for cid_len in if thorough { (1..=20).collect::<Vec<_>>() } else { vec![1, 2, 8, 20] } {
                for seed in [0u8, 0xff, 0x31] {
                    out.push(ScalarSpec::Preferred {
                        v4,
                        v6,
                        cid_len,
                        seed,
                    });
                }
            }
        }
    }
    out
}

pub fn run(thorough: bool) -> Acc {
    let cases = enumerate(thorough);
    let mut acc = super::run_sharded(&cases, check);
    acc.add("cases_enumerated", cases.len() as u64);
    acc
}

pub fn replay(input: &Value, acc: &mut Acc) -> Result<(), String> {
    let spec: ScalarSpec = serde_json::from_value(input.clone()).map_err(|e| e.to_string())?;
    check(&spec, acc);
    Ok(())
}

#[allow(dead_code)]
fn _unused(_: VarInt) {}
