//! `params` — transport-parameter sets per role.
use std::{fmt::Debug, time::Duration};

use bytes::Bytes;
use mc_core::panics::catch;
use qbase::{
    param::{
        ParameterId, ParameterValue, WriteParameters, be_raw_parameter, core::Parameters,
        preferred_address::PreferredAddress,
    },
    role::{Client, IntoRole, RequiredParameters, Server},
};
use serde::{Deserialize, Serialize};
use serde_json::{Value, json};

use super::{
    Acc, B,
    frames::addresses,
    util::{cid, hex, pattern, vi},
};

#[derive(Debug, Clone, PartialEq, Serialize, Deserialize)]
pub enum PVal {
    VarInt(u64),
    True,
    Bytes(usize),
    Ms(u64),
    Cid(usize),
    Token(u8),
    Preferred(usize),
}

#[derive(Debug, Clone, Serialize, Deserialize)]
pub struct ParamSpec {
    pub server: bool,
    /// (parameter id on the wire, value); later entries replace earlier ones
    pub params: Vec<(u64, PVal)>,
}

const ODCID: u64 = 0x00;
const ISCID: u64 = 0x0f;

struct IdInfo {
    id: u64,
    client: bool,
    server: bool,
    values: Vec<PVal>,
}

fn table() -> Vec<IdInfo> {
    let vis = |xs: &[u64]| xs.iter().map(|x| PVal::VarInt(*x)).collect::<Vec<_>>();
    let cids = || vec![PVal::Cid(0), PVal::Cid(1), PVal::Cid(8), PVal::Cid(20)];
    let streams: Vec<u64> = {
        let mut s: Vec<u64> = B.iter().copied().filter(|x| *x <= 1 << 60).collect();
        s.push(1 << 60);
        s
    };
    let both = |id: u64, values: Vec<PVal>| IdInfo {
        id,
        client: true,
        server: true,
        values,
    };
    let server = |id: u64, values: Vec<PVal>| IdInfo {
        id,
        client: false,
        server: true,
        values,
    };
    vec![
        server(ODCID, cids()),
        both(0x01, B.iter().map(|x| PVal::Ms(*x)).collect()),
        server(0x02, vec![PVal::Token(0), PVal::Token(0x31), PVal::Token(0xff)]),
        both(0x03, vis(&[1200, 1201, 16383, 16384, 65526, 65527])),
        both(0x04, vis(&B)),
        both(0x05, vis(&B)),
        both(0x06, vis(&B)),
        both(0x07, vis(&B)),
        both(0x08, vis(&streams)),
        both(0x09, vis(&streams)),
        both(0x0a, vis(&[0, 1, 3, 19, 20])),
        both(
            0x0b,
            [0u64, 1, 25, 63, 64, 16383].iter().map(|x| PVal::Ms(*x)).collect(),
        ),
        both(0x0c, vec![PVal::True]),
        server(0x0d, vec![PVal::Preferred(0), PVal::Preferred(1), PVal::Preferred(2)]),
        both(
            0x0e,
            vis(&[2, 3, 63, 64, 16383, 16384, (1 << 30) - 1, 1 << 30, (1 << 62) - 1]),
        ),
        both(ISCID, cids()),
        server(0x10, cids()),
        both(0x20, vis(&B)),
        both(0x2ab2, vec![PVal::True]),
        IdInfo {
            id: 0xffee,
            client: true,
            server: false,
            values: [0usize, 1, 63, 64, 16383, 16384]
                .iter()
                .map(|l| PVal::Bytes(*l))
                .collect(),
        },
    ]
}

fn preferred(i: usize) -> PreferredAddress {
    let addrs = addresses();
    let v4: Vec<_> = addrs
        .iter()
        .filter_map(|a| match a {
            std::net::SocketAddr::V4(a) => Some(*a),
            _ => None,
        })
        .collect();
    let v6: Vec<_> = addrs
        .iter()
        .filter_map(|a| match a {
            std::net::SocketAddr::V6(a) => Some(*a),
            _ => None,
        })
        .collect();
    let (cl, seed) = [(1usize, 0x00u8), (8, 0x31), (20, 0xff)][i % 3];
    let mut tok = [0u8; 16];
    tok.copy_from_slice(&pattern(16, seed));
    PreferredAddress::new(
        v4[i % v4.len()],
        v6[i % v6.len()],
        cid(cl, seed),
        qbase::token::ResetToken::new(&tok),
    )
}

fn value(v: &PVal) -> Result<ParameterValue, String> {
    Ok(match v {
        PVal::VarInt(x) => ParameterValue::VarInt(vi(*x)?),
        PVal::True => ParameterValue::True,
        PVal::Bytes(l) => ParameterValue::Bytes(Bytes::from(pattern(*l, 0x61))),
        PVal::Ms(ms) => ParameterValue::Duration(Duration::from_millis(*ms)),
        PVal::Cid(l) => ParameterValue::ConnectionId(cid(*l, 0x51)),
        PVal::Token(seed) => {
            let mut t = [0u8; 16];
            t.copy_from_slice(&match seed {
                0 => vec![0u8; 16],
                0xff => vec![0xffu8; 16],
                s => pattern(16, *s),
            });
            ParameterValue::ResetToken(qbase::token::ResetToken::new(&t))
        }
        PVal::Preferred(i) => ParameterValue::PreferredAddress(preferred(*i)),
    })
}

/// Own splitter (harness-side, trivial): id varint, length varint, value.
fn split(mut b: &[u8]) -> Option<Vec<Vec<u8>>> {
    fn varint(b: &[u8]) -> Option<(u64, usize)> {
        let first = *b.first()?;
        let n = 1usize << (first >> 6);
        if b.len() < n {
            return None;
        }
        let mut v = (first & 0x3f) as u64;
        for x in &b[1..n] {
            v = (v << 8) | *x as u64;
        }
        Some((v, n))
    }
    let mut out = Vec::new();
    while !b.is_empty() {
        let (_, a) = varint(b)?;
        let (len, l) = varint(&b[a..])?;
        let end = a + l + len as usize;
        if b.len() < end {
            return None;
        }
        out.push(b[..end].to_vec());
        b = &b[end..];
    }
    Some(out)
}

fn build<R: IntoRole + Default>(spec: &ParamSpec) -> Result<Parameters<R>, String> {
    let mut p = Parameters::<R>::new();
    for (id, v) in &spec.params {
        let pid = ParameterId::try_from(vi(*id)?).map_err(|e| e.to_string())?;
        p.set(pid, value(v)?).map_err(|e| format!("set({pid:?}): {e}"))?;
    }
    Ok(p)
}

/// Remembered server parameters (0-RTT) go through a second parser.
fn remembered(spec: &ParamSpec, acc: &mut Acc) {
    let input = || json!({"input": serde_json::to_value(spec).unwrap()});
    let name = "try_from_remembered_bytes";
    let r = catch(|| -> Result<_, String> {
        let original = build::<Server>(spec)?;
        let mut b: Vec<u8> = Vec::new();
        b.put_parameters(&original);
        let decoded = qbase::param::ServerParameters::try_from_remembered_bytes(&b);
        Ok((original, decoded, b))
    });
    match r {
        Ok(Err(_)) => {}
        Err(p) => acc.violation(
            &format!("panic/PARAMS/decode/{}", super::pclass(&p)),
            format!("{name} over the encoding of {spec:?} panics at {}: {}", super::ploc(&p), p.message),
            input(),
        ),
        Ok(Ok((_, Err(e), b))) => acc.violation(
            &format!("roundtrip/PARAMS/decode-error/{name}"),
            format!("{spec:?} encodes to {} but {name} rejects it: {e}", hex(&b)),
            input(),
        ),
        Ok(Ok((original, Ok(decoded), b))) => {
            acc.count("decoded_ok_remembered");
            if decoded != original {
                acc.violation(
                    &format!("roundtrip/PARAMS/value-differs/{name}"),
                    format!("{spec:?} encodes to {}; wrote {original:?}, {name} read {decoded:?}", hex(&b)),
                    input(),
                );
            }
        }
    }
}

fn go<R>(spec: &ParamSpec, acc: &mut Acc)
where
    R: IntoRole + RequiredParameters + Default + PartialEq + Debug,
{
    let role = if spec.server { "server" } else { "client" };
    let input = || json!({"input": serde_json::to_value(spec).unwrap()});
    // build through the public setter (which validates role and bounds)
    let built = catch(|| build::<R>(spec));
    let original = match built {
        Ok(Ok(p)) => p,
        Ok(Err(e)) => {
            acc.count("set_refused");
            if acc.verbose {
                println!("  not a legal assignment for this role: {e}");
            }
            return;
        }
        Err(p) => {
            acc.violation(
                &format!("panic/PARAMS/construct/{}", super::pclass(&p)),
                format!("building {spec:?} panics at {}: {}", super::ploc(&p), p.message),
                input(),
            );
            return;
        }
    };
    let encoded = match catch(|| {
        let mut b: Vec<u8> = Vec::new();
        b.put_parameters(&original);
        b
    }) {
        Ok(b) => b,
        Err(p) => {
            acc.violation(
                &format!("panic/PARAMS/encode/{}", super::pclass(&p)),
                format!("put_parameters({spec:?}) panics at {}: {}", super::ploc(&p), p.message),
                input(),
            );
            return;
        }
    };
    // canonical form for counting and display: parameters sorted
    let canon: Vec<u8> = match split(&encoded) {
        Some(mut chunks) => {
            chunks.sort();
            chunks.concat()
        }
        None => encoded.clone(),
    };
    acc.encoding(&canon);
    acc.count(&format!("role.{role}"));
    if acc.samples.len() < 4 {
        acc.sample(json!({"value": serde_json::to_value(spec).unwrap(), "hex": hex(&canon)}));
    }

    // the crate's own raw walk must end exactly at the end, one entry per parameter
    let walk = catch(|| {
        let mut b = &encoded[..];
        let mut n = 0usize;
        while !b.is_empty() {
            match be_raw_parameter(b) {
                Ok((rest, _)) => {
                    b = rest;
                    n += 1;
                }
                Err(e) => return Err(format!("{e:?} with {} bytes left", b.len())),
            }
        }
        Ok(n)
    });
    let distinct_ids = {
        let mut ids: Vec<u64> = spec.params.iter().map(|(i, _)| *i).collect();
        ids.sort_unstable();
        ids.dedup();
        ids.len()
    };
    match walk {
        Ok(Ok(n)) if n == distinct_ids => {}
        Ok(Ok(n)) => acc.violation(
            "roundtrip/PARAMS/consumed!=written",
            format!(
                "{spec:?}: {distinct_ids} parameters written as {}, be_raw_parameter walks {n} entries",
                hex(&canon)
            ),
            input(),
        ),
        Ok(Err(e)) => acc.violation(
            "roundtrip/PARAMS/consumed!=written",
            format!("{spec:?}: be_raw_parameter over {}: {e}", hex(&canon)),
            input(),
        ),
        Err(p) => acc.violation(
            &format!("panic/PARAMS/decode/{}", super::pclass(&p)),
            format!("be_raw_parameter over {} panics: {}", hex(&canon), p.message),
            input(),
        ),
    }

    let name = "parse_from_bytes";
    let parse = |b: &[u8]| Parameters::<R>::parse_from_bytes(b).map_err(|e| e.to_string());
    {
        match catch(|| parse(&encoded)) {
            Err(p) => acc.violation(
                &format!("panic/PARAMS/decode/{}", super::pclass(&p)),
                format!(
                    "{name} over {} (from {spec:?}) panics at {}: {}",
                    hex(&canon),
                    super::ploc(&p),
                    p.message
                ),
                input(),
            ),
            Ok(Err(e)) => acc.violation(
                &format!("roundtrip/PARAMS/decode-error/{name}"),
                format!("{spec:?} encodes to {} but {name} rejects it: {e}", hex(&canon)),
                input(),
            ),
            Ok(Ok(decoded)) => {
                acc.count("decoded_ok");
                if decoded != original {
                    acc.violation(
                        &format!("roundtrip/PARAMS/value-differs/{name}"),
                        format!(
                            "{spec:?} encodes to {}; wrote {original:?}, {name} read {decoded:?}",
                            hex(&canon)
                        ),
                        input(),
                    );
                }
            }
        }
    }
}

pub fn check(spec: &ParamSpec, acc: &mut Acc) {
    acc.evaluations += 1;
    if spec.server {
        go::<Server>(spec, acc);
        remembered(spec, acc)
    } else {
        go::<Client>(spec, acc)
    }
}

fn pick3(values: &[PVal]) -> Vec<PVal> {
    let mut v = vec![
        values[0].clone(),
        values[values.len() / 2].clone(),
        values[values.len() - 1].clone(),
    ];
    v.dedup();
    v
}

pub fn enumerate(thorough: bool) -> Vec<ParamSpec> {
    let t = table();
    let mut out = Vec::new();
    for server in [false, true] {
        let base: Vec<(u64, PVal)> = if server {
            vec![(ISCID, PVal::Cid(8)), (ODCID, PVal::Cid(8))]
        } else {
            vec![(ISCID, PVal::Cid(8))]
        };
        let legal: Vec<&IdInfo> = t
            .iter()
            .filter(|i| if server { i.server } else { i.client })
            .collect();
        out.push(ParamSpec {
            server,
            params: base.clone(),
        });
        // singles
        for info in &legal {
            for v in &info.values {
                let mut params = base.clone();
                params.push((info.id, v.clone()));
                out.push(ParamSpec { server, params });
            }
        }
        // pairs
        for (i, a) in legal.iter().enumerate() {
            for b in &legal[i + 1..] {
                let (va, vb) = if thorough {
                    (a.values.clone(), b.values.clone())
                } else {
                    (pick3(&a.values), pick3(&b.values))
                };
                for x in &va {
                    for y in &vb {
                        let mut params = base.clone();
                        params.push((a.id, x.clone()));
                        params.push((b.id, y.clone()));
                        out.push(ParamSpec { server, params });
                    }
                }
            }
        }
        // the full legal set at min / mid / max
        for k in 0..3 {
            let params = legal
                .iter()
                .map(|info| {
                    let idx = match k {
                        0 => 0,
                        1 => info.values.len() / 2,
                        _ => info.values.len() - 1,
                    };
                    (info.id, info.values[idx].clone())
                })
                .collect();
            out.push(ParamSpec { server, params });
        }
    }
    // "valid for a role" (RFC 9000 §18.2): a server that chooses a zero-length connection id
    // must not provide a preferred address — such an assignment is outside the domain.
    out.retain(|s| {
        let has_pref = s.params.iter().any(|(id, _)| *id == 0x0d);
        let iscid0 = s
            .params
            .iter()
            .rev()
            .find(|(id, _)| *id == ISCID)
            .is_some_and(|(_, v)| matches!(v, PVal::Cid(0)));
        !(has_pref && iscid0)
    });
    out
}

pub fn run(thorough: bool) -> Acc {
    let cases = enumerate(thorough);
    let mut acc = super::run_sharded(&cases, check);
    acc.add("cases_enumerated", cases.len() as u64);
    acc
}

pub fn replay(input: &Value, acc: &mut Acc) -> Result<(), String> {
    let spec: ParamSpec = serde_json::from_value(input.clone()).map_err(|e| e.to_string())?;
    check(&spec, acc);
    Ok(())
}
