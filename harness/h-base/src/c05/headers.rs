//! `headers` — long and short packet headers.
use bytes::BytesMut;
use mc_core::panics::catch;
use qbase::{
    cid::ConnectionId,
    frame::{PaddingFrame, PingFrame},
    packet::{
        AssemblePacket, EncodeHeader, GetDcid, GetScid, GetType, Header, KeyPhaseBit,
        LongHeaderBuilder, OneRttHeader, Package, Packet, PacketNumber, PacketReader,
        PacketWriter, SpinBit,
        header::io::{WriteHeader, be_header},
        r#type::{Type, io::be_packet_type},
    },
};
use serde::{Deserialize, Serialize};
use serde_json::{Value, json};

use super::{
    Acc,
    util::{cid, hex, no_keys, pattern},
};

/// Behind a self-delimiting header: something that looks like Length + packet number.
const SENTINEL: [u8; 4] = [0x40, 0x15, 0x00, 0x01];

#[derive(Debug, Clone, Serialize, Deserialize)]
#[serde(tag = "header")]
pub enum HeaderSpec {
    Initial { dcid: usize, scid: usize, token: usize },
    ZeroRtt { dcid: usize, scid: usize },
    Handshake { dcid: usize, scid: usize },
    Retry { dcid: usize, scid: usize, token: usize },
    VersionNegotiation { dcid: usize, scid: usize, versions: usize },
    OneRtt { dcid: usize, spin: bool },
}

impl HeaderSpec {
    fn kind(&self) -> &'static str {
        match self {
            HeaderSpec::Initial { .. } => "HDR-Initial",
            HeaderSpec::ZeroRtt { .. } => "HDR-0RTT",
            HeaderSpec::Handshake { .. } => "HDR-Handshake",
            HeaderSpec::Retry { .. } => "HDR-Retry",
            HeaderSpec::VersionNegotiation { .. } => "HDR-VN",
            HeaderSpec::OneRtt { .. } => "HDR-1RTT",
        }
    }

    fn dcid_len(&self) -> usize {
        match self {
            HeaderSpec::Initial { dcid, .. }
            | HeaderSpec::ZeroRtt { dcid, .. }
            | HeaderSpec::Handshake { dcid, .. }
            | HeaderSpec::Retry { dcid, .. }
            | HeaderSpec::VersionNegotiation { dcid, .. }
            | HeaderSpec::OneRtt { dcid, .. } => *dcid,
        }
    }

    fn build(&self) -> Header {
        let b = |d: usize, s: usize| LongHeaderBuilder::with_cid(cid(d, 0x41), cid(s, 0x83));
        match *self {
            HeaderSpec::Initial { dcid, scid, token } => {
                Header::Initial(b(dcid, scid).initial(pattern(token, 0x17)))
            }
            HeaderSpec::ZeroRtt { dcid, scid } => Header::ZeroRtt(b(dcid, scid).zero_rtt()),
            HeaderSpec::Handshake { dcid, scid } => Header::Handshake(b(dcid, scid).handshake()),
            HeaderSpec::Retry { dcid, scid, token } => {
                let mut integrity = [0u8; 16];
                integrity.copy_from_slice(&pattern(16, 0xC3));
                Header::Retry(b(dcid, scid).retry(pattern(token, 0x19), integrity))
            }
            HeaderSpec::VersionNegotiation {
                dcid,
                scid,
                versions,
            } => Header::VN(b(dcid, scid).vn(versions_list(versions))),
            HeaderSpec::OneRtt { dcid, spin } => Header::OneRtt(OneRttHeader::new(
                if spin { SpinBit::One } else { SpinBit::Zero },
                cid(dcid, 0x41),
            )),
        }
    }
}

fn versions_list(n: usize) -> Vec<u32> {
    (0..n)
        .map(|i| match i {
            0 => 1,
            1 => 0x0a0a_0a0a,
            2 => 0xffff_ffff,
            k => 0x6b33_43cf_u32.wrapping_add(k as u32),
        })
        .collect()
}

/// The announced size, for the kinds that have one.
fn announced(h: &Header) -> Option<usize> {
    match h {
        Header::Initial(h) => Some(h.size()),
        Header::ZeroRtt(h) => Some(h.size()),
        Header::Handshake(h) => Some(h.size()),
        Header::OneRtt(h) => Some(h.size()),
        Header::Retry(_) | Header::VN(_) => None,
    }
}

fn get_type(h: &Header) -> Type {
    match h {
        Header::VN(h) => h.get_type(),
        Header::Retry(h) => h.get_type(),
        Header::Initial(h) => h.get_type(),
        Header::ZeroRtt(h) => h.get_type(),
        Header::Handshake(h) => h.get_type(),
        Header::OneRtt(h) => h.get_type(),
    }
}

/// Field-wise comparison (the header types do not implement `PartialEq`).
fn differs(a: &Header, b: &Header) -> Option<String> {
    fn cids(
        a: (&ConnectionId, &ConnectionId),
        b: (&ConnectionId, &ConnectionId),
    ) -> Option<String> {
        if a.0 != b.0 {
            return Some(format!("dcid {:?} vs {:?}", a.0, b.0));
        }
        if a.1 != b.1 {
            return Some(format!("scid {:?} vs {:?}", a.1, b.1));
        }
        None
    }
    match (a, b) {
        (Header::Initial(x), Header::Initial(y)) => cids((x.dcid(), x.scid()), (y.dcid(), y.scid()))
            .or_else(|| {
                (x.token() != y.token()).then(|| {
                    format!("token {} vs {}", hex(x.token()), hex(y.token()))
                })
            }),
        (Header::ZeroRtt(x), Header::ZeroRtt(y)) => {
            cids((x.dcid(), x.scid()), (y.dcid(), y.scid()))
        }
        (Header::Handshake(x), Header::Handshake(y)) => {
            cids((x.dcid(), x.scid()), (y.dcid(), y.scid()))
        }
        (Header::Retry(x), Header::Retry(y)) => cids((x.dcid(), x.scid()), (y.dcid(), y.scid()))
            .or_else(|| {
                (x.token() != y.token() || x.integrity() != y.integrity()).then(|| {
                    format!(
                        "token/integrity {}/{} vs {}/{}",
                        hex(x.token()),
                        hex(x.integrity()),
                        hex(y.token()),
                        hex(y.integrity())
                    )
                })
            }),
        (Header::VN(x), Header::VN(y)) => cids((x.dcid(), x.scid()), (y.dcid(), y.scid()))
            .or_else(|| {
                (x.versions() != y.versions())
                    .then(|| format!("versions {:x?} vs {:x?}", x.versions(), y.versions()))
            }),
        (Header::OneRtt(x), Header::OneRtt(y)) => {
            (x != y).then(|| format!("{x:?} vs {y:?}"))
        }
        (a, b) => Some(format!(
            "a different header kind: {:?} vs {:?}",
            get_type(a),
            get_type(b)
        )),
    }
}

fn put(h: &Header, buf: &mut Vec<u8>) {
    match h {
        Header::VN(h) => buf.put_header(h),
        Header::Retry(h) => buf.put_header(h),
        Header::Initial(h) => buf.put_header(h),
        Header::ZeroRtt(h) => buf.put_header(h),
        Header::Handshake(h) => buf.put_header(h),
        Header::OneRtt(h) => buf.put_header(h),
    }
}

/// Assembles a whole packet with the real `PacketWriter` (transparent keys), parses it with the
/// real `PacketReader`; returns (bytes sent, parsed packet).
fn through_packet_writer(
    h: &Header,
    dcid_len: usize,
) -> Result<(usize, Vec<u8>, Option<Result<Packet, String>>), String> {
    let mut buf = vec![0u8; 1500 + 16 * 1024 + 400];
    let pn = (7u64, PacketNumber::U16(7));
    let mut w: PacketWriter<'_> = match h {
        Header::Initial(h) => PacketWriter::new_long(h, &mut buf, pn, no_keys()),
        Header::ZeroRtt(h) => PacketWriter::new_long(h, &mut buf, pn, no_keys()),
        Header::Handshake(h) => PacketWriter::new_long(h, &mut buf, pn, no_keys()),
        Header::OneRtt(h) => PacketWriter::new_short(h, &mut buf, pn, no_keys(), KeyPhaseBit::Zero),
        _ => return Err("no payload".into()),
    }
    .map_err(|s| format!("PacketWriter refused the header: {s:?}"))?;
    let _ = PingFrame.dump(&mut w);
    // 40 bytes of payload
    let mut n = 0;
    while n < 39 && PaddingFrame.dump(&mut w).is_ok() {
        n += 1;
    }
    let (sent, _info) = w.encrypt_and_protect_packet();
    let bytes = buf[..sent].to_vec();
    let datagram = BytesMut::from(&bytes[..]);
    let parsed = PacketReader::new(datagram, dcid_len)
        .next()
        .map(|r| r.map_err(|e| format!("{e:?}")));
    Ok((sent, bytes, parsed))
}

pub fn check(spec: &HeaderSpec, acc: &mut Acc) {
    acc.evaluations += 1;
    let kind = spec.kind();
    let input = || json!({"input": serde_json::to_value(spec).unwrap()});
    let header = match catch(|| spec.build()) {
        Ok(h) => h,
        Err(p) => {
            acc.violation(
                &format!("panic/{kind}/construct/{}", super::pclass(&p)),
                format!("building {spec:?} panics at {}: {}", super::ploc(&p), p.message),
                input(),
            );
            return;
        }
    };
    let encoded = match catch(|| {
        let mut b = Vec::new();
        put(&header, &mut b);
        b
    }) {
        Ok(b) => b,
        Err(p) => {
            acc.violation(
                &format!("panic/{kind}/encode/{}", super::pclass(&p)),
                format!("put_header({spec:?}) panics at {}: {}", super::ploc(&p), p.message),
                input(),
            );
            return;
        }
    };
    acc.encoding(&encoded);
    acc.count(&format!("kind.{kind}"));
    if acc.samples.len() < 4 {
        acc.sample(json!({"value": serde_json::to_value(spec).unwrap(), "hex": hex(&encoded)}));
    }
    match catch(|| announced(&header)) {
        Ok(Some(a)) if a != encoded.len() => acc.violation(
            &format!("size/announced!=written/{kind}"),
            format!(
                "{spec:?}: size() announces {a} bytes, put_header writes {} ({})",
                encoded.len(),
                hex(&encoded)
            ),
            input(),
        ),
        Ok(_) => {}
        Err(p) => acc.violation(
            &format!("panic/{kind}/size/{}", super::pclass(&p)),
            format!("size() of {spec:?} panics at {}: {}", super::ploc(&p), p.message),
            input(),
        ),
    }

    // parse back; Retry and VN run to the end of the datagram by definition
    let open = matches!(header, Header::Retry(_) | Header::VN(_));
    let mut wire = encoded.clone();
    if !open {
        wire.extend_from_slice(&SENTINEL);
    }
    let dcid_len = spec.dcid_len();
    let parsed = catch(|| -> Result<(usize, usize, Type, Header), String> {
        let (rest, ty) = be_packet_type(&wire).map_err(|e| format!("packet type: {e:?}"))?;
        let type_len = wire.len() - rest.len();
        let (rest, h) = be_header(ty, dcid_len, rest).map_err(|e| format!("header: {e:?}"))?;
        Ok((type_len, rest.len(), ty, h))
    });
    match parsed {
        Err(p) => acc.violation(
            &format!("panic/{kind}/decode/{}", super::pclass(&p)),
            format!(
                "parsing {} (from {spec:?}) panics at {}: {}",
                hex(&wire),
                super::ploc(&p),
                p.message
            ),
            input(),
        ),
        Ok(Err(e)) => acc.violation(
            &format!("roundtrip/{kind}/decode-error"),
            format!("{spec:?} encodes to {} but the parser rejects it: {e}", hex(&encoded)),
            input(),
        ),
        Ok(Ok((type_len, left, ty, decoded))) => {
            acc.count("decoded_ok");
            if ty != get_type(&header) {
                acc.violation(
                    &format!("roundtrip/{kind}/type-differs"),
                    format!("{spec:?}: wrote {:?}, read {ty:?}", get_type(&header)),
                    input(),
                );
            }
            if type_len != ty.encoding_size() {
                acc.violation(
                    &format!("size/announced!=written/{kind}-type"),
                    format!(
                        "{spec:?}: Type::encoding_size() = {}, be_packet_type consumed {type_len}",
                        ty.encoding_size()
                    ),
                    input(),
                );
            }
            if let Some(d) = differs(&header, &decoded) {
                acc.violation(
                    &format!("roundtrip/{kind}/value-differs"),
                    format!("{spec:?} encodes to {} and parses to {d}", hex(&encoded)),
                    input(),
                );
            }
            let consumed = wire.len() - left;
            if consumed != encoded.len() {
                acc.violation(
                    &format!("roundtrip/{kind}/consumed!=written"),
                    format!(
                        "{spec:?}: {} bytes written, {consumed} consumed",
                        encoded.len()
                    ),
                    input(),
                );
            }
        }
    }

    // the consumer of size(): a whole packet through PacketWriter and PacketReader
    if open {
        return;
    }
    match catch(|| through_packet_writer(&header, dcid_len)) {
        Err(p) => acc.violation(
            &format!("panic/{kind}/packet-writer/{}", super::pclass(&p)),
            format!(
                "assembling a packet with {spec:?} panics at {}: {}",
                super::ploc(&p), p.message
            ),
            input(),
        ),
        Ok(Err(e)) => {
            acc.count("packet_writer_refused");
            if acc.verbose {
                println!("  {e}");
            }
        }
        Ok(Ok((sent, bytes, parsed))) => {
            acc.count("packets_assembled");
            acc.encoding(&bytes);
            let long = !matches!(header, Header::OneRtt(_));
            let expect_offset = encoded.len() + if long { 2 } else { 0 };
            match parsed {
                None => acc.violation(
                    &format!("roundtrip/{kind}/packet-decode-error"),
                    format!("{spec:?}: PacketReader yields nothing for {}", hex(&bytes)),
                    input(),
                ),
                Some(Err(e)) => acc.violation(
                    &format!("roundtrip/{kind}/packet-decode-error"),
                    format!(
                        "{spec:?}: PacketWriter produced {} which PacketReader rejects: {e}",
                        hex(&bytes)
                    ),
                    input(),
                ),
                Some(Ok(Packet::Data(p))) => {
                    let got: Header = match &p.header {
                        qbase::packet::DataHeader::Long(qbase::packet::long::DataHeader::Initial(h)) => {
                            Header::Initial(h.clone())
                        }
                        qbase::packet::DataHeader::Long(qbase::packet::long::DataHeader::ZeroRtt(h)) => {
                            Header::ZeroRtt(h.clone())
                        }
                        qbase::packet::DataHeader::Long(
                            qbase::packet::long::DataHeader::Handshake(h),
                        ) => Header::Handshake(h.clone()),
                        qbase::packet::DataHeader::Short(h) => Header::OneRtt(*h),
                    };
                    if let Some(d) = differs(&header, &got) {
                        acc.violation(
                            &format!("roundtrip/{kind}/packet-value-differs"),
                            format!("{spec:?}: packet {} parses to {d}", hex(&bytes)),
                            input(),
                        );
                    }
                    if p.offset != expect_offset || p.bytes.len() != sent {
                        acc.violation(
                            &format!("roundtrip/{kind}/packet-consumed!=written"),
                            format!(
                                "{spec:?}: {sent} bytes sent with the payload at {expect_offset}; the reader took {} bytes with the payload at {}",
                                p.bytes.len(),
                                p.offset
                            ),
                            input(),
                        );
                    }
                }
                Some(Ok(other)) => acc.violation(
                    &format!("roundtrip/{kind}/packet-value-differs"),
                    format!("{spec:?}: parsed as {other:?}"),
                    input(),
                ),
            }
        }
    }
}

pub fn enumerate(thorough: bool) -> Vec<HeaderSpec> {
    let lens: Vec<usize> = if thorough { (0..=20).collect() } else { vec![0, 1, 8, 20] };
    let tokens: Vec<usize> = if thorough {
        vec![0, 1, 62, 63, 64, 65, 300, 16383, 16384]
    } else {
        vec![0, 1, 63, 64, 300]
    };
    let mut out = Vec::new();
    for &dcid in &lens {
        for &scid in &lens {
            for &token in &tokens {
                out.push(HeaderSpec::Initial { dcid, scid, token });
                out.push(HeaderSpec::Retry { dcid, scid, token });
            }
            out.push(HeaderSpec::ZeroRtt { dcid, scid });
            out.push(HeaderSpec::Handshake { dcid, scid });
            for versions in [1usize, 2, 16] {
                out.push(HeaderSpec::VersionNegotiation {
                    dcid,
                    scid,
                    versions,
                });
            }
        }
        for spin in [false, true] {
            out.push(HeaderSpec::OneRtt { dcid, spin });
        }
    }
    out
}

pub fn run(thorough: bool) -> Acc {
    let cases = enumerate(thorough);
    let mut acc = super::run_sharded(&cases, check);
    acc.add("cases_enumerated", cases.len() as u64);
    acc
}

pub fn replay(input: &Value, acc: &mut Acc) -> Result<(), String> {
    let spec: HeaderSpec = serde_json::from_value(input.clone()).map_err(|e| e.to_string())?;
    check(&spec, acc);
    Ok(())
}
