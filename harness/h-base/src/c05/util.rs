//! Shared helpers: byte patterns, hex, transparent keys, a real `PacketWriter` with a chosen
//! amount of room.
use std::sync::Arc;

use bytes::{BufMut, Bytes};
use qbase::{
    cid::ConnectionId,
    packet::{
        KeyPhaseBit, LongHeaderBuilder, OneRttHeader, PacketNumber, PacketWriter, SpinBit,
        keys::DirectionalKeys,
        r#type::{
            Type,
            long::{Type as LongType, Ver1},
            short::OneRtt,
        },
    },
    varint::VarInt,
};
use serde::{Deserialize, Serialize};

pub fn vi(x: u64) -> Result<VarInt, String> {
    VarInt::from_u64(x).map_err(|_| format!("{x} is not a varint"))
}

/// Position-identifying bytes.
pub fn pattern(len: usize, seed: u8) -> Vec<u8> {
    (0..len)
        .map(|i| (i as u8).wrapping_mul(31).wrapping_add(seed))
        .collect()
}

pub fn pattern_bytes(len: usize, seed: u8) -> Bytes {
    Bytes::from(pattern(len, seed))
}

/// A valid UTF-8 string of exactly `len` bytes; style 1 uses two-byte characters.
pub fn reason(len: usize, style: u8) -> String {
    let mut s = String::with_capacity(len);
    if style == 1 {
        while s.len() + 2 <= len {
            s.push('é');
        }
    }
    let mut i = 0u8;
    while s.len() < len {
        s.push((b'a' + i % 26) as char);
        i = i.wrapping_add(1);
    }
    s
}

pub fn hex(b: &[u8]) -> String {
    let mut s = String::new();
    for x in b.iter().take(40) {
        s.push_str(&format!("{x:02x}"));
    }
    if b.len() > 40 {
        s.push_str(&format!("…({} bytes)", b.len()));
    }
    s
}

pub fn cid(len: usize, seed: u8) -> ConnectionId {
    ConnectionId::from_slice(&pattern(len, seed))
}

#[derive(Debug, Clone, Copy, PartialEq, Eq, Serialize, Deserialize)]
pub enum Pkt {
    Initial,
    ZeroRtt,
    Handshake,
    OneRtt,
}

impl Pkt {
    pub const ALL: [Pkt; 4] = [Pkt::Initial, Pkt::ZeroRtt, Pkt::Handshake, Pkt::OneRtt];

    pub fn ty(self) -> Type {
        match self {
            Pkt::Initial => Type::Long(LongType::V1(Ver1::INITIAL)),
            Pkt::ZeroRtt => Type::Long(LongType::V1(Ver1::ZERO_RTT)),
            Pkt::Handshake => Type::Long(LongType::V1(Ver1::HANDSHAKE)),
            Pkt::OneRtt => Type::Short(OneRtt(SpinBit::Zero)),
        }
    }
}

/// Keys that do nothing, as in qbase's own packet writer test.
pub struct NoKeys;

impl rustls::quic::PacketKey for NoKeys {
    fn decrypt_in_place<'a>(
        &self,
        _packet_number: u64,
        _header: &[u8],
        payload: &'a mut [u8],
    ) -> Result<&'a [u8], rustls::Error> {
        let n = payload.len() - self.tag_len();
        Ok(&payload[..n])
    }

    fn encrypt_in_place(
        &self,
        _packet_number: u64,
        _header: &[u8],
        _payload: &mut [u8],
    ) -> Result<rustls::quic::Tag, rustls::Error> {
        Ok(rustls::quic::Tag::from(&[0xA5u8; 16][..]))
    }

    fn confidentiality_limit(&self) -> u64 {
        u64::MAX
    }

    fn integrity_limit(&self) -> u64 {
        u64::MAX
    }

    fn tag_len(&self) -> usize {
        16
    }
}

impl rustls::quic::HeaderProtectionKey for NoKeys {
    fn decrypt_in_place(
        &self,
        _sample: &[u8],
        _first: &mut u8,
        _packet_number: &mut [u8],
    ) -> Result<(), rustls::Error> {
        Ok(())
    }

    fn encrypt_in_place(
        &self,
        _sample: &[u8],
        _first: &mut u8,
        _packet_number: &mut [u8],
    ) -> Result<(), rustls::Error> {
        Ok(())
    }

    fn sample_len(&self) -> usize {
        16
    }
}

pub fn no_keys() -> DirectionalKeys {
    DirectionalKeys {
        header: Arc::new(NoKeys),
        packet: Arc::new(NoKeys),
    }
}

/// Runs `f` on a real `PacketWriter` of packet kind `pkt` whose `remaining_mut()` is exactly
/// `room`; returns `f`'s result and the payload bytes written behind the packet number.
pub fn with_writer<R>(
    pkt: Pkt,
    room: usize,
    f: impl FnOnce(&mut PacketWriter<'_>) -> R,
) -> Result<(R, Vec<u8>), String> {
    let empty = ConnectionId::from_slice(&[]);
    let pn = (0u64, PacketNumber::U32(0));
    let tag = 16;
    let (prefix, mut buf);
    let mut w = match pkt {
        Pkt::OneRtt => {
            prefix = 1 + 4;
            buf = vec![0u8; prefix + room + tag];
            let hdr = OneRttHeader::new(SpinBit::Zero, empty);
            PacketWriter::new_short(&hdr, &mut buf, pn, no_keys(), KeyPhaseBit::Zero)
        }
        Pkt::Initial => {
            prefix = 1 + 4 + 1 + 1 + 1 + 2 + 4;
            buf = vec![0u8; prefix + room + tag];
            let hdr = LongHeaderBuilder::with_cid(empty, empty).initial(Vec::new());
            PacketWriter::new_long(&hdr, &mut buf, pn, no_keys())
        }
        Pkt::ZeroRtt => {
            prefix = 1 + 4 + 1 + 1 + 2 + 4;
            buf = vec![0u8; prefix + room + tag];
            let hdr = LongHeaderBuilder::with_cid(empty, empty).zero_rtt();
            PacketWriter::new_long(&hdr, &mut buf, pn, no_keys())
        }
        Pkt::Handshake => {
            prefix = 1 + 4 + 1 + 1 + 2 + 4;
            buf = vec![0u8; prefix + room + tag];
            let hdr = LongHeaderBuilder::with_cid(empty, empty).handshake();
            PacketWriter::new_long(&hdr, &mut buf, pn, no_keys())
        }
    }
    .map_err(|s| format!("PacketWriter refused a {}-byte buffer: {s:?}", prefix + room + tag))?;
    if w.remaining_mut() != room {
        return Err(format!(
            "harness: PacketWriter room is {} instead of {room}",
            w.remaining_mut()
        ));
    }
    let r = f(&mut w);
    let used = room - w.remaining_mut();
    drop(w);
    Ok((r, buf[prefix..prefix + used].to_vec()))
}
