//! h-base: harnesses that need qbase only.
mod c03;
mod c05;
mod c06;
mod c07b;
mod c18;

fn main() {
    let args = mc_core::Args::parse();
    let code = match args.property.as_str() {
        "C03" => c03::run(&args),
        "C05" => c05::run(&args),
        "C06" => c06::run(&args),
        "C07b" => c07b::run(&args),
        "C18" => c18::run(&args),
        other => {
            eprintln!("h-base: unknown property {other}");
            2
        }
    };
    std::process::exit(code);
}
