//! C06 — moved to the h-conn crate (it drives the real `qinterface` `CipherPacket`):
//! `/verif/harness/h-conn/src/c06.rs`.
use mc_core::Args;

pub fn run(_args: &Args) -> i32 {
    eprintln!("C06: moved to h-conn (target/checked/h-conn C06)");
    2
}
