//! C05 — every encodable value decodes back to itself, in the size it declared.
//!
//! E0 value enumeration over the real qbase codecs. Sub-checks:
//!
//! * `scalars`   — varints (`put_varint`/`encode_varint`/`be_varint`/`encoding_size`), connection
//!                 ids, reset tokens, stream ids, socket / endpoint / preferred addresses;
//! * `frames`    — every frame kind × boundary products: written == `encoding_size()` ≤
//!                 `max_encoding_size()`, `FrameReader` round trip in every packet type the frame
//!                 `belongs_to`, exact consumption, `Package::dump` at the admission boundary of a
//!                 real `PacketWriter`;
//! * `admission` — the size admission of data frames exactly as the senders use it
//!                 (`estimate_max_capacity` → `encoding_strategy` → `dump`) over capacities around
//!                 every varint width boundary;
//! * `headers`   — all long/short header kinds × cid lengths × token lengths: `put_header` vs
//!                 `be_packet_type`+`be_header`, `EncodeHeader::size()`, and a whole packet through
//!                 `PacketWriter` → `PacketReader` with transparent keys;
//! * `params`    — transport-parameter sets per role (singles, pairs, full sets):
//!                 `put_parameters` → `parse_from_bytes` / `try_from_remembered_bytes`.
//!
//! A case is always described by a small serialisable *spec* (never by the object), so that a
//! violation file can be replayed with `--replay`.
use std::{
    collections::{BTreeMap, HashSet},
    hash::{Hash, Hasher},
};

use mc_core::{Args, Report, report::Coverage};
use serde_json::{Map, Value, json};

mod admission;
mod frames;
mod headers;
mod params;
mod scalars;
mod util;

/// The varint boundary set of DESIGN.md §2.3.
pub const B: [u64; 9] = [
    0,
    1,
    63,
    64,
    16383,
    16384,
    (1 << 30) - 1,
    1 << 30,
    (1 << 62) - 1,
];

/// `B` plus the ±1 neighbours that are still varints.
pub fn b_neighbours() -> Vec<u64> {
    let mut v: Vec<u64> = Vec::new();
    for b in B {
        for d in [-1i64, 0, 1] {
            let x = b as i128 + d as i128;
            if (0..(1i128 << 62)).contains(&x) {
                v.push(x as u64);
            }
        }
    }
    v.sort_unstable();
    v.dedup();
    v
}

/// One recorded violation class of a shard.
#[derive(Debug, Clone)]
pub struct Hit {
    pub detail: String,
    pub replay: Value,
    pub hits: u64,
}

/// Per-shard accumulator; shards are merged in enumeration order, so everything that reaches
/// the report is independent of thread timing.
#[derive(Default)]
pub struct Acc {
    pub evaluations: u64,
    pub violations: BTreeMap<String, Hit>,
    pub distinct: HashSet<u128>,
    pub counters: BTreeMap<String, u64>,
    pub samples: Vec<Value>,
    pub verbose: bool,
}

impl Acc {
    pub fn new() -> Acc {
        Acc::default()
    }

    pub fn count(&mut self, key: &str) {
        *self.counters.entry(key.to_string()).or_insert(0) += 1;
    }

    pub fn add(&mut self, key: &str, n: u64) {
        *self.counters.entry(key.to_string()).or_insert(0) += n;
    }

    /// Records an encoding for the `distinct_nontrivial` count (rule: length ≥ 2).
    pub fn encoding(&mut self, bytes: &[u8]) {
        if bytes.len() >= 2 {
            self.distinct.insert(hash_bytes(bytes));
        }
    }

    pub fn sample(&mut self, v: Value) {
        if self.samples.len() < 4 {
            self.samples.push(v);
        }
    }

    pub fn violation(&mut self, sig: &str, detail: String, replay: Value) {
        if self.verbose {
            println!("  {sig} — {detail}");
        }
        self.violations
            .entry(sig.to_string())
            .and_modify(|h| h.hits += 1)
            .or_insert(Hit {
                detail,
                replay,
                hits: 1,
            });
    }

    pub fn merge(&mut self, other: Acc) {
        self.evaluations += other.evaluations;
        for (sig, h) in other.violations {
            match self.violations.get_mut(&sig) {
                Some(mine) => mine.hits += h.hits,
                None => {
                    self.violations.insert(sig, h);
                }
            }
        }
        self.distinct.extend(other.distinct);
        for (k, n) in other.counters {
            *self.counters.entry(k).or_insert(0) += n;
        }
        for s in other.samples {
            self.sample(s);
        }
    }
}

/// `PanicInfo::class()` with the machine-specific cargo registry prefix removed.
pub fn pclass(p: &mc_core::panics::PanicInfo) -> String {
    let c = p.class();
    match c.find("/registry/src/") {
        Some(i) => {
            let rest = &c[i + "/registry/src/".len()..];
            match rest.find('/') {
                Some(j) => rest[j + 1..].to_string(),
                None => rest.to_string(),
            }
        }
        None => c,
    }
}

/// Panic location without the machine-specific cargo registry prefix.
pub fn ploc(p: &mc_core::panics::PanicInfo) -> String {
    let l = &p.location;
    match l.find("/registry/src/") {
        Some(i) => {
            let rest = &l[i + "/registry/src/".len()..];
            match rest.find('/') {
                Some(j) => rest[j + 1..].to_string(),
                None => rest.to_string(),
            }
        }
        None => l.clone(),
    }
}

pub fn hash_bytes(b: &[u8]) -> u128 {
    let mut a = std::collections::hash_map::DefaultHasher::new();
    0x9e37u16.hash(&mut a);
    b.hash(&mut a);
    let mut c = std::collections::hash_map::DefaultHasher::new();
    0x85eb_ca6bu32.hash(&mut c);
    b.hash(&mut c);
    b.len().hash(&mut c);
    ((a.finish() as u128) << 64) | c.finish() as u128
}

/// Runs `check` over `cases` on all cores (contiguous shards, merged in order).
pub fn run_sharded<T: Sync>(cases: &[T], check: impl Fn(&T, &mut Acc) + Sync) -> Acc {
    // small contiguous shards, pulled dynamically by the workers: expensive cases cluster
    // (large byte fields, large packets), the merge order stays the enumeration order
    let shards = mc_core::par::ranges(cases.len(), (cases.len() / 96).max(mc_core::jobs() * 8));
    let parts = mc_core::par::par_map(&shards, |r| {
        let mut acc = Acc::new();
        for c in &cases[r.clone()] {
            check(c, &mut acc);
        }
        acc
    });
    let mut total = Acc::new();
    for p in parts {
        total.merge(p);
    }
    total
}

/// Files an accumulator into the report as one sub-check.
pub fn file(report: &mut Report, sub: &str, acc: Acc, exhaustive: bool, rule: &str) {
    for (sig, h) in &acc.violations {
        let mut replay = h.replay.clone();
        if let Value::Object(m) = &mut replay {
            m.entry("sub").or_insert(json!(sub));
        }
        let detail = if h.hits > 1 {
            format!("{} [first of {} cases with this signature]", h.detail, h.hits)
        } else {
            h.detail.clone()
        };
        report.violation(sig, &detail, replay);
        for _ in 1..h.hits {
            report.violation(sig, "", Value::Null);
        }
    }
    let mut extra = Map::new();
    for (k, n) in &acc.counters {
        extra.insert(k.clone(), json!(n));
    }
    extra.insert(
        "violation_signatures".into(),
        json!(acc.violations.keys().collect::<Vec<_>>()),
    );
    report.sub(
        sub,
        Coverage {
            evaluations: acc.evaluations,
            distinct_nontrivial: acc.distinct.len() as u64,
            exhaustive,
            rule: rule.to_string(),
            samples: acc.samples.clone(),
            extra,
            ..Default::default()
        },
    );
}

fn replay(args: &Args, path: &std::path::Path) -> i32 {
    let r = mc_core::report::load_replay(path);
    let sub = r["sub"].as_str().unwrap_or("").to_string();
    let mut acc = Acc::new();
    acc.verbose = true;
    println!("replay: sub={sub} input={}", r["input"]);
    let ok = match sub.as_str() {
        "scalars" => scalars::replay(&r["input"], &mut acc),
        "frames" => frames::replay(&r["input"], &mut acc),
        "admission" => admission::replay(&r["input"], &mut acc),
        "headers" => headers::replay(&r["input"], &mut acc),
        "params" => params::replay(&r["input"], &mut acc),
        other => Err(format!("unknown sub-check {other:?}")),
    };
    let _ = args;
    match ok {
        Err(e) => {
            eprintln!("replay: cannot re-execute: {e}");
            2
        }
        Ok(()) if acc.violations.is_empty() => {
            println!("replay: no violation");
            0
        }
        Ok(()) => {
            for (sig, h) in &acc.violations {
                println!("replay: {sig} — {}", h.detail);
            }
            1
        }
    }
}

pub fn run(args: &Args) -> i32 {
    if let Some(p) = &args.replay {
        mc_core::panics::install_hook();
        return replay(args, p);
    }
    let mut report = Report::new(args, "exploration");
    report.assume("values are built through the crate's public constructors; where a field is private and has no constructor argument (reset token of NEW_CONNECTION_ID) the crate's own random value is used and masked out of the distinct-encoding count");
    report.assume("legal domain: varints < 2^62, stream offsets + length <= 2^62-1, MAX_STREAMS/STREAMS_BLOCKED <= 2^60, NEW_CONNECTION_ID with retire_prior_to <= sequence and 1..=20 cid bytes, NEW_TOKEN non-empty, durations in whole milliseconds, transport parameter values of the id's declared type and inside its declared bound");
    report.assume("byte fields of 2^32 bytes and more (where the writers truncate the length to u32) are outside the bound: they cannot be materialised and cannot occur in a packet");
    let t = args.thorough;

    if args.wants("scalars") {
        let acc = scalars::run(t);
        file(
            &mut report,
            "scalars",
            acc,
            true,
            "varints over B±1, every power of two ±1 and 0..=N (thorough: 0..=300000, quick: 0..=20000) in the minimal and every wider legal encoding; connection ids of every length 0..=20; reset tokens; stream ids over B and StreamId::new over role×dir×id; socket/endpoint/preferred addresses v4/v6; non-trivial = encoding of at least 2 bytes",
        );
    }
    if args.wants("frames") {
        let acc = frames::run(t);
        file(
            &mut report,
            "frames",
            acc,
            true,
            "every frame kind of qbase/src/frame × every flag combination × products of the varint boundary set B (thorough: B±1) over its fields, restricted to the legal domain × byte fields of length 0,1,63,64,16383,16384,65536 (thorough: +62,65,16385,2^20); non-trivial = distinct encoded byte string of at least 2 bytes",
        );
    }
    if args.wants("admission") {
        let acc = admission::run(t);
        file(
            &mut report,
            "admission",
            acc,
            true,
            "capacities 0..=80, every varint-width boundary of the length field ±8, 1200, 1472, 65527 × stream id widths 1/2/4/8 × offset widths 0/1/2/4/8 × data lengths n, n-1, n-2, n/2, 1 (n = estimate_max_capacity) × fin, driven through encoding_strategy/estimate_max_capacity + Package::dump into a real PacketWriter and decoded back; non-trivial = distinct packet payload of at least 2 bytes",
        );
    }
    if args.wants("headers") {
        let acc = headers::run(t);
        file(
            &mut report,
            "headers",
            acc,
            true,
            "Initial × token length 0,1,63,64,300 (thorough: +16383,16384), 0-RTT, Handshake, Retry × token lengths, VersionNegotiation × 1,2,16 versions, 1-RTT × spin bit; each × dcid,scid lengths in {0,1,8,20}² (thorough: every pair 0..=20); non-trivial = distinct header encoding of at least 2 bytes",
        );
    }
    if args.wants("params") {
        let acc = params::run(t);
        file(
            &mut report,
            "params",
            acc,
            true,
            "per role: every parameter id legal for the role at each boundary value of its type on top of the role's mandatory ids; every pair of ids at 3 boundary values each (thorough: all boundary values); the full legal set at min/mid/max; encodings canonicalised by sorting the parameters (HashMap order is not the crate's promise); non-trivial = distinct canonical encoding of at least 2 bytes",
        );
    }
    report.notes.push("Package::dump of a (data frame, data) pair checks only the frame header size; the senders bound the data with estimate_max_capacity first — that composition is what the `admission` sub-check drives".into());
    report.finish()
}
