//! C03 — decoding untrusted bytes never panics, hangs or mis-frames.
//!
//! E0 byte-string enumeration over the real qbase decoders:
//!   (a) `PacketReader::next` for dcid_len ∈ {0, 8, 20},
//!   (b) `FrameReader::next` for Initial / 0-RTT / Handshake / 1-RTT payloads,
//!   (c) `ClientParameters/ServerParameters::parse_from_bytes`,
//!       `ServerParameters::try_from_remembered_bytes`, and the nom parsers
//!       `be_preferred_address`, `be_socket_addr`, `be_connection_id`, `be_varint`.
//! Inputs: see `c03/inputs.rs` (all strings over a 12-byte alphabet, first byte over all 256
//! values; every prefix / substitution / bit flip / pair substitution of valid encodings made
//! with the crate's own writers, `c03/corpus.rs`). Oracle: `c03/oracle.rs`.
mod corpus;
mod inputs;
mod oracle;

use std::{
    collections::BTreeMap,
    time::{Duration, Instant},
};

use inputs::Family;
use mc_core::{Args, Report, par::par_map, report::Coverage};
use oracle::{Acc, Entry, Trace, eval, hex, unhex};
use serde_json::{Map, Value, json};

struct Sub {
    entry: Entry,
    corpus: Vec<Vec<u8>>,
    corpus_decoding: usize,
    acc: Acc,
    families: BTreeMap<&'static str, u64>,
    sigma_lens_done: Vec<usize>,
    sigma_lens_skipped: Vec<usize>,
}

fn tail_max(thorough: bool) -> usize {
    if thorough { 4 } else { 3 }
}

fn shard_result(entry: Entry, fam: &Family, corpus: &[Vec<u8>], thorough: bool) -> Acc {
    let mut acc = Acc {
        enumerated: matches!(fam, Family::Empty | Family::FirstByte { .. } | Family::Sigma { .. }),
        fb_tail_max: tail_max(thorough),
        ..Default::default()
    };
    inputs::for_each(fam, corpus, &mut |input| eval(entry, input, &mut acc, None));
    acc
}

fn run_families(sub: &mut Sub, fams: Vec<Family>, thorough: bool) {
    let entry = sub.entry;
    let corpus = &sub.corpus;
    let results = par_map(&fams, |fam| shard_result(entry, fam, corpus, thorough));
    for (fam, acc) in fams.iter().zip(results) {
        *sub.families.entry(fam.class()).or_default() += acc.evaluations;
        sub.acc.merge(acc);
    }
}

fn base_families(entry: Entry, corpus: &[Vec<u8>], thorough: bool) -> Vec<Family> {
    let mut f = vec![Family::Empty];
    let step = if thorough { 1 } else { 4 };
    for lo in (0..256).step_by(step) {
        f.push(Family::FirstByte { lo, hi: lo + step, tail_max: tail_max(thorough) });
    }
    if entry.is_packet() {
        for version in [1u32, 0] {
            for lo in (0..256).step_by(8) {
                f.push(Family::Template { lo, hi: lo + 8, version });
            }
        }
    }
    let mut prefixes: Vec<Vec<u8>> = Vec::new();
    if entry.is_frame() {
        // gm-quic extension frames 0x3d7e90..=0x3d7e96 (+ the first unassigned one)
        prefixes.extend((0x90..=0x97u8).map(|x| vec![0x80, 0x3d, 0x7e, x]));
        // every standard frame type in a non-minimal 2-byte encoding
        prefixes.extend((0x00..=0x1fu8).chain([0x30, 0x31]).map(|t| vec![0x40, t]));
    }
    if entry.is_params() {
        prefixes.push(vec![0x6a, 0xb2]); // grease_quic_bit
        prefixes.push(vec![0x80, 0x00, 0xff, 0xee]); // client name
        prefixes.extend((0x00..=0x10u8).chain([0x20]).map(|t| vec![0x40, t]));
    }
    for prefix in prefixes {
        f.push(Family::Prefixed { prefix, tail_max: tail_max(thorough) });
    }
    for (i, e) in corpus.iter().enumerate() {
        f.push(Family::Prefixes { corpus: i });
        f.push(Family::Single { corpus: i });
        if thorough {
            f.push(Family::BitFlip { corpus: i });
            // every pair of positions × Σ² (DESIGN asks for encodings ≤ 24 bytes; all of the
            // corpus is affordable), split by first position for load balance
            if e.len() <= 256 {
                for lo in (0..e.len()).step_by(4) {
                    f.push(Family::Pair { corpus: i, lo, hi: (lo + 4).min(e.len()) });
                }
            }
        }
    }
    f
}

fn sigma_families(len: usize) -> Vec<Family> {
    let mut f = Vec::new();
    for a in 0..inputs::SIGMA.len() {
        for b in 0..inputs::SIGMA.len() {
            f.push(Family::Sigma { len, a, b });
        }
    }
    f
}

fn coverage(sub: &mut Sub, thorough: bool) -> Coverage {
    let acc = &mut sub.acc;
    // distinct non-trivial inputs: enumerated families are distinct by construction; the
    // others are deduplicated by hash, minus those already contained in an enumerated family
    let mut hashes = std::mem::take(&mut acc.nontrivial);
    for (len, h) in std::mem::take(&mut acc.sigma_like) {
        if !sub.sigma_lens_done.contains(&len) && len > tail_max(thorough) + 1 {
            hashes.push(h);
        }
    }
    hashes.sort_unstable();
    hashes.dedup();
    let distinct = acc.nontrivial_enum + hashes.len() as u64;

    let mut extra = Map::new();
    extra.insert("entry_point".into(), json!(sub.entry.api()));
    extra.insert("config".into(), sub.entry.config());
    extra.insert("inputs_with_some_item_ok".into(), json!(acc.inputs_some_ok));
    extra.insert("inputs_ending_in_decoder_error".into(), json!(acc.inputs_err));
    extra.insert("inputs_panicking".into(), json!(acc.inputs_panic));
    extra.insert("items_decoded_ok".into(), json!(acc.items_ok));
    let outcomes: Map<String, Value> = acc
        .outcomes
        .iter()
        .map(|((ok, end), n)| {
            (
                format!("{}|{}", if *ok { "some-item-ok" } else { "no-item-ok" }, end),
                json!(n),
            )
        })
        .collect();
    extra.insert("outcomes".into(), Value::Object(outcomes));
    extra.insert("decoded_item_kinds".into(), json!(acc.item_kinds));
    extra.insert("quic_error_kinds_after_conversion".into(), json!(acc.quic_kinds));
    extra.insert("inputs_per_family".into(), json!(sub.families));
    extra.insert("valid_corpus_size".into(), json!(sub.corpus.len()));
    extra.insert("valid_corpus_items_decoding_without_error".into(), json!(sub.corpus_decoding));
    extra.insert("sigma_lengths_completed".into(), json!(sub.sigma_lens_done));
    extra.insert("sigma_lengths_skipped_by_cap".into(), json!(sub.sigma_lens_skipped));
    let hits: Map<String, Value> = acc
        .violations
        .iter()
        .map(|(s, v)| (s.clone(), json!(v.hits)))
        .collect();
    extra.insert("violation_hits".into(), Value::Object(hits));

    // decoded-something examples first
    let samples: Vec<Value> = acc
        .examples
        .iter()
        .rev()
        .map(|((ok, end), input)| {
            json!({
                "input": hex(input),
                "outcome": format!("{}, ended with {}", if *ok { "some item Ok" } else { "no item Ok" }, end),
            })
        })
        .collect();
    let nontrivial_rule = if sub.entry.is_packet() {
        "≥1 packet decoded Ok, or the error arose behind the type/version gate (IncompleteHeader, UnderSampling), or a panic"
    } else if sub.entry.is_frame() {
        "≥1 frame decoded Ok, or the error arose inside a recognised and permitted frame (IncompleteFrame, ParseError), or a panic"
    } else if sub.entry.is_params() {
        "parse returned Ok, or the first id/length/value triple was complete, or a panic"
    } else {
        "the parser returned Ok, or a panic"
    };
    let max_sigma = sub.sigma_lens_done.iter().max().copied().unwrap_or(tail_max(thorough) + 1);
    Coverage {
        evaluations: acc.evaluations,
        distinct_nontrivial: distinct,
        exhaustive: sub.sigma_lens_skipped.is_empty(),
        rule: format!(
            "{} on: every byte string b0·s with b0 in 0..=255 and s in Σ^(0..={}) (Σ = 00 01 04 0f 15 3f 40 7f 80 bf c0 ff), every Σ-string up to length {max_sigma}{}; every prefix and every single-position Σ-substitution{} of {} valid encodings written by qbase's own writers; non-trivial = {nontrivial_rule}; distinct counted exactly for enumerated families, by 64-bit FNV hash for mutation families",
            sub.entry.api(),
            tail_max(thorough),
            if sub.entry.is_packet() {
                ", every [b0, version 1|0] ++ Σ^(0..=3) ++ 24-byte pad header template"
            } else if sub.entry.is_frame() {
                ", every 4-byte extension frame type 803d7e90..97 and every 2-byte encoded standard frame type followed by the same Σ-tails"
            } else if sub.entry.is_params() {
                ", parameter ids 6ab2, 8000ffee and every 2-byte encoded standard id followed by the same Σ-tails"
            } else {
                ""
            },
            if thorough {
                ", every single-bit flip, every pair of positions × Σ² (all encodings ≤ 256 bytes)"
            } else {
                ""
            },
            sub.corpus.len()
        ),
        samples,
        extra,
        ..Default::default()
    }
}

fn replay(args: &Args, path: &std::path::Path) -> i32 {
    let r = mc_core::report::load_replay(path);
    let name = r["entry"].as_str().or(r["sub"].as_str()).unwrap_or("");
    let Some(entry) = Entry::from_name(name) else {
        eprintln!("replay: unknown entry point {name:?}");
        return 2;
    };
    let Some(input) = r["input"].as_str().and_then(unhex) else {
        eprintln!("replay: no hex `input` in the replay object");
        return 2;
    };
    let _ = args;
    let mut acc = Acc::default();
    let mut trace = Trace::default();
    eval(entry, &input, &mut acc, Some(&mut trace));
    println!("replay: {} ({}) on {} byte(s): {}", entry.api(), entry.name(), input.len(), hex(&input));
    for l in &trace.lines {
        println!("  {l}");
    }
    let want = r["signature"].as_str();
    let mut hit = false;
    for (sig, v) in &acc.violations {
        println!("replay: {sig} — {}", v.detail);
        if want.is_none() || want == Some(sig.as_str()) {
            hit = true;
        }
    }
    if hit {
        1
    } else {
        match want {
            Some(w) if !acc.violations.is_empty() => {
                println!("replay: recorded signature {w} did not reproduce (other violations above)");
                1
            }
            _ => {
                println!("replay: no violation");
                0
            }
        }
    }
}

pub fn run(args: &Args) -> i32 {
    if let Some(p) = &args.replay {
        return replay(args, p);
    }
    let mut report = Report::new(args, "exploration");
    oracle::install_abort_verdict(&report.property);
    report.assume("inputs are byte strings handed to the decoders exactly as the receive path does: a datagram to PacketReader (dcid_len 0/8/20), a decrypted payload to FrameReader with the packet's type, a transport-parameter extension body to parse_from_bytes");
    report.assume("a consumer stops at the first Err of an iterator (qconnection/src/space.rs does); FrameReader does not advance past a failed frame, which is not counted as a hang");
    report.assume("error-kind reference: RFC 9000 §12.4 + table 3 (frame in a packet type that does not permit it / packet without frames = PROTOCOL_VIOLATION, unknown or malformed frame = FRAME_ENCODING_ERROR), §7.4 (TRANSPORT_PARAMETER_ERROR); gm-quic extension frames 0x3d7e90..96 taken as 0-RTT/1-RTT frames");
    report.assume("an input that makes a decoder abort the process (allocation failure, double panic) is reported by a SIGABRT handler as a violation naming the input being decoded (signature abort/decoder-killed-the-process, exit 1); a stack overflow (SIGSEGV) would still end the run with a non-verdict exit status");

    let started = Instant::now();
    let cap = Duration::from_secs(
        std::env::var("VERIF_C03_CAP_S")
            .ok()
            .and_then(|s| s.parse().ok())
            .unwrap_or(if args.thorough { 540 } else { 45 }),
    );

    let mut subs: Vec<Sub> = Entry::all()
        .into_iter()
        .filter(|e| args.wants(&e.name()))
        .map(|entry| {
            let corpus = corpus::for_entry(entry);
            // how many corpus items decode completely (vacuity of the mutation families)
            let corpus_decoding = corpus
                .iter()
                .filter(|e| {
                    let mut a = Acc::default();
                    eval(entry, e, &mut a, None);
                    a.inputs_some_ok == 1 && a.inputs_err == 0 && a.inputs_panic == 0
                })
                .count();
            Sub {
                entry,
                corpus,
                corpus_decoding,
                acc: Acc::default(),
                families: BTreeMap::new(),
                sigma_lens_done: Vec::new(),
                sigma_lens_skipped: Vec::new(),
            }
        })
        .collect();

    // stage 1: everything except the long Σ-strings
    for sub in &mut subs {
        let fams = base_families(sub.entry, &sub.corpus, args.thorough);
        run_families(sub, fams, args.thorough);
        eprintln!(
            "[C03:{}] base families done: {} inputs ({:.1}s)",
            sub.entry.name(),
            sub.acc.evaluations,
            started.elapsed().as_secs_f64()
        );
    }
    // stage 2..: Σ^5 (both tiers), Σ^6 and Σ^7 (thorough), shortest first, under the cap
    // (thorough: Σ^5 is contained in the first-byte family with 4-byte tails)
    let lens: &[usize] = if args.thorough { &[6, 7] } else { &[5] };
    for &len in lens {
        for sub in &mut subs {
            // Σ^7 only where the grammar is deep enough to use 7 bytes
            if len == 7 && !(sub.entry.is_frame() || sub.entry.is_params() || sub.entry.is_packet()) {
                continue;
            }
            if started.elapsed() > cap {
                sub.sigma_lens_skipped.push(len);
                continue;
            }
            run_families(sub, sigma_families(len), args.thorough);
            sub.sigma_lens_done.push(len);
        }
        eprintln!("[C03] Σ^{len} done ({:.1}s)", started.elapsed().as_secs_f64());
    }

    let mut all: BTreeMap<String, (oracle::Viol, Entry, Vec<String>)> = BTreeMap::new();
    for sub in &mut subs {
        let name = sub.entry.name();
        if !sub.sigma_lens_skipped.is_empty() {
            report.caps_hit.push(format!(
                "{name}: wall-clock cap {}s reached before Σ-strings of length {:?}; lengths {:?} and all other families were completed",
                cap.as_secs(),
                sub.sigma_lens_skipped,
                sub.sigma_lens_done
            ));
        }
        for (sig, v) in &sub.acc.violations {
            let e = all.entry(sig.clone()).or_insert_with(|| (v.clone(), sub.entry, Vec::new()));
            e.2.push(format!("{name}: {}", v.hits));
            if v.input.len() < e.0.input.len() {
                e.0 = v.clone();
                e.1 = sub.entry;
            }
        }
        let cov = coverage(sub, args.thorough);
        report.sub(&name, cov);
    }
    // one violation per signature: the shortest witness over all configurations
    for (sig, (v, entry, hits)) in &mut all {
        let name = entry.name();
        let small = oracle::minimize(*entry, sig, &v.input);
        if small.len() < v.input.len() || (small.len() == v.input.len() && small != v.input) {
            // re-evaluate to get the detail text of the minimised witness
            let mut a = Acc::default();
            eval(*entry, &small, &mut a, None);
            if let Some(m) = a.violations.remove(sig.as_str()) {
                v.detail = format!("{} (minimised from explored witness {})", m.detail, hex(&v.input));
                v.input = small;
            }
        }
        report.violation(
            sig,
            &format!("{} [inputs hitting this signature — {}]", v.detail, hits.join(", ")),
            json!({
                "sub": name,
                "entry": name,
                "api": entry.api(),
                "config": entry.config(),
                "input": hex(&v.input),
                "signature": sig,
            }),
        );
    }
    report.finish()
}
