//! Sub-check (ii): the real `ArcParameters`/`Parameters` state machine, both arrival orders
//! of {first packet's SCID, TLS extension}, all connection-id relations, both roles.
use std::{
    future::Future,
    sync::{
        Arc,
        atomic::{AtomicUsize, Ordering},
    },
    task::{Context, Poll, Wake, Waker},
};

use mc_core::panics;
use qbase::{
    cid::ConnectionId,
    error::{Error as QError, ErrorKind},
    param::{
        ArcParameters, ClientParameters, ParameterId, Parameters, ServerParameters,
        handy::{client_parameters, server_parameters},
    },
};
use serde::{Deserialize, Serialize};
use serde_json::json;

use super::{Finding, pclass, wire::*};

#[derive(Clone, Copy, Debug, PartialEq, Eq, Serialize, Deserialize)]
pub enum Rel {
    /// declared == observed (8 bytes)
    Equal,
    /// both zero-length
    EqualEmpty,
    DiffLastByte,
    DiffFirstByte,
    /// declared is a strict prefix of the observed one
    DeclaredShorter,
    /// observed is a strict prefix of the declared one
    DeclaredLonger,
    DeclaredEmpty,
}

impl Rel {
    pub const ALL: [Rel; 7] = [
        Rel::Equal,
        Rel::EqualEmpty,
        Rel::DiffLastByte,
        Rel::DiffFirstByte,
        Rel::DeclaredShorter,
        Rel::DeclaredLonger,
        Rel::DeclaredEmpty,
    ];
    pub fn equal(self) -> bool {
        matches!(self, Rel::Equal | Rel::EqualEmpty)
    }
    /// (observed on the wire, declared in the parameters)
    fn pair(self, seed: u8) -> (Vec<u8>, Vec<u8>) {
        let base: Vec<u8> = (0..8).map(|i| seed.wrapping_add(i * 3)).collect();
        let mut d = base.clone();
        match self {
            Rel::Equal => {}
            Rel::EqualEmpty => return (vec![], vec![]),
            Rel::DiffLastByte => d[7] ^= 1,
            Rel::DiffFirstByte => d[0] ^= 0x80,
            Rel::DeclaredShorter => d.truncate(7),
            Rel::DeclaredLonger => d.push(0),
            Rel::DeclaredEmpty => d.clear(),
        }
        (base, d)
    }
}

#[derive(Clone, Copy, Debug, PartialEq, Eq, Serialize, Deserialize)]
pub enum Retry {
    /// no Retry packet was received
    None,
    /// a Retry was received, its SCID equals the declared retry_source_connection_id
    Same,
    /// a Retry was received from a different SCID than the declared one
    Other,
}

#[derive(Clone, Debug, Serialize, Deserialize)]
pub struct BindCase {
    /// local role: "client" or "server"
    pub local_client: bool,
    /// true: the first packet's SCID is observed before the TLS extension arrives
    pub scid_first: bool,
    pub iscid: Rel,
    /// client only: original_destination_connection_id vs the DCID the client first used
    pub odcid: Rel,
    /// client only: the server's parameters contain retry_source_connection_id
    pub retry_param: bool,
    pub retry: Retry,
    /// 0: a waiter polls before both inputs, 1: between them
    pub waiter_at: u8,
    /// client only: remembered (0-RTT) parameters present
    pub remembered: bool,
}

pub fn cases() -> Vec<BindCase> {
    let mut v = Vec::new();
    for scid_first in [true, false] {
        for iscid in Rel::ALL {
            for waiter_at in [0u8, 1] {
                v.push(BindCase {
                    local_client: false,
                    scid_first,
                    iscid,
                    odcid: Rel::Equal,
                    retry_param: false,
                    retry: Retry::None,
                    waiter_at,
                    remembered: false,
                });
                for odcid in Rel::ALL {
                    for retry_param in [false, true] {
                        for retry in [Retry::None, Retry::Same, Retry::Other] {
                            for remembered in [false, true] {
                                v.push(BindCase {
                                    local_client: true,
                                    scid_first,
                                    iscid,
                                    odcid,
                                    retry_param,
                                    retry,
                                    waiter_at,
                                    remembered,
                                });
                            }
                        }
                    }
                }
            }
        }
    }
    v
}

/// None = everything matches; Some(which) = the first mismatch the statement forbids.
pub fn expected_mismatch(c: &BindCase) -> Option<&'static str> {
    if !c.iscid.equal() {
        return Some("initial_scid");
    }
    if c.local_client {
        if !c.odcid.equal() {
            return Some("odcid");
        }
        return match (c.retry, c.retry_param) {
            (Retry::None, false) | (Retry::Same, true) => None,
            // RFC 9000 §7.3: "presence of the retry_source_connection_id transport parameter
            // when no Retry packet was received" MUST be an error
            (Retry::None, true) => Some("retry_scid-unexpected"),
            (_, false) => Some("retry_scid-missing"),
            (Retry::Other, true) => Some("retry_scid-different"),
        };
    }
    None
}

struct Count(AtomicUsize);
impl Wake for Count {
    fn wake(self: Arc<Self>) {
        self.0.fetch_add(1, Ordering::SeqCst);
    }
}

#[derive(Debug, Default, Serialize)]
pub struct BindObs {
    pub errors: Vec<String>,
    pub error_kinds_ok: bool,
    pub ready_after_first: bool,
    pub remote_visible_after_first: bool,
    pub ready_final: bool,
    pub final_poll: String,
    pub waiter_registered: bool,
    pub waiter_pending_before_decision: bool,
    pub wakes_at_decision: usize,
    pub idle_negotiated: Option<String>,
}

const RETRY_DECLARED: [u8; 8] = [0x71, 0x72, 0x73, 0x74, 0x75, 0x76, 0x77, 0x78];
const RETRY_OTHER: [u8; 8] = [0x71, 0x72, 0x73, 0x74, 0x75, 0x76, 0x77, 0x79];

fn poll_ready_once(arc: &ArcParameters, waker: &Waker) -> Poll<Result<bool, QError>> {
    let mut cx = Context::from_waker(waker);
    let fut = arc.remote_ready();
    let mut fut = std::pin::pin!(fut);
    match fut.as_mut().poll(&mut cx) {
        Poll::Pending => Poll::Pending,
        Poll::Ready(Ok(g)) => Poll::Ready(Ok(g.is_remote_params_ready())),
        Poll::Ready(Err(e)) => Poll::Ready(Err(e)),
    }
}

/// Drives the real state machine as the connection does: `initial_scid_from_peer_need_equal`
/// from the Initial space, `parse_from_bytes` + `recv_remote_params` from the TLS task; an
/// `Err` from either is a connection error, which reaches `ArcParameters::on_conn_error`.
pub fn drive(c: &BindCase) -> Result<BindObs, String> {
    let (scid_obs, scid_decl) = c.iscid.pair(0x11);
    let (odcid_used, odcid_decl) = c.odcid.pair(0xa1);
    let peer = if c.local_client { Side::Server } else { Side::Client };
    let mut items = vec![Item::new(ID_ISCID, scid_decl), Item::int(0x04, 4096), Item::int(ID_IDLE, 7000)];
    if c.local_client {
        items.push(Item::new(ID_ODCID, odcid_decl));
        if c.retry_param {
            items.push(Item::new(ID_RETRY, RETRY_DECLARED.to_vec()));
        }
    }
    let blob = encode(&items);

    let arc = if c.local_client {
        let mut local = client_parameters();
        local
            .set(ParameterId::InitialSourceConnectionId, ConnectionId::from_slice(&[9; 8]))
            .map_err(|e| format!("local client parameters: {e}"))?;
        let remembered = if c.remembered {
            let rb = encode(&[Item::new(ID_ISCID, vec![1; 8]), Item::new(ID_ODCID, vec![2; 8]), Item::int(0x04, 1000)]);
            Some(ServerParameters::parse_from_bytes(&rb).map_err(|e| format!("remembered parameters rejected: {e}"))?)
        } else {
            None
        };
        ArcParameters::from(Parameters::new_client(local, remembered, ConnectionId::from_slice(&odcid_used)))
    } else {
        let mut local = server_parameters();
        local
            .set(ParameterId::InitialSourceConnectionId, ConnectionId::from_slice(&[9; 8]))
            .and_then(|_| local.set(ParameterId::OriginalDestinationConnectionId, ConnectionId::from_slice(&[8; 8])))
            .map_err(|e| format!("local server parameters: {e}"))?;
        ArcParameters::from(Parameters::new_server(local))
    };
    match c.retry {
        Retry::None => {}
        Retry::Same | Retry::Other => {
            let cid = if c.retry == Retry::Same { RETRY_DECLARED } else { RETRY_OTHER };
            if c.local_client {
                arc.lock_guard()
                    .map_err(|e| e.to_string())?
                    .retry_scid_from_server_need_equal(ConnectionId::from_slice(&cid));
            }
        }
    }

    let count = Arc::new(Count(AtomicUsize::new(0)));
    let waker = Waker::from(count.clone());
    let mut obs = BindObs { error_kinds_ok: true, ..Default::default() };
    let mut failed = false;

    let register = |obs: &mut BindObs| {
        obs.waiter_registered = true;
        obs.waiter_pending_before_decision = poll_ready_once(&arc, &waker).is_pending();
    };
    let step = |scid: bool, obs: &mut BindObs, failed: &mut bool| {
        // a failed connection never reaches the second input (lock_guard()? fails)
        let mut g = match arc.lock_guard() {
            Ok(g) => g,
            Err(_) => return,
        };
        let r = if scid {
            g.initial_scid_from_peer_need_equal(ConnectionId::from_slice(&scid_obs))
        } else {
            // what tls.rs does with the peer's extension
            let parsed = match peer {
                Side::Server => ServerParameters::parse_from_bytes(&blob).map(qbase::param::PeerParameters::Server),
                Side::Client => ClientParameters::parse_from_bytes(&blob).map(qbase::param::PeerParameters::Client),
            };
            parsed.and_then(|p| g.recv_remote_params(p))
        };
        drop(g);
        if let Err(e) = r {
            obs.errors.push(format!("{:?}: {}", e.kind(), e.reason()));
            if e.kind() != ErrorKind::TransportParameter {
                obs.error_kinds_ok = false;
            }
            *failed = true;
            arc.on_conn_error(&QError::from(e));
        }
    };

    if c.waiter_at == 0 {
        register(&mut obs);
    }
    step(c.scid_first, &mut obs, &mut failed);
    if let Ok(g) = arc.lock_guard() {
        obs.ready_after_first = g.is_remote_params_ready();
        obs.remote_visible_after_first = g.get_remote::<u64>(ParameterId::InitialMaxData).is_some();
    }
    if c.waiter_at == 1 && !failed {
        register(&mut obs);
    }
    step(!c.scid_first, &mut obs, &mut failed);
    obs.wakes_at_decision = count.0.load(Ordering::SeqCst);

    match arc.lock_guard() {
        Ok(g) => {
            obs.ready_final = g.is_remote_params_ready();
            obs.idle_negotiated = g.negotiated_max_idle_timeout().map(|d| format!("{d:?}"));
        }
        Err(_) => obs.ready_final = false,
    }
    obs.final_poll = match poll_ready_once(&arc, &waker) {
        Poll::Pending => "pending".into(),
        Poll::Ready(Ok(r)) => format!("ready({r})"),
        Poll::Ready(Err(e)) => format!("error({:?})", e.kind()),
    };
    Ok(obs)
}

pub fn check(c: &BindCase) -> (Vec<Finding>, String) {
    let rp = || json!({"sub": "bind", "case": c});
    let mut f = Vec::new();
    let mut add = |sig: String, detail: String| f.push(Finding { sig, detail, replay: rp() });
    let obs = match panics::catch(|| drive(c)) {
        Err(pi) => {
            add(format!("panic/{}", pclass(&pi)), format!("bind {c:?}: panic at {}: {}", pi.location, pi.message));
            return (f, "panic".into());
        }
        Ok(Err(setup)) => {
            add("bind/setup-failed".into(), format!("bind {c:?}: {setup}"));
            return (f, "setup".into());
        }
        Ok(Ok(o)) => o,
    };
    let want = expected_mismatch(c);
    let ctx = format!("{c:?} -> {obs:?}");
    if obs.ready_after_first {
        add("bind/ready-before-both-inputs".into(), format!("ready after only one of {{SCID, extension}}: {ctx}"));
    }
    if obs.remote_visible_after_first && !obs.ready_after_first {
        add("bind/remote-visible-before-ready".into(), format!("get_remote returns peer values before the connection ids were checked: {ctx}"));
    }
    match want {
        Some(which) => {
            if obs.ready_final || obs.final_poll.starts_with("ready") {
                add(format!("bind/ready-despite-mismatch/{which}"), format!("parameters became usable although {which} does not match: {ctx}"));
            } else if obs.errors.is_empty() {
                add(format!("bind/no-error-on-mismatch/{which}"), format!("neither usable nor failed: {ctx}"));
            } else {
                if !obs.error_kinds_ok || obs.final_poll != "error(TransportParameter)" {
                    add("bind/wrong-error-kind".into(), format!("mismatch of {which} must fail with TRANSPORT_PARAMETER_ERROR: {ctx}"));
                }
                if obs.waiter_registered && obs.waiter_pending_before_decision && obs.wakes_at_decision == 0 {
                    add("bind/waiter-not-woken/failure".into(), format!("a poll_ready waiter was not woken when the handshake failed: {ctx}"));
                }
            }
        }
        None => {
            if !obs.errors.is_empty() {
                add("bind/failed-despite-match".into(), format!("all connection ids match but the handshake failed: {ctx}"));
            } else if !obs.ready_final || obs.final_poll != "ready(true)" {
                add("bind/not-ready-despite-match".into(), format!("all connection ids match, both inputs arrived, not usable: {ctx}"));
            } else if obs.waiter_registered && obs.waiter_pending_before_decision && obs.wakes_at_decision == 0 {
                add("bind/waiter-not-woken/success".into(), format!("a poll_ready waiter was not woken when the parameters became ready: {ctx}"));
            }
        }
    }
    if obs.waiter_registered && !obs.waiter_pending_before_decision {
        add("bind/ready-before-both-inputs".into(), format!("remote_ready() resolved before both inputs arrived: {ctx}"));
    }
    let outcome = if obs.ready_final { "ready" } else if !obs.errors.is_empty() { "failed" } else { "undecided" };
    (f, format!("{outcome}/{}", want.unwrap_or("match")))
}
