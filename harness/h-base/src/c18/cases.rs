//! Case generation for sub-check (i): the product of per-parameter choices, roles and
//! contexts, as raw (id, len, value) triples.
use super::wire::*;

#[derive(Clone, Debug)]
pub struct Choice {
    /// class of the choice (stable; used in signatures)
    pub class: &'static str,
    /// human label, e.g. `v=16384`
    pub label: String,
    pub items: Vec<Item>,
    /// member of the reduced set used for pairs/triples
    pub reduced: bool,
}

#[derive(Clone, Debug)]
pub struct Case {
    pub sender: Side,
    pub group: &'static str,
    /// `<param>/<class>` of the (first) varied parameter
    pub focus: String,
    pub label: String,
    pub blob: Vec<u8>,
}

pub const B: [u64; 9] = [0, 1, 63, 64, 16383, 16384, (1 << 30) - 1, 1 << 30, VMAX];

const CID20: [u8; 20] = [
    0xc1, 0xc2, 0xc3, 0xc4, 0xc5, 0xc6, 0xc7, 0xc8, 0xc9, 0xca, 0xcb, 0xcc, 0xcd, 0xce, 0xcf, 0xd0, 0xd1,
    0xd2, 0xd3, 0xd4,
];

fn cid_of(len: usize) -> Vec<u8> {
    (0..len).map(|i| CID20[i % 20].wrapping_add((i / 20) as u8)).collect()
}

/// The legal default item of a parameter (context value).
pub fn default_item(p: &Pd) -> Item {
    match p.ty {
        Ty::Int => Item::int(p.id, p.mid),
        Ty::Flag => Item::new(p.id, vec![]),
        Ty::Cid => Item::new(p.id, cid_of(8).iter().map(|b| b ^ (p.id as u8)).collect()),
        Ty::Token => Item::new(p.id, vec![0x5a; 16]),
        Ty::Pref => Item::new(p.id, pref_addr(&cid_of(8))),
        Ty::Bytes => Item::new(p.id, b"client.test".to_vec()),
    }
}

/// Remaining parameters at legal defaults: `full` = every parameter the sender may send,
/// otherwise only the mandatory ones.
pub fn context(sender: Side, full: bool) -> Vec<Item> {
    TABLE
        .iter()
        .filter(|p| {
            let mandatory = p.id == ID_ISCID || (sender == Side::Server && p.id == ID_ODCID);
            let allowed = match sender {
                Side::Client => !p.server_only,
                Side::Server => p.id != ID_CLIENT_NAME,
            };
            mandatory || (full && allowed)
        })
        .map(default_item)
        .collect()
}

pub fn choices(p: &Pd) -> Vec<Choice> {
    let mut out = Vec::new();
    let mut push = |class: &'static str, label: String, items: Vec<Item>, reduced: bool| {
        out.push(Choice { class, label, items, reduced })
    };
    push("absent", "absent".into(), vec![], true);
    let id = p.id;
    match p.ty {
        Ty::Int => {
            let mut vs: Vec<u64> = B.to_vec();
            for v in [p.lo, p.lo + 1, p.hi.saturating_sub(1), p.hi, p.soft_hi] {
                vs.push(v);
            }
            if p.lo > 0 {
                vs.push(p.lo - 1);
            }
            if p.hi < VMAX {
                vs.push(p.hi + 1);
                vs.push(p.hi * 2);
            }
            if p.soft_hi < VMAX {
                vs.push(p.soft_hi + 1);
            }
            vs.retain(|v| *v <= VMAX);
            vs.sort();
            vs.dedup();
            let mut red = vec![p.lo, p.hi];
            if p.lo > 0 {
                red.push(p.lo - 1);
            }
            if p.hi < VMAX {
                red.push(p.hi + 1);
            }
            for v in vs {
                push("value", format!("v={v}"), vec![Item::int(id, v)], red.contains(&v));
            }
            let legal = vi(p.mid);
            let mut t1 = legal.clone();
            t1.push(0);
            let mut t2 = legal.clone();
            t2.extend([1, 2]);
            push("zero-length", "len=0".into(), vec![Item::new(id, vec![])], true);
            push("trailing", "legal varint + 1 byte".into(), vec![Item::new(id, t1)], true);
            push("trailing", "legal varint + 2 bytes".into(), vec![Item::new(id, t2)], false);
            push("truncated-varint", "40".into(), vec![Item::new(id, vec![0x40])], false);
            push("truncated-varint", "c0 00 00".into(), vec![Item::new(id, vec![0xc0, 0, 0])], false);
            let mut o9 = vi_w(p.mid, 8);
            o9.push(0);
            push("trailing", "8-byte varint + 1 byte".into(), vec![Item::new(id, o9)], false);
            for w in [2usize, 4, 8] {
                if w > vi_min_w(p.mid) {
                    push("nonminimal", format!("v={} in {w} bytes", p.mid), vec![Item::new(id, vi_w(p.mid, w))], false);
                }
            }
        }
        Ty::Flag => {
            push("present", "len=0".into(), vec![Item::new(id, vec![])], true);
            push("non-empty", "00".into(), vec![Item::new(id, vec![0])], true);
            push("non-empty", "01".into(), vec![Item::new(id, vec![1])], false);
            push("non-empty", "00 00".into(), vec![Item::new(id, vec![0, 0])], false);
        }
        Ty::Cid => {
            for l in [0usize, 1, 4, 8, 19, 20, 21, 22, 64, 255] {
                push(
                    if l <= 20 { "cid" } else { "cid-long" },
                    format!("cid len={l}"),
                    vec![Item::new(id, cid_of(l))],
                    matches!(l, 0 | 20 | 21),
                );
            }
        }
        Ty::Token => {
            for l in [16usize, 0, 1, 2, 15, 17, 32] {
                push(
                    if l == 16 { "token" } else { "token-wrong-length" },
                    format!("token len={l}"),
                    vec![Item::new(id, vec![0x5a; l])],
                    matches!(l, 16 | 2 | 17),
                );
            }
        }
        Ty::Pref => {
            for l in [1usize, 8, 20] {
                push("pref", format!("cid len={l}"), vec![Item::new(id, pref_addr(&cid_of(l)))], l == 8);
            }
            push("pref-zero-cid", "cid len=0".into(), vec![Item::new(id, pref_addr(&[]))], true);
            push("pref-cid-long", "cid len=21".into(), vec![Item::new(id, pref_addr(&cid_of(21)))], false);
            let good = pref_addr(&cid_of(8));
            push("pref-short", "one byte short".into(), vec![Item::new(id, good[..good.len() - 1].to_vec())], true);
            let mut long = good.clone();
            long.push(0);
            push("pref-long", "one byte long".into(), vec![Item::new(id, long)], true);
            push("pref-short", "len=0".into(), vec![Item::new(id, vec![])], false);
            push("pref-short", "addresses only".into(), vec![Item::new(id, good[..24].to_vec())], false);
            push("pref-short", "cid length byte only".into(), vec![Item::new(id, good[..25].to_vec())], false);
            push("pref-short", "cid 4 of 8".into(), vec![Item::new(id, good[..29].to_vec())], false);
        }
        Ty::Bytes => {
            for l in [0usize, 1, 10, 300] {
                push("bytes", format!("len={l}"), vec![Item::new(id, vec![b'a'; l])], l == 1);
            }
        }
    }
    // declared length one more than what is left of the extension (parameter placed last)
    let mut last = default_item(p).at(1);
    last.len = Some(last.val.len() as u64 + 1);
    push("length-exceeds-extension", "declared len = actual + 1, last".into(), vec![last], false);
    // non-minimal id / length varints around the legal default
    let mut idw = default_item(p);
    idw.idw = if p.id < 64 { 2 } else { 8 };
    push("nonminimal-id", "id in a wider varint".into(), vec![idw], false);
    let mut lw = default_item(p);
    lw.lenw = 2;
    push("nonminimal-len", "length in a 2-byte varint".into(), vec![lw], false);
    out
}

fn assemble(ctx: &[Item], replaced: &[u64], adds: &[&[Item]]) -> Vec<u8> {
    let mut items: Vec<Item> = ctx.iter().filter(|i| !replaced.contains(&i.id)).cloned().collect();
    for a in adds {
        items.extend(a.iter().cloned());
    }
    encode(&items)
}

pub fn is_illegal_alone(sender: Side, p: &Pd, c: &Choice) -> bool {
    let ctx = context(sender, false);
    let blob = assemble(&ctx, &[p.id], &[&c.items]);
    matches!(reference(sender, &blob).verdict, Verdict::Illegal { .. })
}

pub fn generate(thorough: bool) -> Vec<Case> {
    let mut out: Vec<Case> = Vec::new();
    let sides = [Side::Client, Side::Server];
    let all: Vec<(&Pd, Vec<Choice>)> = TABLE.iter().map(|p| (p, choices(p))).collect();

    // --- singles: every id x every choice x role x context
    for &sender in &sides {
        for full in [false, true] {
            let ctx = context(sender, full);
            for (p, cs) in &all {
                for c in cs {
                    let mut variants: Vec<(String, Vec<Item>)> = vec![(String::new(), c.items.clone())];
                    if thorough && !c.items.is_empty() && c.items[0].pos == 0 {
                        variants.push((" first".into(), c.items.iter().cloned().map(|i| i.at(-1)).collect()));
                        variants.push((" last".into(), c.items.iter().cloned().map(|i| i.at(1)).collect()));
                    }
                    for (sfx, items) in variants {
                        out.push(Case {
                            sender,
                            group: "single",
                            focus: format!("{}/{}", p.name, c.class),
                            label: format!("{} {}{} ctx={}", p.name, c.label, sfx, if full { "full" } else { "min" }),
                            blob: assemble(&ctx, &[p.id], &[&items]),
                        });
                    }
                }
            }
        }
    }

    // --- pairs over the reduced set (thorough: over all choices, and reduced in full context)
    for &sender in &sides {
        let ctxs: &[bool] = if thorough { &[false, true] } else { &[false] };
        for &full in ctxs {
            let ctx = context(sender, full);
            for (i, (p, pcs)) in all.iter().enumerate() {
                for (q, qcs) in all.iter().skip(i + 1) {
                    for a in pcs.iter().filter(|c| thorough || c.reduced) {
                        for b in qcs.iter().filter(|c| thorough || c.reduced) {
                            out.push(Case {
                                sender,
                                group: "pair",
                                focus: format!("{}/{}", p.name, a.class),
                                label: format!("{} {} + {} {} ctx={}", p.name, a.label, q.name, b.label, if full { "full" } else { "min" }),
                                blob: assemble(&ctx, &[p.id, q.id], &[&a.items, &b.items]),
                            });
                        }
                    }
                }
            }
        }
    }

    // --- triples of illegal reduced choices (thorough)
    if thorough {
        for &sender in &sides {
            let ctx = context(sender, false);
            let ill: Vec<(&Pd, Vec<&Choice>)> = all
                .iter()
                .map(|(p, cs)| (*p, cs.iter().filter(|c| c.reduced && is_illegal_alone(sender, p, c)).collect()))
                .collect();
            for i in 0..ill.len() {
                for j in i + 1..ill.len() {
                    for k in j + 1..ill.len() {
                        for a in &ill[i].1 {
                            for b in &ill[j].1 {
                                for c in &ill[k].1 {
                                    out.push(Case {
                                        sender,
                                        group: "triple",
                                        focus: format!("{}/{}", ill[i].0.name, a.class),
                                        label: format!(
                                            "{} {} + {} {} + {} {}",
                                            ill[i].0.name, a.label, ill[j].0.name, b.label, ill[k].0.name, c.label
                                        ),
                                        blob: assemble(&ctx, &[ill[i].0.id, ill[j].0.id, ill[k].0.id], &[&a.items, &b.items, &c.items]),
                                    });
                                }
                            }
                        }
                    }
                }
            }
        }
    }

    // --- unknown / greased ids (31*N+27) and unknown neighbours of known ids
    let top_n = (VMAX - 27) / 31;
    let mut unknown: Vec<u64> = [0u64, 1, 2, 3, 100, 1000, top_n].iter().map(|n| 31 * n + 27).collect();
    unknown.extend([0x11, 0x1f, 0x21, 0x3f, 0x40, 0x2ab1, 0x2ab3, 0xffed, 0xffef, 0xff04de1b, VMAX]);
    for &sender in &sides {
        for full in [false, true] {
            let ctx = context(sender, full);
            for &u in &unknown {
                for l in [0usize, 1, 16, 300] {
                    for pos in [-1i8, 0, 1] {
                        let it = Item::new(u, vec![0xee; l]).at(pos);
                        out.push(Case {
                            sender,
                            group: "unknown",
                            focus: "unknown-id/ignored".into(),
                            label: format!("unknown id {u:#x} len={l} pos={pos} ctx={}", if full { "full" } else { "min" }),
                            blob: assemble(&ctx, &[], &[&[it]]),
                        });
                    }
                }
                // malformed unknown: declared length exceeds the extension
                let mut it = Item::new(u, vec![0xee; 3]).at(1);
                it.len = Some(4);
                out.push(Case {
                    sender,
                    group: "unknown",
                    focus: "unknown-id/length-exceeds-extension".into(),
                    label: format!("unknown id {u:#x} declared len 4, 3 bytes left"),
                    blob: assemble(&ctx, &[], &[&[it]]),
                });
            }
            // two greased ids at once
            let two = [Item::new(27, vec![1, 2, 3]).at(-1), Item::new(31 * 7 + 27, vec![]).at(1)];
            out.push(Case {
                sender,
                group: "unknown",
                focus: "unknown-id/ignored".into(),
                label: "two greased ids".into(),
                blob: assemble(&ctx, &[], &[&two]),
            });
        }
    }

    // --- duplicates
    for &sender in &sides {
        let ctx = context(sender, true);
        for (p, cs) in &all {
            let present: Vec<&Choice> = cs.iter().filter(|c| c.items.len() == 1 && c.items[0].pos == 0 && c.items[0].len.is_none()).collect();
            let legal: Vec<&Choice> = present.iter().copied().filter(|c| !is_illegal_alone(sender, p, c)).collect();
            let illegal: Vec<&Choice> = present.iter().copied().filter(|c| is_illegal_alone(sender, p, c)).collect();
            let mut combos: Vec<(&Choice, &Choice)> = Vec::new();
            if let Some(l0) = legal.first().copied() {
                combos.push((l0, l0));
                if let Some(l1) = legal.last().copied() {
                    combos.push((l0, l1));
                    combos.push((l1, l0));
                }
                for bad in illegal.iter().copied().take(if thorough { usize::MAX } else { 3 }) {
                    combos.push((l0, bad));
                    combos.push((bad, l0));
                }
            }
            for (a, b) in combos {
                for separated in [false, true] {
                    let (ia, ib) = if separated {
                        (a.items[0].clone().at(-1), b.items[0].clone().at(1))
                    } else {
                        (a.items[0].clone(), b.items[0].clone())
                    };
                    out.push(Case {
                        sender,
                        group: "duplicate",
                        focus: format!("{}/duplicate", p.name),
                        label: format!("{} twice: {} then {}{}", p.name, a.label, b.label, if separated { " (first/last)" } else { "" }),
                        blob: assemble(&ctx, &[p.id], &[&[ia, ib]]),
                    });
                }
            }
        }
    }

    // --- framing: every prefix of the full legal extension, and the empty extension
    for &sender in &sides {
        let full = encode(&context(sender, true));
        for cut in 0..full.len() {
            out.push(Case {
                sender,
                group: "prefix",
                focus: "framing/prefix".into(),
                label: format!("first {cut} of {} bytes of the full legal extension", full.len()),
                blob: full[..cut].to_vec(),
            });
        }
    }
    out
}
