//! Independent wire encoder for transport-parameter blobs and the RFC 9000 §18.2 / §7.3 /
//! §7.4 legality table (the reference the real parser is compared with). Nothing in this
//! file calls into gm-quic.
use std::collections::BTreeMap;

use serde::{Deserialize, Serialize};

pub const VMAX: u64 = (1 << 62) - 1;

/// The SENDER of a parameter blob (the peer). A server parses `Side::Client` blobs.
#[derive(Clone, Copy, PartialEq, Eq, Hash, PartialOrd, Ord, Debug, Serialize, Deserialize)]
pub enum Side {
    Client,
    Server,
}

impl Side {
    pub fn name(self) -> &'static str {
        match self {
            Side::Client => "client",
            Side::Server => "server",
        }
    }
    pub fn from_name(s: &str) -> Option<Side> {
        match s {
            "client" => Some(Side::Client),
            "server" => Some(Side::Server),
            _ => None,
        }
    }
}

pub fn hex(b: &[u8]) -> String {
    b.iter().map(|x| format!("{x:02x}")).collect()
}

pub fn unhex(s: &str) -> Option<Vec<u8>> {
    let s: Vec<u8> = s.bytes().filter(|c| !c.is_ascii_whitespace()).collect();
    if s.len() % 2 != 0 {
        return None;
    }
    s.chunks(2)
        .map(|p| u8::from_str_radix(std::str::from_utf8(p).ok()?, 16).ok())
        .collect()
}

// ---------------------------------------------------------------- varints

pub fn vi_min_w(v: u64) -> usize {
    if v < 64 {
        1
    } else if v < 16384 {
        2
    } else if v < (1 << 30) {
        4
    } else {
        8
    }
}

/// Encodes `v` in exactly `w` ∈ {1,2,4,8} bytes (w = 0: minimal).
pub fn vi_w(v: u64, w: usize) -> Vec<u8> {
    let w = if w == 0 { vi_min_w(v) } else { w.max(vi_min_w(v)) };
    match w {
        1 => vec![v as u8],
        2 => ((v as u16) | 0x4000).to_be_bytes().to_vec(),
        4 => ((v as u32) | 0x8000_0000).to_be_bytes().to_vec(),
        _ => (v | 0xc000_0000_0000_0000).to_be_bytes().to_vec(),
    }
}

pub fn vi(v: u64) -> Vec<u8> {
    vi_w(v, 0)
}

/// Reference varint reader: (value, width) or None when the buffer is too short.
pub fn rd_vi(b: &[u8]) -> Option<(u64, usize)> {
    let first = *b.first()?;
    let w = 1usize << (first >> 6);
    if b.len() < w {
        return None;
    }
    let mut v = (first & 0x3f) as u64;
    for x in &b[1..w] {
        v = (v << 8) | *x as u64;
    }
    Some((v, w))
}

// ---------------------------------------------------------------- items / blobs

/// One raw (id, length, value) triple. `idw`/`lenw` force a non-minimal varint width,
/// `len` overrides the declared length, `pos` orders the item inside the blob
/// (-1 first, 0 by id, 1 last).
#[derive(Clone, Debug, PartialEq, Eq)]
pub struct Item {
    pub id: u64,
    pub idw: usize,
    pub len: Option<u64>,
    pub lenw: usize,
    pub val: Vec<u8>,
    pub pos: i8,
}

impl Item {
    pub fn new(id: u64, val: Vec<u8>) -> Item {
        Item { id, idw: 0, len: None, lenw: 0, val, pos: 0 }
    }
    pub fn int(id: u64, v: u64) -> Item {
        Item::new(id, vi(v))
    }
    pub fn at(mut self, pos: i8) -> Item {
        self.pos = pos;
        self
    }
}

pub fn encode(items: &[Item]) -> Vec<u8> {
    let mut order: Vec<&Item> = items.iter().collect();
    order.sort_by_key(|i| (i.pos, if i.pos == 0 { i.id } else { 0 })); // stable
    let mut out = Vec::new();
    for i in order {
        out.extend(vi_w(i.id, i.idw));
        out.extend(vi_w(i.len.unwrap_or(i.val.len() as u64), i.lenw));
        out.extend(&i.val);
    }
    out
}

// ---------------------------------------------------------------- the legality table

#[derive(Clone, Copy, PartialEq, Eq, Debug)]
pub enum Ty {
    Cid,
    Int,
    Flag,
    Token,
    Pref,
    Bytes,
}

pub struct Pd {
    pub id: u64,
    pub name: &'static str,
    pub ty: Ty,
    /// RFC 9000 §18.2: "A client MUST NOT include any server-only transport parameter"
    pub server_only: bool,
    /// legal range of an integer parameter (inclusive)
    pub lo: u64,
    pub hi: u64,
    /// values in (soft_hi, hi] are not declared invalid by the RFC but make no sense:
    /// either behaviour is accepted
    pub soft_hi: u64,
    /// RFC default when absent (integers)
    pub dflt: u64,
    /// the value is a number of milliseconds
    pub ms: bool,
    /// a legal mid-range value used as context default
    pub mid: u64,
}

const fn int(id: u64, name: &'static str, lo: u64, hi: u64, soft_hi: u64, dflt: u64, mid: u64) -> Pd {
    Pd { id, name, ty: Ty::Int, server_only: false, lo, hi, soft_hi, dflt, ms: false, mid }
}
const fn other(id: u64, name: &'static str, ty: Ty, server_only: bool) -> Pd {
    Pd { id, name, ty, server_only, lo: 0, hi: VMAX, soft_hi: VMAX, dflt: 0, ms: false, mid: 0 }
}
const fn ms(mut p: Pd) -> Pd {
    p.ms = true;
    p
}

/// RFC 9000 §18.2 (+ §4.6 for max_streams, RFC 9221 max_datagram_frame_size, RFC 9287
/// grease_quic_bit, genmeta's private client_name).
pub const TABLE: &[Pd] = &[
    other(0x00, "original_destination_connection_id", Ty::Cid, true),
    ms(int(0x01, "max_idle_timeout", 0, VMAX, VMAX, 0, 30_000)),
    other(0x02, "stateless_reset_token", Ty::Token, true),
    // "Values below 1200 are invalid"; above 65527 the RFC is silent
    int(0x03, "max_udp_payload_size", 1200, VMAX, 65527, 65527, 1472),
    int(0x04, "initial_max_data", 0, VMAX, VMAX, 0, 1 << 20),
    int(0x05, "initial_max_stream_data_bidi_local", 0, VMAX, VMAX, 0, 1 << 18),
    int(0x06, "initial_max_stream_data_bidi_remote", 0, VMAX, VMAX, 0, 1 << 18),
    int(0x07, "initial_max_stream_data_uni", 0, VMAX, VMAX, 0, 1 << 18),
    // §4.6: "a value greater than 2^60 ... MUST be closed ... TRANSPORT_PARAMETER_ERROR"
    int(0x08, "initial_max_streams_bidi", 0, 1 << 60, 1 << 60, 0, 100),
    int(0x09, "initial_max_streams_uni", 0, 1 << 60, 1 << 60, 0, 100),
    int(0x0a, "ack_delay_exponent", 0, 20, 20, 3, 3),
    ms(int(0x0b, "max_ack_delay", 0, (1 << 14) - 1, (1 << 14) - 1, 25, 25)),
    other(0x0c, "disable_active_migration", Ty::Flag, false),
    other(0x0d, "preferred_address", Ty::Pref, true),
    int(0x0e, "active_connection_id_limit", 2, VMAX, VMAX, 2, 4),
    other(0x0f, "initial_source_connection_id", Ty::Cid, false),
    other(0x10, "retry_source_connection_id", Ty::Cid, true),
    int(0x20, "max_datagram_frame_size", 0, VMAX, VMAX, 0, 1200),
    other(0x2ab2, "grease_quic_bit", Ty::Flag, false),
    other(0xffee, "client_name", Ty::Bytes, false),
];

pub fn pd(id: u64) -> Option<&'static Pd> {
    TABLE.iter().find(|p| p.id == id)
}

pub const ID_ODCID: u64 = 0x00;
pub const ID_IDLE: u64 = 0x01;
pub const ID_PREF: u64 = 0x0d;
pub const ID_ISCID: u64 = 0x0f;
pub const ID_RETRY: u64 = 0x10;
pub const ID_CLIENT_NAME: u64 = 0xffee;

#[derive(Clone, Debug, PartialEq, Eq)]
pub enum Val {
    Int(u64),
    Cid(Vec<u8>),
    Flag,
    Token(Vec<u8>),
    /// only the connection id inside the preferred address is compared
    Pref(Vec<u8>),
    Bytes(Vec<u8>),
}

#[derive(Clone, Debug, PartialEq, Eq)]
pub enum Verdict {
    Legal,
    /// the RFC leaves the behaviour open (SHOULD, or silent)
    Either(String),
    Illegal { param: String, reason: String },
}

pub struct RefOut {
    pub verdict: Verdict,
    /// well-framed triples with a known id (the real parser gets past framing for these)
    pub known_items: usize,
    pub duplicates: bool,
    /// values a conforming parser must report (present ids only; meaningful when `Legal`)
    pub vals: BTreeMap<u64, Val>,
}

/// Builds a well-formed preferred_address value around a connection id.
pub fn pref_addr(cid: &[u8]) -> Vec<u8> {
    let mut v = vec![192, 0, 2, 1, 0x11, 0x51];
    v.extend([0x20, 0x01, 0x0d, 0xb8, 0, 0, 0, 0, 0, 0, 0, 0, 0, 0, 0, 1, 0x11, 0x51]);
    v.push(cid.len() as u8);
    v.extend(cid);
    v.extend([0xa5; 16]);
    v
}

/// The reference: is this blob a legal transport-parameter extension from `sender`?
pub fn reference(sender: Side, blob: &[u8]) -> RefOut {
    let mut illegal: Vec<(String, String)> = Vec::new();
    let mut either: Vec<String> = Vec::new();
    let mut seen: BTreeMap<u64, usize> = BTreeMap::new();
    let mut vals: BTreeMap<u64, Val> = BTreeMap::new();
    let mut known_items = 0;
    let mut duplicates = false;
    let mut pos = 0;
    let bad = |ill: &mut Vec<(String, String)>, p: &str, r: &str| ill.push((p.to_string(), r.to_string()));
    while pos < blob.len() {
        let Some((id, w)) = rd_vi(&blob[pos..]) else {
            bad(&mut illegal, "framing", "truncated-id");
            break;
        };
        pos += w;
        let Some((len, w)) = rd_vi(&blob[pos..]) else {
            bad(&mut illegal, "framing", "truncated-length");
            break;
        };
        pos += w;
        if len > (blob.len() - pos) as u64 {
            bad(&mut illegal, "framing", "length-exceeds-extension");
            break;
        }
        let val = &blob[pos..pos + len as usize];
        pos += len as usize;
        // §7.4.2: "An endpoint MUST ignore transport parameters that it does not support."
        let Some(p) = pd(id) else { continue };
        known_items += 1;
        let n = seen.entry(id).or_insert(0);
        *n += 1;
        if *n > 1 {
            // §7.4: MUST NOT send twice; receiver SHOULD treat as error -> either
            duplicates = true;
            either.push(format!("duplicate {}", p.name));
        }
        if p.server_only && sender == Side::Client {
            bad(&mut illegal, p.name, "server-only-from-client");
            continue;
        }
        if id == ID_CLIENT_NAME && sender == Side::Server {
            either.push("client_name (private extension) sent by a server".into());
        }
        match p.ty {
            Ty::Int => match rd_vi(val) {
                None if val.is_empty() => bad(&mut illegal, p.name, "zero-length"),
                None => bad(&mut illegal, p.name, "truncated-varint"),
                Some((_, w)) if w != val.len() => bad(&mut illegal, p.name, "trailing-bytes"),
                Some((v, _)) => {
                    if v < p.lo {
                        bad(&mut illegal, p.name, "below-min");
                    } else if v > p.hi {
                        bad(&mut illegal, p.name, "above-max");
                    } else {
                        if v > p.soft_hi {
                            either.push(format!("{} above the sensible maximum, RFC silent", p.name));
                        }
                        vals.insert(id, Val::Int(v));
                    }
                }
            },
            Ty::Flag => {
                if val.is_empty() {
                    vals.insert(id, Val::Flag);
                } else {
                    bad(&mut illegal, p.name, "non-empty-flag");
                }
            }
            Ty::Cid => {
                if val.len() > 20 {
                    bad(&mut illegal, p.name, "cid-longer-than-20");
                } else {
                    vals.insert(id, Val::Cid(val.to_vec()));
                }
            }
            Ty::Token => {
                if val.len() < 16 {
                    bad(&mut illegal, p.name, "token-short");
                } else if val.len() > 16 {
                    bad(&mut illegal, p.name, "token-long");
                } else {
                    vals.insert(id, Val::Token(val.to_vec()));
                }
            }
            Ty::Pref => {
                if val.len() < 25 {
                    bad(&mut illegal, p.name, "truncated");
                } else {
                    let cl = val[24] as usize;
                    if cl > 20 {
                        bad(&mut illegal, p.name, "cid-longer-than-20");
                    } else if val.len() < 25 + cl + 16 {
                        bad(&mut illegal, p.name, "truncated");
                    } else if val.len() > 25 + cl + 16 {
                        bad(&mut illegal, p.name, "trailing-bytes");
                    } else if cl == 0 {
                        // §18.2: "a server MUST NOT include a zero-length connection ID in this
                        // transport parameter. A client MUST treat a violation ... as
                        // TRANSPORT_PARAMETER_ERROR"
                        bad(&mut illegal, p.name, "zero-length-cid");
                    } else {
                        vals.insert(id, Val::Pref(val[25..25 + cl].to_vec()));
                    }
                }
            }
            Ty::Bytes => {
                vals.insert(id, Val::Bytes(val.to_vec()));
            }
        }
    }
    // §7.3: mandatory parameters
    if !seen.contains_key(&ID_ISCID) {
        bad(&mut illegal, "initial_source_connection_id", "absent");
    }
    if sender == Side::Server && !seen.contains_key(&ID_ODCID) {
        bad(&mut illegal, "original_destination_connection_id", "absent");
    }
    // §18.2: "A server that chooses a zero-length connection ID MUST NOT provide a
    // preferred address ... client MUST treat a violation as TRANSPORT_PARAMETER_ERROR"
    if sender == Side::Server
        && vals.contains_key(&ID_PREF)
        && matches!(vals.get(&ID_ISCID), Some(Val::Cid(c)) if c.is_empty())
        && seen.get(&ID_ISCID) == Some(&1)
    {
        bad(&mut illegal, "preferred_address", "with-zero-length-server-cid");
    }
    let verdict = if let Some((p, r)) = illegal.into_iter().next() {
        Verdict::Illegal { param: p, reason: r }
    } else if let Some(e) = either.into_iter().next() {
        Verdict::Either(e)
    } else {
        Verdict::Legal
    };
    RefOut { verdict, known_items, duplicates, vals }
}
