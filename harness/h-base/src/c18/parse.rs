//! Sub-checks (i) and (v): the real `parse_from_bytes` against the reference, and the
//! accepted values applied to the consumers qbase offers.
use std::{
    collections::BTreeMap,
    sync::{
        Arc,
        atomic::{AtomicU64, Ordering},
    },
    task::{Context, Poll},
    time::Duration,
};

use bytes::Bytes;
use mc_core::panics::{self, PanicInfo};
use qbase::{
    cid::{ArcLocalCids, ConnectionId, GenUniqueCid, RetireCid},
    error::ErrorKind,
    flow::ArcSendControler,
    frame::{DataBlockedFrame, NewConnectionIdFrame, StreamsBlockedFrame, io::SendFrame},
    net::tx::ArcSendWakers,
    param::{
        ClientParameters, ParameterId, ServerParameters, WriteParameters, core::Parameters as RoleParams,
        preferred_address::PreferredAddress,
    },
    role::Role,
    sid::{ArcLocalStreamIds, Dir},
    time::ArcIdleConfig,
    token::ResetToken,
    varint::VarInt,
};
use serde_json::{Value, json};

use super::{Finding, pclass, wire::*};

pub const CID_CAP: u64 = 20_000;
const CAP_MARK: &str = "C18-HARNESS-CAP";

pub fn param_id(id: u64) -> ParameterId {
    ParameterId::try_from(VarInt::from_u64(id).expect("table id")).expect("id known to the tree")
}

/// Which ids of the harness table the tree knows (vacuity guard for the table itself).
pub fn tree_knows(id: u64) -> bool {
    ParameterId::try_from(VarInt::from_u64(id).expect("table id")).is_ok()
}

fn extract<R>(p: &RoleParams<R>) -> BTreeMap<u64, Val> {
    let mut m = BTreeMap::new();
    for d in TABLE {
        let pid = param_id(d.id);
        let v = match d.ty {
            Ty::Int if d.ms => p.get::<Duration>(pid).map(|x| Val::Int(x.as_millis().min(u64::MAX as u128) as u64)),
            Ty::Int => p.get::<u64>(pid).map(Val::Int),
            Ty::Cid => p.get::<ConnectionId>(pid).map(|c| Val::Cid(c.to_vec())),
            Ty::Flag => p.get::<bool>(pid).filter(|b| *b).map(|_| Val::Flag),
            Ty::Token => p.get::<ResetToken>(pid).map(|t| Val::Token(t.to_vec())),
            Ty::Pref => p.get::<PreferredAddress>(pid).map(|a| Val::Pref(a.connection_id().to_vec())),
            Ty::Bytes => p.get::<Bytes>(pid).map(|b| Val::Bytes(b.to_vec())),
        };
        if let Some(v) = v {
            m.insert(d.id, v);
        }
    }
    m
}

pub enum Real {
    Ok { got: BTreeMap<u64, Val>, rewrite_panic: Option<PanicInfo> },
    Err { kind: ErrorKind, reason: String },
    Panic(PanicInfo),
}

/// What qconnection/src/tls.rs does with the peer's extension: a server calls
/// `ClientParameters::parse_from_bytes`, a client `ServerParameters::parse_from_bytes`.
pub fn real_parse(sender: Side, blob: &[u8]) -> Real {
    // parse and read back under one catch, the crate's own writer under a second one
    let parsed = panics::catch(|| match sender {
        Side::Client => ClientParameters::parse_from_bytes(blob).map(|p| (extract(&p), PeerBox::C(p))),
        Side::Server => ServerParameters::parse_from_bytes(blob).map(|p| (extract(&p), PeerBox::S(p))),
    });
    match parsed {
        Err(pi) => Real::Panic(pi),
        Ok(Err(e)) => Real::Err { kind: e.kind(), reason: e.reason().to_string() },
        Ok(Ok((got, pb))) => {
            let rewrite_panic = panics::catch(|| {
                let mut buf = Vec::new();
                match &pb {
                    PeerBox::C(p) => buf.put_parameters(p),
                    PeerBox::S(p) => buf.put_parameters(p),
                }
                buf.len()
            })
            .err();
            Real::Ok { got, rewrite_panic }
        }
    }
}

enum PeerBox {
    C(ClientParameters),
    S(ServerParameters),
}

/// The values the connection hands to consumers after the handshake (builder.rs
/// `tls_fin_handler::apply_parameters`, `DataStreams::revise_params`).
#[derive(Clone, PartialEq, Eq, PartialOrd, Ord, Hash, Debug)]
pub struct ApplyKey {
    pub receiver_client: bool,
    pub bidi: u64,
    pub uni: u64,
    pub max_data: u64,
    pub cid_limit: u64,
    pub idle_ms: u64,
    pub ack_ms: u64,
}

#[derive(Clone, Copy, PartialEq, Eq, PartialOrd, Ord, Hash, Debug)]
pub enum Part {
    Streams,
    Flow,
    Cids,
    Idle,
}

pub const PARTS: [Part; 4] = [Part::Streams, Part::Flow, Part::Cids, Part::Idle];

impl ApplyKey {
    /// The part of the tuple one consumer sees (everything else at its default).
    pub fn project(&self, part: Part) -> ApplyKey {
        let mut k = ApplyKey { receiver_client: false, bidi: 0, uni: 0, max_data: 0, cid_limit: 2, idle_ms: 0, ack_ms: 25 };
        match part {
            Part::Streams => {
                k.receiver_client = self.receiver_client;
                k.bidi = self.bidi;
                k.uni = self.uni;
            }
            Part::Flow => k.max_data = self.max_data,
            Part::Cids => k.cid_limit = self.cid_limit,
            Part::Idle => {
                k.idle_ms = self.idle_ms;
                k.ack_ms = self.ack_ms;
            }
        }
        k
    }
    fn from_got(sender: Side, got: &BTreeMap<u64, Val>) -> ApplyKey {
        let int = |id: u64| match got.get(&id) {
            Some(Val::Int(v)) => *v,
            _ => pd(id).map(|p| p.dflt).unwrap_or(0),
        };
        ApplyKey {
            receiver_client: sender == Side::Server,
            bidi: int(0x08),
            uni: int(0x09),
            max_data: int(0x04),
            cid_limit: int(0x0e),
            idle_ms: int(0x01),
            ack_ms: int(0x0b),
        }
    }
    pub fn json(&self) -> Value {
        json!({"receiver": if self.receiver_client {"client"} else {"server"},
            "initial_max_streams_bidi": self.bidi, "initial_max_streams_uni": self.uni,
            "initial_max_data": self.max_data, "active_connection_id_limit": self.cid_limit,
            "max_idle_timeout_ms": self.idle_ms, "max_ack_delay_ms": self.ack_ms})
    }
    pub fn is_default(&self) -> bool {
        self.bidi == 0 && self.uni == 0 && self.max_data == 0 && self.cid_limit == 2 && self.idle_ms == 0 && self.ack_ms == 25
    }
}

#[derive(PartialEq, Eq, Clone, Copy, Debug)]
pub enum Outcome {
    Accepted,
    Rejected,
    Panicked,
}

pub struct ParseRes {
    pub findings: Vec<Finding>,
    pub outcome: Outcome,
    /// 0 legal, 1 either, 2 illegal
    pub verdict: u8,
    pub duplicates: bool,
    pub nontrivial: bool,
    pub apply: Option<ApplyKey>,
    pub err_reason: Option<String>,
}

pub fn replay_json(sender: Side, blob: &[u8], focus: &str, label: &str) -> Value {
    json!({"sub": "parse", "sender": sender.name(), "blob": hex(blob), "focus": focus, "case": label})
}

/// Runs one blob through reference and real parser and compares.
pub fn check_parse(sender: Side, blob: &[u8], focus: &str, label: &str) -> ParseRes {
    let r = reference(sender, blob);
    let real = real_parse(sender, blob);
    let rp = || replay_json(sender, blob, focus, label);
    let who = match sender {
        Side::Client => "server parsing ClientParameters",
        Side::Server => "client parsing ServerParameters",
    };
    let mut findings = Vec::new();
    let mut apply = None;
    let mut err_reason = None;
    let verdict = match r.verdict {
        Verdict::Legal => 0,
        Verdict::Either(_) => 1,
        Verdict::Illegal { .. } => 2,
    };
    let outcome = match &real {
        Real::Panic(pi) => {
            findings.push(Finding {
                sig: format!("panic/{}", pclass(pi)),
                detail: format!(
                    "{who}: parse_from_bytes({}) panicked at {}: {} [case: {label}; reference verdict: {:?}]",
                    hex(blob), pi.location, pi.message, r.verdict
                ),
                replay: rp(),
            });
            Outcome::Panicked
        }
        Real::Err { kind, reason } => {
            err_reason = Some(reason.clone());
            if *kind != ErrorKind::TransportParameter {
                findings.push(Finding {
                    sig: format!("parse/wrong-error-kind/{kind:?}"),
                    detail: format!("{who}: {} rejected with {kind:?} ({reason}) instead of TRANSPORT_PARAMETER_ERROR [case: {label}]", hex(blob)),
                    replay: rp(),
                });
            }
            if verdict == 0 {
                findings.push(Finding {
                    // keyed on the parser's own complaint (digits masked), so that a pair case
                    // is filed under the parameter that was actually refused
                    sig: format!("parse/rejected-legal/{}", mask_reason(reason)),
                    detail: format!("{who}: legal extension {} rejected: {reason} [case: {label}]", hex(blob)),
                    replay: rp(),
                });
            }
            Outcome::Rejected
        }
        Real::Ok { got, rewrite_panic } => {
            if let Verdict::Illegal { param, reason } = &r.verdict {
                findings.push(Finding {
                    sig: format!("parse/accepted-illegal/{param}/{reason}"),
                    detail: format!("{who}: {} accepted although {param} is illegal ({reason}) per RFC 9000 §18.2/§7.3/§7.4 [case: {label}]", hex(blob)),
                    replay: rp(),
                });
            } else {
                if verdict == 0 {
                    // the values handed on must be the ones sent, absent ones the RFC defaults
                    for d in TABLE {
                        let expect = match (r.vals.get(&d.id), d.ty) {
                            (Some(v), _) => Some(v.clone()),
                            (None, Ty::Int) => Some(Val::Int(d.dflt)),
                            (None, _) => None,
                        };
                        let have = got.get(&d.id).cloned();
                        if expect != have {
                            let kind = if r.vals.contains_key(&d.id) { "wrong-value" } else { "wrong-default" };
                            findings.push(Finding {
                                sig: format!("parse/{kind}/{}", d.name),
                                detail: format!("{who}: {} parsed Ok but {} reads back as {have:?}, sent/default {expect:?} [case: {label}]", hex(blob), d.name),
                                replay: rp(),
                            });
                        }
                    }
                }
                apply = Some(ApplyKey::from_got(sender, got));
            }
            if let Some(pi) = rewrite_panic {
                findings.push(Finding {
                    sig: format!("panic/{}", pclass(pi)),
                    detail: format!("{who}: accepted {} but writing the accepted set with put_parameters panicked at {}: {}", hex(blob), pi.location, pi.message),
                    replay: rp(),
                });
            }
            Outcome::Accepted
        }
    };
    ParseRes { findings, outcome, verdict, duplicates: r.duplicates, nontrivial: r.known_items > 0, apply, err_reason }
}

// ---------------------------------------------------------------- (v) consumers

#[derive(Clone, Default)]
struct Sink;
impl SendFrame<StreamsBlockedFrame> for Sink {
    fn send_frame<I: IntoIterator<Item = StreamsBlockedFrame>>(&self, iter: I) {
        iter.into_iter().for_each(drop);
    }
}
impl SendFrame<DataBlockedFrame> for Sink {
    fn send_frame<I: IntoIterator<Item = DataBlockedFrame>>(&self, iter: I) {
        iter.into_iter().for_each(drop);
    }
}

/// Issues counter-based connection ids and aborts (harness panic) past `CID_CAP`.
#[derive(Clone, Debug)]
struct Issuer(Arc<AtomicU64>);
impl GenUniqueCid for Issuer {
    fn gen_unique_cid(&self) -> ConnectionId {
        let n = self.0.fetch_add(1, Ordering::Relaxed);
        if n >= CID_CAP {
            panic!("{CAP_MARK}: more than {CID_CAP} connection ids issued in one set_limit call");
        }
        ConnectionId::from_slice(&(n | 1 << 63).to_be_bytes())
    }
}
impl RetireCid for Issuer {
    fn retire_cid(&self, _cid: ConnectionId) {}
}
impl SendFrame<NewConnectionIdFrame> for Issuer {
    fn send_frame<I: IntoIterator<Item = NewConnectionIdFrame>>(&self, iter: I) {
        iter.into_iter().for_each(drop);
    }
}

fn noop_cx() -> Context<'static> {
    Context::from_waker(std::task::Waker::noop())
}

/// Applies accepted values the way the connection does; returns (signature, detail).
pub fn apply(k: &ApplyKey, part: Part) -> Vec<(String, String)> {
    let mut out = Vec::new();
    let role = if k.receiver_client { Role::Client } else { Role::Server };
    let on_panic = |what: &str, pi: PanicInfo, out: &mut Vec<(String, String)>| {
        out.push((
            format!("panic/{}", pclass(&pi)),
            format!("parameters {} were accepted by parse_from_bytes, then {what} panicked at {}: {}", k.json(), pi.location, pi.message),
        ));
    };
    // streams: DataStreams::revise_params -> ArcLocalStreamIds::revise_max_streams
    for zr in [false, true] {
        if part != Part::Streams {
            break;
        }
        let r = panics::catch(|| {
            let ids = ArcLocalStreamIds::new(role, 0, 0, Sink, ArcSendWakers::new());
            ids.revise_max_streams(zr, k.bidi, k.uni);
            let mut cx = noop_cx();
            (ids.poll_alloc_sid(&mut cx, Dir::Bi), ids.poll_alloc_sid(&mut cx, Dir::Uni))
        });
        match r {
            Err(pi) => on_panic(&format!("ArcLocalStreamIds::revise_max_streams(zero_rtt_rejected={zr}, {}, {})", k.bidi, k.uni), pi, &mut out),
            Ok((b, u)) => {
                for (dir, got, limit) in [("bidi", b, k.bidi), ("uni", u, k.uni)] {
                    let opened = matches!(got, Poll::Ready(Some(_)));
                    if opened != (limit > 0) {
                        out.push((
                            format!("apply/stream-limit-not-honoured/{dir}"),
                            format!("peer initial_max_streams_{dir} = {limit} applied, first local stream open = {got:?}"),
                        ));
                    }
                }
            }
        }
    }
    if k.receiver_client && part == Part::Streams {
        // a client that remembered these parameters starts its stream table from them
        // (builder.rs init_stream_and_datagram with `remembered`)
        if let Err(pi) = panics::catch(|| {
            let ids = ArcLocalStreamIds::new(role, k.bidi, k.uni, Sink, ArcSendWakers::new());
            let mut cx = noop_cx();
            let _ = ids.poll_alloc_sid(&mut cx, Dir::Bi);
            let _ = ids.poll_alloc_sid(&mut cx, Dir::Uni);
            ids.revise_max_streams(false, k.bidi, k.uni);
        }) {
            on_panic("ArcLocalStreamIds::new(remembered limits) + revise_max_streams", pi, &mut out);
        }
    }
    // connection flow control: ArcSendControler::revise_max_data
    if part == Part::Flow {
    match panics::catch(|| {
        let fc = ArcSendControler::new(0, Sink, ArcSendWakers::new());
        fc.revise_max_data(false, k.max_data);
        fc.credit(1200).map(|c| c.available())
    }) {
        Err(pi) => on_panic(&format!("ArcSendControler::revise_max_data({})", k.max_data), pi, &mut out),
        Ok(Ok(avail)) => {
            if avail as u64 != k.max_data.min(1200) {
                out.push((
                    "apply/flow-limit-not-honoured".into(),
                    format!("peer initial_max_data = {} applied, credit(1200) = {avail}", k.max_data),
                ));
            }
        }
        Ok(Err(e)) => out.push(("apply/flow-error".into(), format!("credit failed: {e}"))),
    }
    }
    // connection ids: ArcLocalCids::set_limit
    let issued = Arc::new(AtomicU64::new(0));
    if part == Part::Cids {
    match panics::catch(|| {
        let cids = ArcLocalCids::new(ConnectionId::from_slice(&[1, 2, 3, 4, 5, 6, 7, 8]), Issuer(issued.clone()));
        cids.set_limit(k.cid_limit)
    }) {
        Err(pi) if pi.message.starts_with(CAP_MARK) => out.push((
            "apply/unbounded-work/active_connection_id_limit".into(),
            format!(
                "peer active_connection_id_limit = {} accepted; ArcLocalCids::set_limit issues one connection id + NEW_CONNECTION_ID frame per unit of the limit with no local cap (stopped by the harness after {CID_CAP}); the real issuer also inserts each id into the router table",
                k.cid_limit
            ),
        )),
        Err(pi) => on_panic(&format!("ArcLocalCids::set_limit({})", k.cid_limit), pi, &mut out),
        Ok(Ok(())) => {}
        Ok(Err(e)) => {
            if e.kind() != ErrorKind::TransportParameter {
                out.push((format!("apply/wrong-error-kind/{:?}", e.kind()), format!("set_limit({}) failed with {e}", k.cid_limit)));
            }
        }
    }
    }
    // idle timeout: ArcIdleConfig::negotiate_max_idle_timeout (+ a timer built from it)
    if part != Part::Idle {
        return out;
    }
    if let Err(pi) = panics::catch(|| {
        let cfg = ArcIdleConfig::new(Duration::from_secs(20), Duration::from_secs(10));
        cfg.negotiate_max_idle_timeout(Duration::from_millis(k.idle_ms));
        let t = cfg.timer();
        t.on_sent(qbase::packet::PacketContent::EffectivePayload);
        let _ = t.health();
        // max_ack_delay: the consumers take a Duration; conversions the loss timer performs
        let d = Duration::from_millis(k.ack_ms);
        let _ = d.as_micros();
        let _ = d.checked_mul(4);
    }) {
        on_panic(&format!("ArcIdleConfig::negotiate_max_idle_timeout({} ms)", k.idle_ms), pi, &mut out);
    }
    out
}

/// The parser's error text with digit runs masked and truncated: a stable class.
fn mask_reason(reason: &str) -> String {
    let mut out = String::new();
    let mut last_digit = false;
    for c in reason.chars() {
        if c.is_ascii_digit() {
            if !last_digit {
                out.push('#');
            }
            last_digit = true;
        } else {
            last_digit = false;
            out.push(if c.is_ascii_alphanumeric() || c == '#' { c } else { '_' });
        }
    }
    out.truncate(60);
    out
}
