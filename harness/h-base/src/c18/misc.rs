//! Sub-checks (iii) idle timeout and (iv) remembered parameters for 0-RTT.
use std::time::Duration;

use mc_core::panics;
use qbase::{
    cid::ConnectionId,
    packet::PacketContent,
    param::{ClientParameters, ParameterId, Parameters, ServerParameters},
    time::ArcIdleConfig,
};
use serde_json::{Value, json};

use super::{Finding, pclass, wire::*};

// ---------------------------------------------------------------- (iii)

/// min of the non-zero values; None = disabled (both zero)
pub fn idle_expected(a: u64, b: u64) -> Option<u64> {
    match (a, b) {
        (0, 0) => None,
        (0, x) | (x, 0) => Some(x),
        (x, y) => Some(x.min(y)),
    }
}

/// `Parameters::negotiated_max_idle_timeout` with `local` set through the crate's setter and
/// `remote` received through `parse_from_bytes` + `recv_remote_params`.
pub fn idle_params(local_client: bool, local_ms: u64, remote_ms: u64) -> Result<Option<Duration>, String> {
    let scid = [7u8; 8];
    let odcid = [6u8; 8];
    let e = |x: &dyn std::fmt::Display| x.to_string();
    if local_client {
        let mut local = ClientParameters::default();
        local.set(ParameterId::InitialSourceConnectionId, ConnectionId::from_slice(&[9; 8])).map_err(|x| e(&x))?;
        local.set(ParameterId::MaxIdleTimeout, Duration::from_millis(local_ms)).map_err(|x| e(&x))?;
        let blob = encode(&[Item::new(ID_ISCID, scid.to_vec()), Item::new(ID_ODCID, odcid.to_vec()), Item::int(ID_IDLE, remote_ms)]);
        let remote = ServerParameters::parse_from_bytes(&blob).map_err(|x| e(&x))?;
        let mut p = Parameters::new_client(local, None, ConnectionId::from_slice(&odcid));
        p.recv_remote_params(remote).map_err(|x| e(&x))?;
        p.initial_scid_from_peer_need_equal(ConnectionId::from_slice(&scid)).map_err(|x| e(&x))?;
        Ok(p.negotiated_max_idle_timeout())
    } else {
        let mut local = ServerParameters::default();
        local.set(ParameterId::InitialSourceConnectionId, ConnectionId::from_slice(&[9; 8])).map_err(|x| e(&x))?;
        local.set(ParameterId::OriginalDestinationConnectionId, ConnectionId::from_slice(&odcid)).map_err(|x| e(&x))?;
        local.set(ParameterId::MaxIdleTimeout, Duration::from_millis(local_ms)).map_err(|x| e(&x))?;
        let blob = encode(&[Item::new(ID_ISCID, scid.to_vec()), Item::int(ID_IDLE, remote_ms)]);
        let remote = ClientParameters::parse_from_bytes(&blob).map_err(|x| e(&x))?;
        let mut p = Parameters::new_server(local);
        p.initial_scid_from_peer_need_equal(ConnectionId::from_slice(&scid)).map_err(|x| e(&x))?;
        p.recv_remote_params(remote).map_err(|x| e(&x))?;
        Ok(p.negotiated_max_idle_timeout())
    }
}

#[derive(Debug)]
pub struct TimerObs {
    /// timed out when idle for `probe_before` ms
    pub early: bool,
    /// timed out when idle for `probe_after` ms
    pub late: bool,
}

/// Behaviour of the real idle timer (what the connection uses: builder.rs creates
/// `ArcIdleConfig::new(local, defer)`, tls_fin_handler calls `negotiate_max_idle_timeout(remote)`)
/// under a paused tokio clock: is the path timed out after `before` / `after` ms of idleness?
pub fn idle_timer(local_ms: u64, remote_ms: u64, before: u64, after: u64) -> TimerObs {
    let rt = tokio::runtime::Builder::new_current_thread()
        .enable_time()
        .start_paused(true)
        .build()
        .expect("tokio runtime");
    rt.block_on(async {
        let cfg = ArcIdleConfig::new(Duration::from_millis(local_ms), Duration::ZERO);
        cfg.negotiate_max_idle_timeout(Duration::from_millis(remote_ms));
        let timer = cfg.timer();
        timer.on_sent(PacketContent::EffectivePayload);
        tokio::time::advance(Duration::from_millis(1)).await;
        let _ = timer.health(); // defer period (0) is over: the idle period begins now
        tokio::time::advance(Duration::from_millis(before)).await;
        let early = timer.health().is_err();
        tokio::time::advance(Duration::from_millis(after - before)).await;
        let late = timer.health().is_err();
        TimerObs { early, late }
    })
}

pub fn check_idle(which: &str, local_client: bool, a: u64, b: u64) -> (Vec<Finding>, String) {
    let rp = json!({"sub": "idle", "which": which, "local_client": local_client, "local_ms": a, "remote_ms": b});
    let mut f = Vec::new();
    let want = idle_expected(a, b);
    let mut add = |sig: &str, detail: String| f.push(Finding { sig: sig.to_string(), detail, replay: rp.clone() });
    let outcome;
    match which {
        "params" => match panics::catch(|| idle_params(local_client, a, b)) {
            Err(pi) => {
                add(&format!("panic/{}", pclass(&pi)), format!("negotiated_max_idle_timeout(local {a} ms, remote {b} ms): panic at {}: {}", pi.location, pi.message));
                outcome = "panic".to_string();
            }
            Ok(Err(s)) => {
                add("idle/setup-failed", format!("local {a} ms, remote {b} ms: {s}"));
                outcome = "setup".into();
            }
            Ok(Ok(got)) => {
                outcome = format!("{got:?}");
                match (want, got) {
                    (_, None) => add("idle/none-although-ready", format!("local {a} ms, remote {b} ms, both parameter sets ready: negotiated_max_idle_timeout() = None")),
                    (None, Some(d)) => {
                        if d != Duration::MAX && d != Duration::ZERO {
                            add("idle/enabled-though-both-zero", format!("both endpoints advertise 0 (disabled) but the negotiated value is {d:?}"));
                        }
                    }
                    (Some(ms), Some(d)) => {
                        if d != Duration::from_millis(ms) {
                            let sig = if d == Duration::MAX || d == Duration::ZERO {
                                "idle/disabled-though-advertised"
                            } else if d > Duration::from_millis(ms) {
                                "idle/larger-than-min-nonzero"
                            } else {
                                "idle/smaller-than-min-nonzero"
                            };
                            add(sig, format!("local {a} ms, remote {b} ms: negotiated {d:?}, smaller non-zero value is {ms} ms"));
                        }
                    }
                }
            }
        },
        _ => {
            // probe 1 ms around the expected value; "disabled" is probed at 10x the largest value
            let (before, after) = match want {
                Some(ms) => (ms - 1, ms + 1),
                None => (6_000_000, 6_000_001),
            };
            match panics::catch(|| idle_timer(a, b, before, after)) {
                Err(pi) => {
                    add(&format!("panic/{}", pclass(&pi)), format!("ArcIdleConfig(local {a} ms).negotiate_max_idle_timeout({b} ms): panic at {}: {}", pi.location, pi.message));
                    outcome = "panic".to_string();
                }
                Ok(o) => {
                    outcome = format!("{o:?}");
                    match want {
                        None => {
                            if o.early || o.late {
                                add("idle/timeout-though-both-zero", format!("both endpoints advertise 0 (disabled) but the idle timer fired within {after} ms"));
                            }
                        }
                        Some(ms) => {
                            if o.early {
                                add("idle/smaller-than-min-nonzero", format!("local {a} ms, remote {b} ms: timer fired after {before} ms of idleness, effective timeout must be {ms} ms"));
                            } else if !o.late {
                                add("idle/larger-than-min-nonzero", format!("local {a} ms, remote {b} ms: timer did not fire after {after} ms of idleness, effective timeout must be {ms} ms"));
                            }
                        }
                    }
                }
            }
        }
    }
    (f, outcome)
}

// ---------------------------------------------------------------- (iv)

/// RFC 9000 §7.4.1 (+ RFC 9221 §3 for max_datagram_frame_size): the limits a client
/// remembers for 0-RTT and a server must not reduce.
pub const REMEMBERED: [u64; 8] = [0x04, 0x05, 0x06, 0x07, 0x08, 0x09, 0x0e, 0x20];

#[derive(Clone, Debug)]
pub struct ZCase {
    pub label: String,
    /// (id, value) present in the remembered / the new server parameters
    pub old: Vec<(u64, u64)>,
    pub new: Vec<(u64, u64)>,
}

fn eff(set: &[(u64, u64)], id: u64) -> u64 {
    set.iter().find(|(i, _)| *i == id).map(|(_, v)| *v).unwrap_or_else(|| pd(id).unwrap().dflt)
}

/// Some(id) = the first remembered id whose new effective value is smaller.
pub fn z_smaller(c: &ZCase) -> Option<u64> {
    REMEMBERED.iter().copied().find(|id| eff(&c.new, *id) < eff(&c.old, *id))
}

pub fn z_cases() -> Vec<ZCase> {
    let mut v = Vec::new();
    for m in [1000u64, 1 << 30] {
        let base: Vec<(u64, u64)> = REMEMBERED.iter().map(|id| (*id, m)).collect();
        v.push(ZCase { label: format!("M={m} all equal"), old: base.clone(), new: base.clone() });
        for (i, id) in REMEMBERED.iter().enumerate() {
            let name = pd(*id).unwrap().name;
            for (what, nv) in [("smaller", Some(m - 1)), ("equal", Some(m)), ("larger", Some(m + 1)), ("absent", None)] {
                let mut new = base.clone();
                match nv {
                    Some(x) => new[i].1 = x,
                    None => {
                        new.remove(i);
                    }
                }
                v.push(ZCase { label: format!("M={m} {name} {what}"), old: base.clone(), new });
            }
            // remembered value absent (default), new explicit
            let d = pd(*id).unwrap().dflt;
            for nv in [d, d + 1, m] {
                let mut old = base.clone();
                old.remove(i);
                let mut new = base.clone();
                new[i].1 = nv;
                v.push(ZCase { label: format!("M={m} {name} remembered absent, new {nv}"), old, new });
            }
            for (j, other) in REMEMBERED.iter().enumerate() {
                if i != j {
                    let mut new = base.clone();
                    new[i].1 = m - 1;
                    new[j].1 = m + 1;
                    v.push(ZCase { label: format!("M={m} {name} smaller, {} larger", pd(*other).unwrap().name), old: base.clone(), new });
                }
            }
        }
        // parameters outside the remembered set change freely
        for (id, ov, nv) in [(ID_IDLE, 30_000u64, 1u64), (0x03, 65527, 1200), (0x0b, 25, 1)] {
            let mut old = base.clone();
            old.push((id, ov));
            let mut new = base.clone();
            new.push((id, nv));
            v.push(ZCase { label: format!("M={m} unrelated {} smaller", pd(id).unwrap().name), old, new });
        }
    }
    v
}

fn z_blob(set: &[(u64, u64)]) -> Vec<u8> {
    let mut items = vec![Item::new(ID_ISCID, vec![3; 8]), Item::new(ID_ODCID, vec![4; 8])];
    items.extend(set.iter().map(|(id, v)| Item::int(*id, *v)));
    encode(&items)
}

pub fn z_replay(c: &ZCase) -> Value {
    json!({"sub": "zero-rtt", "remembered": hex(&z_blob(&c.old)), "new": hex(&z_blob(&c.new)), "case": c.label})
}

/// tls.rs: both sets come from `ServerParameters::parse_from_bytes`; the decision is
/// `remembered.is_0rtt_accepted(&new)`.
pub fn z_real(old: &[u8], new: &[u8]) -> Result<bool, String> {
    let o = ServerParameters::parse_from_bytes(old).map_err(|e| format!("remembered set rejected: {e}"))?;
    let n = ServerParameters::parse_from_bytes(new).map_err(|e| format!("new set rejected: {e}"))?;
    Ok(o.is_0rtt_accepted(&n))
}

/// Returns findings and whether the real code honoured the remembered parameters.
pub fn check_zero_rtt(c: &ZCase) -> (Vec<Finding>, Option<bool>) {
    let mut f = Vec::new();
    let (ob, nb) = (z_blob(&c.old), z_blob(&c.new));
    match panics::catch(|| z_real(&ob, &nb)) {
        Err(pi) => {
            f.push(Finding { sig: format!("panic/{}", pclass(&pi)), detail: format!("is_0rtt_accepted [{}]: panic at {}: {}", c.label, pi.location, pi.message), replay: z_replay(c) });
            (f, None)
        }
        Ok(Err(s)) => {
            f.push(Finding { sig: "zero-rtt/setup-failed".into(), detail: format!("[{}] {s}", c.label), replay: z_replay(c) });
            (f, None)
        }
        Ok(Ok(acc)) => {
            if let (true, Some(id)) = (acc, z_smaller(c)) {
                let name = pd(id).unwrap().name;
                f.push(Finding {
                    sig: format!("zero-rtt/accepted-though-smaller/{name}"),
                    detail: format!("[{}] remembered {name} = {}, new = {}: remembered parameters honoured although the new value is smaller", c.label, eff(&c.old, id), eff(&c.new, id)),
                    replay: z_replay(c),
                });
            }
            (f, Some(acc))
        }
    }
}
