//! C18 — peer transport parameters are validated and bound to on-wire connection IDs.
//!
//! E0 enumeration over the real qbase code:
//!  (i)   `parse`    — `ClientParameters/ServerParameters::parse_from_bytes` (what
//!                     qconnection/src/tls.rs calls on the peer's extension) against an
//!                     independent RFC 9000 §18.2/§7.3/§7.4 legality table, on blobs built by an
//!                     independent encoder from raw (id, len, value) triples;
//!  (v)   `apply`    — every distinct accepted value set applied to `ArcLocalStreamIds`,
//!                     `ArcSendControler`, `ArcLocalCids::set_limit`, `ArcIdleConfig`;
//!  (ii)  `bind`     — `ArcParameters`: `recv_remote_params` x `initial_scid_from_peer_need_equal`
//!                     in both orders x every connection-id relation x both roles, with a
//!                     `remote_ready()` waiter;
//!  (iii) `idle`     — `Parameters::negotiated_max_idle_timeout` and the real idle timer;
//!  (iv)  `zero-rtt` — `ServerParameters::is_0rtt_accepted`.
use std::collections::{BTreeMap, BTreeSet, HashSet};

use mc_core::{
    Args, Report,
    panics::PanicInfo,
    par::par_map,
    report::{Coverage, load_replay},
};
use serde_json::{Map, Value, json};

mod bind;
mod cases;
mod misc;
mod parse;
mod wire;

use wire::*;

pub struct Finding {
    pub sig: String,
    pub detail: String,
    pub replay: Value,
}

/// Stable panic class: source file + message with byte lists collapsed and digits masked
/// (like `PanicInfo::class`, but independent of how long the offending input was).
pub fn pclass(pi: &PanicInfo) -> String {
    let file = pi.location.split(':').next().unwrap_or("?");
    let mut msg = String::new();
    let mut depth = 0;
    for ch in pi.message.chars() {
        match ch {
            '[' => {
                if depth == 0 {
                    msg.push_str("[..]");
                }
                depth += 1;
            }
            ']' if depth > 0 => depth -= 1,
            _ if depth > 0 => {}
            c if c.is_ascii_digit() => {
                if !msg.ends_with('#') {
                    msg.push('#');
                }
            }
            c => msg.push(c),
        }
    }
    if msg.len() > 90 {
        let mut cut = 90;
        while !msg.is_char_boundary(cut) {
            cut -= 1;
        }
        msg.truncate(cut);
    }
    format!("{file}:{msg}")
}

fn file(report: &mut Report, fs: Vec<Finding>) {
    for f in fs {
        report.violation(&f.sig, &f.detail, f.replay);
    }
}

fn extra(pairs: Vec<(&str, Value)>) -> Map<String, Value> {
    pairs.into_iter().map(|(k, v)| (k.to_string(), v)).collect()
}

// ---------------------------------------------------------------- (i) + (v)

fn run_parse(args: &Args, report: &mut Report) {
    // vacuity guard: the harness table and the tree must talk about the same 20 ids
    for p in TABLE {
        if !parse::tree_knows(p.id) {
            report.violation(
                &format!("parse/id-unknown-to-tree/{}", p.name),
                &format!("the tree no longer knows transport parameter {:#x} ({})", p.id, p.name),
                json!({"sub": "parse", "sender": "client", "blob": "", "focus": p.name}),
            );
        }
    }
    let generated = cases::generate(args.thorough);
    let n_generated = generated.len();
    // distinct (sender, blob); the first generated case keeps its label
    let mut seen: HashSet<(Side, Vec<u8>)> = HashSet::new();
    let mut per_group: BTreeMap<&'static str, u64> = BTreeMap::new();
    let mut list: Vec<cases::Case> = Vec::new();
    for c in generated {
        *per_group.entry(c.group).or_insert(0) += 1;
        if seen.insert((c.sender, c.blob.clone())) {
            list.push(c);
        }
    }
    drop(seen);
    let results = par_map(&list, |c| parse::check_parse(c.sender, &c.blob, &c.focus, &c.label));

    let (mut acc, mut rej, mut pan) = (0u64, 0u64, 0u64);
    let mut verdicts = [0u64; 3];
    let mut table = [[0u64; 3]; 3]; // verdict x outcome
    let (mut dup_acc, mut dup_rej) = (0u64, 0u64);
    let mut nontrivial = 0u64;
    let mut reasons: BTreeMap<String, u64> = BTreeMap::new();
    let mut keys: BTreeMap<(parse::Part, parse::ApplyKey), usize> = BTreeMap::new();
    let mut samples = Vec::new();
    for (i, (c, r)) in list.iter().zip(results).enumerate() {
        let o = match r.outcome {
            parse::Outcome::Accepted => {
                acc += 1;
                0
            }
            parse::Outcome::Rejected => {
                rej += 1;
                1
            }
            parse::Outcome::Panicked => {
                pan += 1;
                2
            }
        };
        verdicts[r.verdict as usize] += 1;
        table[r.verdict as usize][o] += 1;
        if r.duplicates && r.verdict == 1 {
            match r.outcome {
                parse::Outcome::Accepted => dup_acc += 1,
                parse::Outcome::Rejected => dup_rej += 1,
                _ => {}
            }
        }
        if r.nontrivial {
            nontrivial += 1;
        }
        if let Some(reason) = &r.err_reason {
            // class of the rejection reason: digits and lists masked
            let cls = pclass(&PanicInfo { message: reason.clone(), location: "err".into() });
            *reasons.entry(cls).or_insert(0) += 1;
        }
        if let Some(k) = r.apply {
            for part in parse::PARTS {
                keys.entry((part, k.project(part))).or_insert(i);
            }
        }
        if samples.len() < 6 && i % (list.len() / 6).max(1) == 0 {
            samples.push(json!({"sender": c.sender.name(), "case": c.label, "blob": hex(&c.blob), "outcome": format!("{:?}", r.outcome)}));
        }
        file(report, r.findings);
    }
    let vt = |v: usize| json!({"accepted": table[v][0], "rejected": table[v][1], "panicked": table[v][2]});
    report.sub(
        "parse",
        Coverage {
            evaluations: list.len() as u64,
            distinct_nontrivial: nontrivial,
            exhaustive: true,
            rule: format!(
                "every one of the 20 known ids x {{absent, varint boundary set B + range bounds +-1, zero-length, trailing bytes, truncated/non-minimal varints, cid/token/preferred_address lengths, length beyond the extension}} x sender role x context {{mandatory only, all legal defaults}}; all pairs over the reduced choice set{}; unknown/greased ids; duplicates; every prefix of the full legal extension — each distinct blob parsed by the real parse_from_bytes and judged by the RFC 9000 table; a blob is non-trivial when it contains at least one well-framed known parameter (the parser gets past id/length framing into role/type/range handling)",
                if args.thorough { " (thorough: all pairs over the full choice set, positions first/last, triples of illegal reduced choices)" } else { "" }
            ),
            samples,
            extra: extra(vec![
                ("generated_cases", json!(n_generated)),
                ("distinct_blobs", json!(list.len())),
                ("generated_per_group", json!(per_group)),
                ("accepted", json!(acc)),
                ("rejected", json!(rej)),
                ("panicked", json!(pan)),
                ("reference_legal", json!(verdicts[0])),
                ("reference_either", json!(verdicts[1])),
                ("reference_illegal", json!(verdicts[2])),
                ("legal", vt(0)),
                ("either", vt(1)),
                ("illegal", vt(2)),
                ("duplicates_accepted_rfc_should", json!(dup_acc)),
                ("duplicates_rejected", json!(dup_rej)),
                ("rejection_reason_classes", json!(reasons)),
            ]),
            ..Default::default()
        },
    );

    if !args.wants("apply") {
        return;
    }
    let klist: Vec<(parse::ApplyKey, usize, parse::Part)> = keys.into_iter().map(|((p, k), i)| (k, i, p)).collect();
    let applied = par_map(&klist, |(k, _, p)| parse::apply(k, *p));
    let mut bad = 0u64;
    let mut nondefault = 0u64;
    let mut samples = Vec::new();
    for ((k, first, part), fs) in klist.iter().zip(applied) {
        if !k.is_default() {
            nondefault += 1;
        }
        if !fs.is_empty() {
            bad += 1;
        }
        let c = &list[*first];
        if samples.len() < 4 && (fs.is_empty() == (samples.len() % 2 == 0)) {
            samples.push(json!({"consumer": format!("{part:?}"), "values": k.json(), "from_blob": hex(&c.blob), "problems": fs.iter().map(|f| f.0.clone()).collect::<Vec<_>>()}));
        }
        for (sig, detail) in fs {
            let mut rp = parse::replay_json(c.sender, &c.blob, &c.focus, &c.label);
            rp["sub"] = json!("apply");
            report.violation(&sig, &format!("{detail} [first witness blob {} from a {}: {}]", hex(&c.blob), c.sender.name(), c.label), rp);
        }
    }
    report.sub(
        "apply",
        Coverage {
            evaluations: klist.len() as u64,
            distinct_nontrivial: nondefault,
            exhaustive: true,
            rule: format!(
                "for every blob that (i) accepted, the values read back are projected per consumer — (receiver role, initial_max_streams_bidi/uni), initial_max_data, active_connection_id_limit, (max_idle_timeout, max_ack_delay) — and every distinct projection is applied to ArcLocalStreamIds (new + revise_max_streams, both zero_rtt_rejected values, and as remembered limits for a client), ArcSendControler::revise_max_data + credit, ArcLocalCids::set_limit (issuer capped at {} ids), ArcIdleConfig::negotiate_max_idle_timeout + timer; non-trivial = differs from the all-default projection",
                parse::CID_CAP
            ),
            samples,
            extra: extra(vec![("tuples_with_problems", json!(bad)), ("tuples_clean", json!(klist.len() as u64 - bad))]),
            ..Default::default()
        },
    );
}

// ---------------------------------------------------------------- (ii)

fn run_bind(report: &mut Report) {
    let list = bind::cases();
    let results = par_map(&list, bind::check);
    let mut outcomes: BTreeMap<String, u64> = BTreeMap::new();
    let mut samples = Vec::new();
    let mut nontrivial = 0u64;
    for (c, (fs, outcome)) in list.iter().zip(results) {
        *outcomes.entry(outcome.clone()).or_insert(0) += 1;
        if !outcome.starts_with("undecided") && outcome != "panic" && outcome != "setup" {
            nontrivial += 1;
        }
        if samples.len() < 4 && (c.local_client == (samples.len() % 2 == 0)) && c.waiter_at == 0 {
            samples.push(json!({"case": c, "outcome": outcome}));
        }
        file(report, fs);
    }
    report.sub(
        "bind",
        Coverage {
            evaluations: list.len() as u64,
            distinct_nontrivial: nontrivial,
            exhaustive: true,
            rule: "real ArcParameters: {SCID observed first, extension first} x initial_source_connection_id relation {equal, both empty, last/first byte differs, declared shorter/longer/empty} x (client) the same 7 relations for original_destination_connection_id x retry_source_connection_id {absent, present} x Retry {none, same SCID, other SCID} x remembered {no, yes} x waiter registered {before both, between}; errors are routed to on_conn_error as the connection does; non-trivial = the run reached a decision (ready or failed)".into(),
            samples,
            extra: extra(vec![("outcome_by_expectation", json!(outcomes))]),
            ..Default::default()
        },
    );
}

// ---------------------------------------------------------------- (iii)

fn idle_inputs() -> Vec<(&'static str, bool, u64, u64)> {
    let mut v = Vec::new();
    for local_client in [true, false] {
        for a in [0u64, 1, 3000, 20_000, VMAX] {
            for b in [0u64, 1, 3000, 20_000, VMAX] {
                v.push(("params", local_client, a, b));
            }
        }
    }
    for a in [0u64, 3000, 20_000, 600_000] {
        for b in [0u64, 3000, 20_000, 600_000] {
            v.push(("timer", true, a, b));
        }
    }
    v
}

fn run_idle(report: &mut Report) {
    let list = idle_inputs();
    let results = par_map(&list, |(w, lc, a, b)| misc::check_idle(w, *lc, *a, *b));
    let mut outcomes: BTreeSet<String> = BTreeSet::new();
    let mut samples = Vec::new();
    let mut nontrivial = 0;
    for ((w, lc, a, b), (fs, o)) in list.iter().zip(results) {
        if *a != 0 || *b != 0 {
            nontrivial += 1;
        }
        if samples.len() < 4 && *a == 3000 {
            samples.push(json!({"which": w, "local_client": lc, "local_ms": a, "remote_ms": b, "observed": o}));
        }
        outcomes.insert(o);
        file(report, fs);
    }
    report.sub(
        "idle",
        Coverage {
            evaluations: list.len() as u64,
            distinct_nontrivial: nontrivial,
            exhaustive: true,
            rule: "Parameters::negotiated_max_idle_timeout over {0,1,3000,20000,2^62-1 ms}^2 x both roles (local via set, remote via parse_from_bytes + recv_remote_params) and the real idle timer (ArcIdleConfig::new(local).negotiate_max_idle_timeout(remote), paused tokio clock, probed 1 ms before and after the expected timeout) over {0,3000,20000,600000 ms}^2: effective value = smaller non-zero one, disabled iff both 0; non-trivial = at least one side non-zero".into(),
            samples,
            extra: extra(vec![("distinct_observations", json!(outcomes.len()))]),
            ..Default::default()
        },
    );
}

// ---------------------------------------------------------------- (iv)

fn run_zero_rtt(report: &mut Report) {
    let list = misc::z_cases();
    let results = par_map(&list, misc::check_zero_rtt);
    let (mut honoured, mut refused, mut refused_none_smaller, mut must_refuse) = (0u64, 0u64, 0u64, 0u64);
    let mut samples = Vec::new();
    let mut nontrivial = 0;
    for (c, (fs, acc)) in list.iter().zip(results) {
        if c.old != c.new {
            nontrivial += 1;
        }
        let smaller = misc::z_smaller(c).is_some();
        if smaller {
            must_refuse += 1;
        }
        match acc {
            Some(true) => honoured += 1,
            Some(false) => {
                refused += 1;
                if !smaller {
                    refused_none_smaller += 1;
                }
            }
            None => {}
        }
        if samples.len() < 4 && c.label.contains("initial_max_data") {
            samples.push(json!({"case": c.label, "honoured": acc}));
        }
        file(report, fs);
    }
    if refused_none_smaller > 0 {
        report.notes.push(format!(
            "zero-rtt: {refused_none_smaller} case(s) where no remembered limit shrank were nevertheless refused (allowed by the statement, counted only)"
        ));
    }
    report.sub(
        "zero-rtt",
        Coverage {
            evaluations: list.len() as u64,
            distinct_nontrivial: nontrivial,
            exhaustive: true,
            rule: "ServerParameters::is_0rtt_accepted (both sets from parse_from_bytes as in tls.rs) over each of the 8 remembered ids (RFC 9000 §7.4.1 + max_datagram_frame_size) x new value {smaller, equal, larger, absent}, remembered absent x new {default, default+1, M}, every ordered pair {one smaller, another larger}, unrelated ids smaller, for M in {1000, 2^30}; violated only when honoured although some new value is smaller; non-trivial = new set differs from the remembered one".into(),
            samples,
            extra: extra(vec![
                ("honoured", json!(honoured)),
                ("refused", json!(refused)),
                ("cases_with_a_smaller_value", json!(must_refuse)),
                ("refused_though_none_smaller", json!(refused_none_smaller)),
            ]),
            ..Default::default()
        },
    );
}

// ---------------------------------------------------------------- replay

fn replay(r: &Value) -> i32 {
    let sub = r["sub"].as_str().unwrap_or("parse");
    let mut findings: Vec<Finding> = Vec::new();
    match sub {
        "parse" | "apply" => {
            let (Some(sender), Some(blob)) = (
                r["sender"].as_str().and_then(Side::from_name),
                r["blob"].as_str().and_then(unhex),
            ) else {
                eprintln!("replay: need sender (client|server) and blob (hex)");
                return 2;
            };
            let focus = r["focus"].as_str().unwrap_or("unspecified");
            let rf = reference(sender, &blob);
            println!("replay: {} bytes from a {}: {}", blob.len(), sender.name(), hex(&blob));
            println!("replay: reference verdict {:?}", rf.verdict);
            match parse::real_parse(sender, &blob) {
                parse::Real::Ok { got, .. } => println!("replay: parse_from_bytes -> Ok {got:?}"),
                parse::Real::Err { kind, reason } => println!("replay: parse_from_bytes -> Err {kind:?}: {reason}"),
                parse::Real::Panic(pi) => println!("replay: parse_from_bytes -> PANIC at {}: {}", pi.location, pi.message),
            }
            let res = parse::check_parse(sender, &blob, focus, r["case"].as_str().unwrap_or("replay"));
            if let Some(k) = &res.apply {
                for part in parse::PARTS {
                    for (sig, detail) in parse::apply(&k.project(part), part) {
                        findings.push(Finding { sig, detail, replay: Value::Null });
                    }
                }
            }
            findings.extend(res.findings);
        }
        "bind" => match serde_json::from_value::<bind::BindCase>(r["case"].clone()) {
            Ok(c) => {
                println!("replay: {c:?}; expected mismatch: {:?}", bind::expected_mismatch(&c));
                let (fs, o) = bind::check(&c);
                println!("replay: outcome {o}");
                findings.extend(fs);
            }
            Err(e) => {
                eprintln!("replay: bad bind case: {e}");
                return 2;
            }
        },
        "idle" => {
            let (fs, o) = misc::check_idle(
                r["which"].as_str().unwrap_or("params"),
                r["local_client"].as_bool().unwrap_or(true),
                r["local_ms"].as_u64().unwrap_or(0),
                r["remote_ms"].as_u64().unwrap_or(0),
            );
            println!("replay: observed {o}");
            findings.extend(fs);
        }
        "zero-rtt" => {
            let ints = |k: &str| -> Option<Vec<(u64, u64)>> {
                let b = r[k].as_str().and_then(unhex)?;
                Some(
                    reference(Side::Server, &b)
                        .vals
                        .into_iter()
                        .filter_map(|(id, v)| match v {
                            Val::Int(x) => Some((id, x)),
                            _ => None,
                        })
                        .collect(),
                )
            };
            let (Some(old), Some(new)) = (ints("remembered"), ints("new")) else {
                eprintln!("replay: need remembered and new (hex)");
                return 2;
            };
            let c = misc::ZCase { label: r["case"].as_str().unwrap_or("replay").to_string(), old, new };
            let (fs, acc) = misc::check_zero_rtt(&c);
            println!("replay: is_0rtt_accepted -> {acc:?}; a remembered limit shrank: {:?}", misc::z_smaller(&c).map(|id| pd(id).unwrap().name));
            findings.extend(fs);
        }
        other => {
            eprintln!("replay: unknown sub {other}");
            return 2;
        }
    }
    if findings.is_empty() {
        println!("replay: no violation");
        0
    } else {
        for f in &findings {
            println!("replay: {} — {}", f.sig, f.detail);
        }
        1
    }
}

pub fn run(args: &Args) -> i32 {
    let mut report = Report::new(args, "exploration");
    report.assume("transport-parameter blobs are built by the harness's own encoder from raw (id, length, value) triples; legality is decided by the harness's RFC 9000 §18.2/§7.3/§7.4/§4.6 table (+ RFC 9221, RFC 9287), independent of qbase");
    report.assume("where the RFC says SHOULD or is silent (duplicate parameters, max_udp_payload_size > 65527, client_name from a server) either behaviour is accepted and only counted; a rejection must still be a TRANSPORT_PARAMETER_ERROR");
    report.assume("integer domains are represented by the varint boundary set {0,1,63,64,16383,16384,2^30-1,2^30,2^62-1} plus each documented bound and its neighbours");
    report.assume("errors returned by recv_remote_params / initial_scid_from_peer_need_equal are routed to ArcParameters::on_conn_error, as qconnection does with every connection error");
    report.assume(&format!("ArcLocalCids::set_limit is run with an issuer that stops after {} connection ids; reaching that cap is reported as unbounded work", parse::CID_CAP));
    if let Some(p) = &args.replay {
        return replay(&load_replay(p));
    }
    if args.wants("parse") || args.only.as_deref() == Some("apply") {
        run_parse(args, &mut report);
    }
    if args.wants("bind") {
        run_bind(&mut report);
    }
    if args.wants("idle") {
        run_idle(&mut report);
    }
    if args.wants("zero-rtt") {
        run_zero_rtt(&mut report);
    }
    report.notes.push("not covered here (qrecovery/qconnection are not dependencies of h-base): DataStreams::revise_params, RcvdJournal::revise_max_ack_delay, the TLS task's waker plumbing".into());
    report.finish()
}
