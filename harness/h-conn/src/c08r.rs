//! C08 (part `recver`) — the receiving halves that sit on top of `RecvBuf`: the stream receiver
//! state machine (`qrecovery::recv::recver`, reached through a real `DataStreams` endpoint and
//! its flow-controlled frame entry) and the crypto stream receiver (`qrecovery::crypto`).
//!
//! E1 closure: content = L position-identifying bytes of one peer-initiated stream; alphabet =
//! every STREAM frame that is a slice of it (any order, overlaps, duplicates, empty pieces; the
//! FIN bit on every frame that ends at L, including the empty FIN-only frame) and reads of
//! several buffer sizes through the real reader. Reference = set of covered offsets, whether
//! the final size is known, bytes read.
use std::{
    collections::BTreeSet,
    pin::Pin,
    task::{Context, Poll},
    time::Duration,
};

use bytes::Bytes;
use mc_core::{Args, ExploreCfg, Fail, Report, System, ensure, explore};
use qbase::{
    frame::{CryptoFrame, StreamFrame, io::ReceiveFrame},
    role::Role,
    sid::{Dir, StreamId},
    varint::VarInt,
};
use qrecovery::crypto::{CryptoStream, CryptoStreamIncoming, CryptoStreamReader};
use serde::{Deserialize, Serialize};
use serde_json::json;
use tokio::io::{AsyncRead, ReadBuf};

use crate::pipe::{Cap, Cfg, Endpoint, SideCfg, strip_addresses};

#[derive(Debug, Clone, Copy, PartialEq, Eq, Serialize, Deserialize)]
pub enum Target {
    /// a peer-initiated unidirectional stream of a server endpoint
    StreamUni,
    /// the peer-initiated bidirectional stream 0 (its receiving half)
    StreamBi,
    /// the crypto stream of one epoch (no end of stream)
    Crypto,
}

#[derive(Debug, Clone, Serialize, Deserialize)]
pub enum Op {
    Frame { off: usize, len: usize, fin: bool },
    Read { cap: usize },
}

enum Rx {
    Stream { ep: Endpoint, sid: StreamId, reader: Option<qconnection::StreamReader> },
    Crypto { incoming: CryptoStreamIncoming, reader: CryptoStreamReader, _keep: CryptoStream },
}

pub struct Sys {
    l: usize,
    target: Target,
    rx: Rx,
    // reference
    covered: Vec<bool>,
    fin_known: bool,
    nread: usize,
    eof: bool,
}

fn content(off: usize, len: usize) -> Bytes {
    Bytes::from((0..len).map(|i| (off + i + 1) as u8).collect::<Vec<u8>>())
}

fn vi(v: usize) -> VarInt {
    VarInt::from_u64(v as u64).unwrap()
}

impl Sys {
    pub fn new(l: usize, target: Target) -> Sys {
        let rx = match target {
            Target::Crypto => {
                let cs = CryptoStream::new(Default::default());
                Rx::Crypto { incoming: cs.incoming(), reader: cs.reader(), _keep: cs }
            }
            _ => {
                // the connection window and the stream windows are exactly L: a byte charged
                // twice makes a legitimate frame fail
                let local = SideCfg {
                    max_data: l as u64,
                    bidi_local: l as u64,
                    bidi_remote: l as u64,
                    uni: l as u64,
                    streams_bidi: 2,
                    streams_uni: 2,
                };
                let cfg = Cfg {
                    client: SideCfg::roomy(),
                    server: local,
                    cap: 1200,
                    demand_concurrency: false,
                    scripts: [vec![], vec![]],
                    read_caps: vec![],
                    max_packets: 0,
                };
                let ep = Endpoint::new(Role::Server, &cfg);
                let dir = if target == Target::StreamUni { Dir::Uni } else { Dir::Bi };
                Rx::Stream { ep, sid: StreamId::new(Role::Client, dir, 0), reader: None }
            }
        };
        Sys { l, target, rx, covered: vec![false; l], fin_known: false, nread: 0, eof: false }
    }

    fn prefix(&self) -> usize {
        self.covered.iter().take_while(|c| **c).count()
    }

    fn deliver(&mut self, off: usize, len: usize, fin: bool) -> Result<(), String> {
        match &mut self.rx {
            Rx::Stream { ep, sid, .. } => {
                let mut f = StreamFrame::new(*sid, off as u64, len);
                f.set_eos_flag(fin);
                ep.peer_stream(f, content(off, len)).map_err(|e| e.to_string())
            }
            Rx::Crypto { incoming, .. } => incoming
                .recv_frame((CryptoFrame::new(vi(off), vi(len)), content(off, len)))
                .map_err(|e| e.to_string()),
        }
    }

    /// One poll of the real reader with a buffer of `cap` bytes.
    fn poll(&mut self, cap: usize) -> Result<Poll<Result<Vec<u8>, String>>, Fail> {
        let waker = futures::task::noop_waker();
        let mut cx = Context::from_waker(&waker);
        match &mut self.rx {
            Rx::Stream { ep, sid, reader } => {
                if reader.is_none() {
                    // the stream is offered to the application once its first frame arrived
                    let want = *sid;
                    match ep.accept_all() {
                        Ok(_) => {}
                        Err(e) => return Err(Fail::new("recver/accept-failed", format!("accept failed: {e}"))),
                    }
                    let mut i = 0;
                    loop {
                        if i >= ep.handle_count() {
                            break;
                        }
                        if ep.handle_sid(i) == want {
                            let mut h = ep.take_handle(i);
                            *reader = h.reader.take();
                            break;
                        }
                        i += 1;
                    }
                }
                let Some(r) = reader.as_mut() else { return Ok(Poll::Pending) };
                let mut buf = Cap::new(cap);
                Ok(match r.poll_read(&mut cx, &mut buf) {
                    Poll::Pending => {
                        ensure!(buf.bytes().is_empty(), "recver/pending-with-data", "poll_read returned Pending but wrote {} bytes", buf.len());
                        Poll::Pending
                    }
                    Poll::Ready(Ok(())) => Poll::Ready(Ok(buf.bytes().to_vec())),
                    Poll::Ready(Err(e)) => Poll::Ready(Err(e.to_string())),
                })
            }
            Rx::Crypto { reader, .. } => {
                let mut store = vec![0u8; cap];
                let mut rb = ReadBuf::new(&mut store);
                Ok(match Pin::new(reader).poll_read(&mut cx, &mut rb) {
                    Poll::Pending => {
                        ensure!(rb.filled().is_empty(), "recver/pending-with-data", "poll_read returned Pending but wrote {} bytes", rb.filled().len());
                        Poll::Pending
                    }
                    Poll::Ready(Ok(())) => Poll::Ready(Ok(rb.filled().to_vec())),
                    Poll::Ready(Err(e)) => Poll::Ready(Err(e.to_string())),
                })
            }
        }
    }

    fn read(&mut self, cap: usize) -> Result<(), Fail> {
        let t = format!("{:?}", self.target);
        let avail = self.prefix() - self.nread;
        let at_end = self.fin_known && self.nread == self.l && self.prefix() == self.l;
        match self.poll(cap)? {
            Poll::Pending => {
                ensure!(
                    avail == 0 && !at_end,
                    "recver/pending-although-readable",
                    "{t}: poll_read is Pending although {avail} contiguous byte(s) have arrived beyond the {} already read (end of stream known and reached: {at_end})",
                    self.nread
                );
                Ok(())
            }
            Poll::Ready(Err(e)) => Err(Fail::new("recver/read-error", format!("{t}: read failed on a stream that was neither reset nor stopped: {e}"))),
            Poll::Ready(Ok(got)) => {
                if got.is_empty() {
                    ensure!(
                        self.target != Target::Crypto,
                        "recver/crypto-empty-read",
                        "{t}: the crypto stream reported an empty read (end of stream) — it has no end"
                    );
                    ensure!(self.fin_known, "recver/eof-without-fin", "{t}: end of stream reported before any frame carried the FIN bit");
                    ensure!(
                        self.nread == self.l,
                        "recver/eof-before-last-byte",
                        "{t}: end of stream reported after {} of {} bytes (arrived so far: {:?})",
                        self.nread,
                        self.l,
                        self.covered
                    );
                    self.eof = true;
                    return Ok(());
                }
                ensure!(!self.eof, "recver/data-after-eof", "{t}: data after end of stream");
                ensure!(
                    got.len() <= avail,
                    "recver/read-beyond-contiguous-prefix",
                    "{t}: read {} byte(s) at offset {} but only {avail} contiguous byte(s) have arrived",
                    got.len(),
                    self.nread
                );
                ensure!(got.len() <= cap, "recver/read-beyond-buffer", "{t}: read {} bytes into a buffer of {cap}", got.len());
                let want = content(self.nread, got.len());
                ensure!(
                    got[..] == want[..],
                    "recver/wrong-bytes",
                    "{t}: read {:?} at offset {}, the stream has {:?} there",
                    got,
                    self.nread,
                    &want[..]
                );
                self.nread += got.len();
                Ok(())
            }
        }
    }

    fn dump(&self) -> String {
        match &self.rx {
            Rx::Stream { ep, reader, .. } => format!("{}|{}", ep.canon_dump(), reader.is_some()),
            Rx::Crypto { incoming, .. } => strip_addresses(&format!("{incoming:?}")),
        }
    }
}

impl System for Sys {
    type Op = Op;

    fn ops(&self) -> Vec<Op> {
        let mut v = Vec::new();
        let highest = self.covered.iter().rposition(|c| *c).map_or(0, |i| i + 1);
        for off in 0..=self.l {
            for len in 0..=(self.l - off) {
                let ends = off + len == self.l;
                if len == 0 && !ends && off > highest {
                    // whether an empty piece beyond everything seen counts as "seen" is not
                    // defined by the statement
                    continue;
                }
                if len > 0 || !ends {
                    v.push(Op::Frame { off, len, fin: false });
                }
                if ends && self.target != Target::Crypto {
                    v.push(Op::Frame { off, len, fin: true });
                }
            }
        }
        if !self.eof {
            for cap in [1usize, 2, 8] {
                v.push(Op::Read { cap });
            }
        }
        v
    }

    fn step(&mut self, op: &Op) -> Result<(), Fail> {
        match *op {
            Op::Frame { off, len, fin } => {
                let t = format!("{:?}", self.target);
                if let Err(e) = self.deliver(off, len, fin) {
                    return Err(Fail::new(
                        "recver/legitimate-frame-rejected",
                        format!("{t}: frame [{off}, {}) fin={fin} of a {}-byte stream was answered with an error: {e} (windows are exactly the stream length: a byte charged twice ends here)", off + len, self.l),
                    ));
                }
                for c in &mut self.covered[off..off + len] {
                    *c = true;
                }
                self.fin_known |= fin;
                Ok(())
            }
            Op::Read { cap } => self.read(cap),
        }
    }

    fn canon(&self) -> String {
        format!("{}|{:?}|{}|{}|{}", self.dump(), self.covered, self.fin_known, self.nread, self.eof)
    }

    /// Everything that has arrived contiguously is handed over; once the whole stream and its
    /// final size have arrived the reader reaches the end of the stream.
    fn finish(&mut self) -> Result<(), Fail> {
        let t = format!("{:?}", self.target);
        for _ in 0..(2 * self.l + 4) {
            if self.eof {
                break;
            }
            let before = self.nread;
            self.read(8)?;
            if self.nread == before && !self.eof {
                break;
            }
        }
        ensure!(
            self.nread == self.prefix(),
            "recver/arrived-bytes-not-readable",
            "{t}: {} contiguous byte(s) have arrived but only {} could be read",
            self.prefix(),
            self.nread
        );
        if self.fin_known && self.prefix() == self.l {
            ensure!(self.eof, "recver/eof-not-reported", "{t}: the whole stream and its final size have arrived but the reader never reported the end of the stream");
        }
        Ok(())
    }

    fn outcome(&self) -> Option<String> {
        Some(format!("read{}of{}{}", self.nread, self.prefix(), if self.eof { "+eof" } else { "" }))
    }
}

pub fn run(args: &Args) -> i32 {
    let mut report = Report::new(args, "model_checking");
    report.assume("stream contents are position-identifying bytes 1..=L; fragments are slices of one sequence (the property's precondition); the FIN bit only on frames that end at L");
    report.assume("stream targets: a real server DataStreams endpoint whose connection window and stream windows are exactly L, frames enter through the real flow-controlled entry (qconnection::space), the stream is accepted and read through the real StreamReader; crypto target: the real CryptoStream incoming/reader pair");
    report.assume("canonical state = Debug dumps of the real objects (pointer values masked) + reference covered-set; reads use a no-op waker and are simply repeated (wake-ups are C16's and C01's subject)");
    if let Some(p) = &args.replay {
        let r = mc_core::report::load_replay(p);
        let l = r["config"]["L"].as_u64().unwrap_or(4) as usize;
        let target: Target = serde_json::from_value(r["config"]["target"].clone()).unwrap_or(Target::StreamUni);
        return match mc_core::explore::replay(|| Sys::new(l, target), &r["history"]) {
            Ok(()) => {
                println!("replay: no violation");
                0
            }
            Err(f) => {
                println!("replay: {} — {}", f.sig, f.detail);
                1
            }
        };
    }
    let configs: Vec<(Target, usize)> = if args.thorough {
        vec![(Target::StreamUni, 3), (Target::StreamUni, 6), (Target::StreamUni, 8), (Target::StreamBi, 7), (Target::Crypto, 8), (Target::Crypto, 10)]
    } else {
        vec![(Target::StreamUni, 3), (Target::StreamUni, 6), (Target::StreamBi, 5), (Target::Crypto, 7)]
    };
    for (target, l) in configs {
        let name = format!("recver-{target:?}-L{l}").to_lowercase();
        if !args.wants(&name) {
            continue;
        }
        let cfg = ExploreCfg {
            check_finish: true,
            time_cap: Duration::from_secs(if args.thorough { 900 } else { 30 }),
            ..Default::default()
        };
        let stats = explore(|| Sys::new(l, target), &cfg);
        mc_core::explore::file_violations(&mut report, &name, json!({"L": l, "target": target}), &stats);
        report.sub(
            &name,
            stats.coverage(&format!(
                "BFS to closure over all histories of frames [off, off+len) of a {l}-byte stream (every slice incl. empty ones and duplicates, FIN on every frame ending at {l} incl. the empty FIN-only frame) and reads with buffers of 1, 2, 8 bytes on the real {target:?} receiver; from every distinct state the read-to-quiescence run judges that everything contiguous is readable and the end of the stream is reported exactly when all of it and the final size have arrived"
            )),
        );
    }
    let _ = BTreeSet::<u8>::new();
    report.finish()
}
