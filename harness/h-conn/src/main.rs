//! h-conn: harnesses that need qconnection pieces (no network).
fn main() {
    let args = mc_core::Args::parse();
    let code = match args.property.as_str() {
        other => {
            eprintln!("h-conn: unknown property {other}");
            2
        }
    };
    std::process::exit(code);
}
