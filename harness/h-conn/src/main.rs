//! h-conn: harnesses that need qconnection pieces (no network).
mod c01;
mod c03c;
mod c04;
mod c06;
mod c07d;
mod c08r;
mod c12;
mod c14;
mod c14e;
mod c15a;
mod c16;
mod c16b;
mod c18r;
mod c19a;
mod pipe;

fn main() {
    let args = mc_core::Args::parse();
    let code = match args.property.as_str() {
        "C01" => c01::run(&args, "c01/"),
        "C03c" => c03c::run(&args),
        "C04" => c04::run(&args),
        "C06" => c06::run(&args),
        "C07d" => c07d::run(&args),
        "C08r" => c08r::run(&args),
        "C14" => c14::run(&args),
        "C15a" => c15a::run(&args),
        "C15w" => c16::run_c15w(&args),
        "C16" => c16::run(&args),
        "C17a" => c16::run_c17a(&args),
        "C18r" => c18r::run(&args),
        "C19a" => c19a::run(&args),
        "C11pipe" => c01::run(&args, "c11/"),
        "C12pipe" => c01::run(&args, "c12/"),
        "C12peer" => c12::run(&args, false),
        "C11recv" => c12::run(&args, true),
        other => {
            eprintln!("h-conn: unknown property {other}");
            2
        }
    };
    std::process::exit(code);
}
