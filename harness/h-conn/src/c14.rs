//! C14 — connection IDs are issued, used, retired and routed consistently.
//!
//! Two E1 searches (BFS, canonical-state dedup, closure) on the REAL objects:
//!
//! (a) `local` — one or two real `qbase::cid::ArcLocalCids` registered on ONE real
//!     `qinterface::component::route::QuicRouter`, built exactly as
//!     `qconnection::builder::{with_cids, run}` does it:
//!     `router.registry_on_issuing_scid(rcvd_pkt_q, frame_sink)` → `gen_unique_cid()` for the
//!     initial SCID → `ArcLocalCids::new(initial_scid, registry)`; a server-style
//!     `router.insert(odcid, queue)` entry is held next to it. The frame sink collects the
//!     NEW_CONNECTION_ID frames the object emits. After every operation the reference model
//!     (issued ids, accepted retirements, limit) is compared, and for *every id ever issued*
//!     a minimal short-header packet (parsed by the real `PacketReader`) is handed to the real
//!     `QuicRouter::try_deliver`; all receive queues are then drained to see where it went.
//!
//! (b) `remote` — one real `qbase::cid::ArcRemoteCids` with a collecting RETIRE_CONNECTION_ID
//!     sink, up to three paths (`apply_dcid` cells), NEW_CONNECTION_ID frames decoded by the
//!     real `FrameReader` from wire bytes (so a repeated frame is byte-identical), borrow /
//!     release / `cell.retire()`.
//!
//! Oracle = the property statement + RFC 9000 §5.1.1, §5.1.2, §19.15, §19.16, nothing else.
//! Clauses whose violation leaves the reference model meaningful are *soft*: the violation is
//! recorded (shortest witness kept) and the search continues behind it, so that one finding
//! does not hide the states that lie beyond it.
use std::{
    collections::{BTreeMap, BTreeSet, HashSet},
    fmt,
    future::Future,
    net::SocketAddr,
    sync::{
        Arc, Mutex, RwLock,
        atomic::{AtomicUsize, Ordering},
    },
    task::{Context, Poll, Wake, Waker},
    time::Duration,
};

use bytes::{BufMut, BytesMut};
use futures::FutureExt;
use mc_core::{Args, ExploreCfg, Fail, Report, System, ensure, explore, panics};
use qbase::{
    cid::{
        ArcCidCell, ArcLocalCids, ArcRemoteCids, BorrowedCid, ConnectionId, GenUniqueCid, RetireCid,
    },
    error::ErrorKind,
    frame::{
        Frame, FrameReader, NewConnectionIdFrame, RetireConnectionIdFrame,
        io::{ReceiveFrame, SendFrame},
    },
    net::{
        route::{Link, Pathway},
        tx::ArcSendWaker,
    },
    packet::{GetDcid, GetType, OneRttHeader, Packet, PacketReader, SpinBit},
    varint::VarInt,
};
use qinterface::{
    bind_uri::BindUri,
    component::route::{QuicRouter, QuicRouterEntry, QuicRouterRegistry, RcvdPacketQueue, Way},
};
use serde::{Deserialize, Serialize};
use serde_json::{Value, json};

// ---------------------------------------------------------------------------------------
// shared helpers
// ---------------------------------------------------------------------------------------

/// A waker that counts how often it was woken (pattern of h-recovery/src/util.rs).
struct CountWaker(AtomicUsize);

impl Wake for CountWaker {
    fn wake(self: Arc<Self>) {
        self.0.fetch_add(1, Ordering::SeqCst);
    }
    fn wake_by_ref(self: &Arc<Self>) {
        self.0.fetch_add(1, Ordering::SeqCst);
    }
}

impl CountWaker {
    fn new() -> Arc<CountWaker> {
        Arc::new(CountWaker(AtomicUsize::new(0)))
    }
    fn count(&self) -> usize {
        self.0.load(Ordering::SeqCst)
    }
}

/// Violations of *soft* clauses: recorded, the exploration continues behind them.
/// Per signature the smallest witness is kept (shortest history, ties broken by the derived
/// order on operations), which does not depend on thread timing. The check is cheap when the
/// current history cannot improve on the kept one (this runs in every replayed step).
struct SoftLog<Op>(RwLock<BTreeMap<&'static str, (Vec<Op>, String)>>);

impl<Op> Default for SoftLog<Op> {
    fn default() -> Self {
        SoftLog(RwLock::new(BTreeMap::new()))
    }
}

impl<Op: Serialize + Clone + Ord> SoftLog<Op> {
    fn record(&self, sig: &'static str, hist: &[Op], detail: impl FnOnce() -> String) {
        let better = |old: &Vec<Op>| (hist.len(), hist) < (old.len(), old.as_slice());
        {
            let g = self.0.read().unwrap();
            if let Some((old, _)) = g.get(sig) {
                if !better(old) {
                    return;
                }
            }
        }
        let mut g = self.0.write().unwrap();
        match g.get_mut(sig) {
            Some((old, d)) => {
                if better(old) {
                    *old = hist.to_vec();
                    *d = detail();
                }
            }
            None => {
                g.insert(sig, (hist.to_vec(), detail()));
            }
        }
    }

    fn file(&self, report: &mut Report, sub: &str, config: &Value) {
        for (sig, (hist, detail)) in self.0.read().unwrap().iter() {
            let h = serde_json::to_value(hist).unwrap_or(Value::Null);
            report.violation(sig, detail, json!({"sub": sub, "config": config, "history": h}));
        }
    }

    fn signatures(&self) -> Vec<&'static str> {
        self.0.read().unwrap().keys().copied().collect()
    }
}

/// Masks heap addresses (`0x…`) in a Debug dump (std `Waker`s print their data/vtable pointers).
fn scrub_ptrs(s: &str) -> String {
    let b = s.as_bytes();
    let mut out = String::with_capacity(s.len());
    let mut i = 0;
    while i < b.len() {
        if b[i] == b'0' && i + 1 < b.len() && b[i + 1] == b'x' {
            out.push_str("0x_");
            i += 2;
            while i < b.len() && b[i].is_ascii_hexdigit() {
                i += 1;
            }
        } else {
            out.push(b[i] as char);
            i += 1;
        }
    }
    out
}

/// Masks the random stateless-reset tokens (`ResetToken([..])`) in a Debug dump.
fn scrub_tokens(s: &str) -> String {
    const PAT: &str = "ResetToken([";
    let mut out = String::with_capacity(s.len());
    let mut rest = s;
    while let Some(i) = rest.find(PAT) {
        out.push_str(&rest[..i]);
        out.push_str("ResetToken(_)");
        let tail = &rest[i + PAT.len()..];
        let end = tail.find("])").map(|e| e + 2).unwrap_or(tail.len());
        rest = &tail[end..];
    }
    out.push_str(rest);
    out
}

fn kind_name(k: ErrorKind) -> String {
    format!("{k:?}")
}

// ---------------------------------------------------------------------------------------
// (a) local connection ids + router
// ---------------------------------------------------------------------------------------

const DCID_LEN: usize = 8;

/// The frame sink: what `ArcReliableFrameDeque` is in a connection.
#[derive(Clone, Default)]
struct NewCidSink(Arc<Mutex<Vec<NewConnectionIdFrame>>>);

impl SendFrame<NewConnectionIdFrame> for NewCidSink {
    fn send_frame<I: IntoIterator<Item = NewConnectionIdFrame>>(&self, iter: I) {
        self.0.lock().unwrap().extend(iter);
    }
}

/// Transparent newtype around the real `QuicRouterRegistry` whose only purpose is a `Debug`
/// impl (the registry has none), so that `ArcLocalCids<_>`'s derived `Debug` dump — the id
/// deque with its offset and the applied limit — can serve as canonical state.
struct Issuer(QuicRouterRegistry<NewCidSink>);

impl fmt::Debug for Issuer {
    fn fmt(&self, f: &mut fmt::Formatter<'_>) -> fmt::Result {
        f.write_str("QuicRouterRegistry")
    }
}

impl GenUniqueCid for Issuer {
    fn gen_unique_cid(&self) -> ConnectionId {
        self.0.gen_unique_cid()
    }
}

impl RetireCid for Issuer {
    fn retire_cid(&self, cid: ConnectionId) {
        self.0.retire_cid(cid)
    }
}

impl SendFrame<NewConnectionIdFrame> for Issuer {
    fn send_frame<I: IntoIterator<Item = NewConnectionIdFrame>>(&self, iter: I) {
        self.0.send_frame(iter)
    }
}

#[derive(Debug, Clone, PartialEq, Eq, PartialOrd, Ord, Serialize, Deserialize)]
pub enum LOp {
    /// `tls_fin_handler`: the peer's active_connection_id_limit becomes known
    SetLimit { conn: usize, n: u64 },
    /// the peer's RETIRE_CONNECTION_ID(seq) arrives
    Retire { conn: usize, seq: u64 },
    /// a second connection is built on the same router
    Create,
    /// the second connection is dropped
    Drop,
}

struct Conn {
    cids: ArcLocalCids<Issuer>,
    _odcid_entry: QuicRouterEntry,
    queue: usize,
    sink: NewCidSink,
    // reference
    odcid: ConnectionId,
    /// index = sequence number
    issued: Vec<ConnectionId>,
    frames_seen: usize,
    retired: BTreeSet<u64>,
    limit: Option<u64>,
    dead: bool,
}

impl Conn {
    fn live(&self) -> usize {
        self.issued.len() - self.retired.len()
    }
}

pub struct LSys {
    caps: [usize; 2],
    router: Arc<QuicRouter>,
    conns: [Option<Conn>; 2],
    /// every receive queue ever created (dropped connections' queues are kept for observation)
    queues: Vec<Arc<RcvdPacketQueue>>,
    way: Way,
    generation: u8,
    // reference
    all_ids: HashSet<ConnectionId>,
    graveyard: Vec<ConnectionId>,
    hist: Vec<LOp>,
    soft: Arc<SoftLog<LOp>>,
}

impl LSys {
    fn new(caps: [usize; 2], soft: Arc<SoftLog<LOp>>) -> LSys {
        let a: SocketAddr = "127.0.0.1:4433".parse().unwrap();
        let b: SocketAddr = "127.0.0.1:5544".parse().unwrap();
        let way: Way = (BindUri::from(a), Pathway::new(a.into(), b.into()), Link::new(b, a));
        let mut s = LSys {
            caps,
            router: Arc::new(QuicRouter::new()),
            conns: [None, None],
            queues: Vec::new(),
            way,
            generation: 0,
            all_ids: HashSet::new(),
            graveyard: Vec::new(),
            hist: Vec::new(),
            soft,
        };
        s.create(0).expect("building the first connection");
        s
    }

    /// Mirrors `ConnectionFoundation<ServerFoundation,_>::with_cids` + `PendingConnection::run`.
    fn create(&mut self, slot: usize) -> Result<(), Fail> {
        let rcvd_pkt_q = Arc::new(RcvdPacketQueue::new());
        let sink = NewCidSink::default();
        let registry = self.router.registry_on_issuing_scid(rcvd_pkt_q.clone(), sink.clone());
        let initial_scid = registry.gen_unique_cid();
        self.generation = self.generation.wrapping_add(1);
        // the client's choice of original DCID: 8 bytes outside the issuer's 0x80-marked space
        let odcid = ConnectionId::from_slice(&[0x0d, 0xc1, 0xd0, slot as u8, self.generation, 0, 0, 1]);
        let odcid_entry = self.router.insert(odcid.into(), rcvd_pkt_q.clone());
        let cids = ArcLocalCids::new(initial_scid, Issuer(registry));
        self.queues.push(rcvd_pkt_q);
        let mut conn = Conn {
            cids,
            _odcid_entry: odcid_entry,
            queue: self.queues.len() - 1,
            sink,
            odcid,
            issued: vec![initial_scid],
            frames_seen: 0,
            retired: BTreeSet::new(),
            limit: None,
            dead: false,
        };
        ensure!(
            self.all_ids.insert(initial_scid),
            "local/connection-id-reused",
            "the initial SCID {initial_scid:?} of a new connection equals an id issued before"
        );
        Self::absorb(&mut conn, &mut self.all_ids)?;
        self.conns[slot] = Some(conn);
        Ok(())
    }

    /// Reads the NEW_CONNECTION_ID frames emitted since the last call into the reference.
    fn absorb(c: &mut Conn, all_ids: &mut HashSet<ConnectionId>) -> Result<usize, Fail> {
        let frames: Vec<NewConnectionIdFrame> = {
            let g = c.sink.0.lock().unwrap();
            g[c.frames_seen..].to_vec()
        };
        c.frames_seen += frames.len();
        for f in &frames {
            ensure!(
                f.sequence() == c.issued.len() as u64,
                "local/sequence-not-consecutive",
                "NEW_CONNECTION_ID with sequence number {} emitted, the next consecutive number is {}",
                f.sequence(),
                c.issued.len()
            );
            ensure!(
                f.retire_prior_to() <= f.sequence(),
                "local/retire-prior-to-above-sequence",
                "NEW_CONNECTION_ID seq {} carries retire_prior_to {}",
                f.sequence(),
                f.retire_prior_to()
            );
            ensure!(
                all_ids.insert(*f.connection_id()),
                "local/connection-id-reused",
                "NEW_CONNECTION_ID seq {} re-issues the id {:?}, which was issued before on this router",
                f.sequence(),
                f.connection_id()
            );
            c.issued.push(*f.connection_id());
        }
        Ok(frames.len())
    }

    /// Hands a minimal short-header packet with this DCID to the real router and reports the
    /// indices of the queues it arrived in (empty = unrouted).
    fn lookup(&mut self, cid: ConnectionId) -> Result<Vec<usize>, Fail> {
        let mut dgram = BytesMut::with_capacity(1 + DCID_LEN + 20);
        dgram.put_u8(0x40);
        dgram.put_slice(&cid);
        dgram.put_slice(&[0x5a; 20]);
        let packet = match PacketReader::new(dgram, DCID_LEN).next() {
            Some(Ok(p)) => p,
            other => {
                return Err(Fail::new(
                    "machinery/packet-not-parsed",
                    format!("PacketReader on a 29-byte short-header packet: {:?}", other.map(|r| r.map(|_| ()))),
                ));
            }
        };
        match &packet {
            Packet::Data(d) if d.dcid() == &cid => {}
            _ => {
                return Err(Fail::new(
                    "machinery/packet-not-parsed",
                    "PacketReader did not yield a data packet with the DCID written".to_string(),
                ));
            }
        }
        let routed = match self.router.try_deliver(packet, self.way.clone()).now_or_never() {
            None => {
                return Err(Fail::new(
                    "route/delivery-blocked",
                    format!("try_deliver of a packet for {cid:?} did not complete although every queue is empty"),
                ));
            }
            Some(Ok(())) => true,
            Some(Err(_)) => false,
        };
        let mut hit = Vec::new();
        for (qi, q) in self.queues.iter().enumerate() {
            while let Some(Some((pkt, _way))) = q.one_rtt().recv().now_or_never() {
                ensure!(
                    pkt.dcid() == &cid,
                    "route/foreign-packet-in-queue",
                    "queue {qi} holds a packet for {:?} while {cid:?} was being delivered",
                    pkt.dcid()
                );
                hit.push(qi);
            }
        }
        ensure!(
            routed || hit.is_empty(),
            "route/unrouted-but-queued",
            "try_deliver reported {cid:?} as unrouted, yet a queue received the packet"
        );
        ensure!(
            !routed || !hit.is_empty(),
            "route/routed-but-not-queued",
            "try_deliver accepted the packet for {cid:?} but no connection's 1-RTT queue received it"
        );
        Ok(hit)
    }

    fn check_routing(&mut self) -> Result<(), Fail> {
        // (label, id, expected queue)
        let mut wants: Vec<(String, ConnectionId, Option<usize>)> = Vec::new();
        for (slot, c) in self.conns.iter().enumerate() {
            let Some(c) = c else { continue };
            wants.push((format!("conn {slot} original DCID"), c.odcid, Some(c.queue)));
            for (seq, cid) in c.issued.iter().enumerate() {
                let live = !c.retired.contains(&(seq as u64));
                wants.push((format!("conn {slot} seq {seq}"), *cid, live.then_some(c.queue)));
            }
        }
        for (i, cid) in self.graveyard.iter().enumerate() {
            wants.push((format!("dropped connection's id #{i}"), *cid, None));
        }
        for (label, cid, want) in wants {
            let got = self.lookup(cid)?;
            ensure!(
                got.len() <= 1,
                "route/delivered-to-two-queues",
                "{label}: one packet arrived in queues {got:?}"
            );
            match (want, got.first().copied()) {
                (Some(w), Some(g)) => ensure!(
                    w == g,
                    "route/live-id-misrouted",
                    "{label} is live and belongs to queue {w}, the packet arrived in queue {g}"
                ),
                (Some(w), None) => {
                    return Err(Fail::new(
                        "route/live-id-unrouted",
                        format!("{label} is live (queue {w}) but the router has no entry for it"),
                    ));
                }
                (None, Some(g)) => {
                    let sig = if label.starts_with("dropped") {
                        "route/dropped-connection-still-routed"
                    } else {
                        "route/retired-id-still-routed"
                    };
                    return Err(Fail::new(
                        sig,
                        format!("{label} is no longer valid, yet a packet with it was delivered to queue {g}"),
                    ));
                }
                (None, None) => {}
            }
        }
        Ok(())
    }

    fn soft(&self, sig: &'static str, detail: impl FnOnce() -> String) {
        self.soft.record(sig, &self.hist, detail);
    }
}

impl System for LSys {
    type Op = LOp;

    fn ops(&self) -> Vec<LOp> {
        let mut v = Vec::new();
        for (slot, c) in self.conns.iter().enumerate() {
            let Some(c) = c else { continue };
            if c.dead {
                continue;
            }
            if c.limit.is_none() {
                for n in [2u64, 3, 4] {
                    v.push(LOp::SetLimit { conn: slot, n });
                }
            }
            if c.issued.len() < self.caps[slot] {
                for seq in 0..=(c.issued.len() as u64 + 1) {
                    v.push(LOp::Retire { conn: slot, seq });
                }
            }
        }
        if self.conns[1].is_none() {
            v.push(LOp::Create);
        } else {
            v.push(LOp::Drop);
        }
        v
    }

    fn step(&mut self, op: &LOp) -> Result<(), Fail> {
        self.hist.push(op.clone());
        match *op {
            LOp::Create => {
                ensure!(self.conns[1].is_none(), "machinery/bad-op", "Create with the second connection present");
                self.create(1)?;
            }
            LOp::Drop => {
                let Some(c) = self.conns[1].take() else {
                    return Err(Fail::new("machinery/bad-op", "Drop without a second connection"));
                };
                self.graveyard.push(c.odcid);
                self.graveyard.extend(c.issued.iter().copied());
                // Connection dropped: the last ArcLocalCids clone and the odcid entry go away
                drop(c);
            }
            LOp::SetLimit { conn, n } => {
                let Some(c) = self.conns[conn].as_mut() else {
                    return Err(Fail::new("machinery/bad-op", "SetLimit on a missing connection"));
                };
                let r = c.cids.set_limit(n);
                Self::absorb(c, &mut self.all_ids)?;
                ensure!(
                    r.is_ok(),
                    "local/legal-limit-rejected",
                    "set_limit({n}) returned {:?}",
                    r.err().map(|e| kind_name(e.kind()))
                );
                c.limit = Some(n);
            }
            LOp::Retire { conn, seq } => {
                let Some(c) = self.conns[conn].as_mut() else {
                    return Err(Fail::new("machinery/bad-op", "Retire on a missing connection"));
                };
                let next = c.issued.len() as u64;
                let frame = RetireConnectionIdFrame::new(VarInt::from_u64(seq).unwrap());
                let r = c.cids.recv_frame(frame);
                let fresh = Self::absorb(c, &mut self.all_ids)?;
                if seq >= next {
                    // RFC 9000 §19.16: a sequence number greater than any previously sent MUST
                    // be treated as a connection error of type PROTOCOL_VIOLATION.
                    ensure!(
                        fresh == 0,
                        "local/retire-unissued-issued-new-id",
                        "RETIRE_CONNECTION_ID({seq}) for a number never issued (next is {next}) made the endpoint issue {fresh} new id(s)"
                    );
                    match r {
                        Ok(()) => {
                            return Err(Fail::new(
                                "local/retire-unissued-accepted",
                                format!("RETIRE_CONNECTION_ID({seq}) was accepted although only 0..{next} were issued"),
                            ));
                        }
                        Err(e) => {
                            c.dead = true;
                            if e.kind() != ErrorKind::ProtocolViolation {
                                self.soft("local/retire-unissued-wrong-error-code", || {
                                    format!(
                                        "RETIRE_CONNECTION_ID({seq}) with only 0..{next} issued is rejected with {} ({e}); RFC 9000 §19.16 prescribes PROTOCOL_VIOLATION",
                                        kind_name(e.kind())
                                    )
                                });
                            }
                        }
                    }
                } else if !c.retired.contains(&seq) {
                    ensure!(
                        r.is_ok(),
                        "local/retire-live-rejected",
                        "RETIRE_CONNECTION_ID({seq}) of a live id returned {:?}",
                        r.err().map(|e| kind_name(e.kind()))
                    );
                    c.retired.insert(seq);
                    ensure!(
                        fresh >= 1,
                        "local/retirement-not-replaced",
                        "RETIRE_CONNECTION_ID({seq}) of a live id was accepted but no NEW_CONNECTION_ID followed"
                    );
                    ensure!(
                        fresh == 1,
                        "local/retirement-replaced-more-than-once",
                        "RETIRE_CONNECTION_ID({seq}) of a live id produced {fresh} NEW_CONNECTION_ID frames"
                    );
                } else {
                    // a repeated (retransmitted / duplicated) retirement
                    ensure!(
                        fresh == 0,
                        "local/repeated-retirement-replaced-again",
                        "the repeated RETIRE_CONNECTION_ID({seq}) produced {fresh} further NEW_CONNECTION_ID frame(s)"
                    );
                    if r.is_err() {
                        c.dead = true;
                    }
                }
            }
        }
        for (slot, c) in self.conns.iter().enumerate() {
            let Some(c) = c else { continue };
            if let Some(n) = c.limit {
                ensure!(
                    c.live() as u64 <= n,
                    "local/more-ids-than-peer-limit",
                    "connection {slot}: {} issued-and-unretired ids (issued 0..{}, retired {:?}) with a peer limit of {n}",
                    c.live(),
                    c.issued.len(),
                    c.retired
                );
            }
        }
        self.check_routing()
    }

    fn canon(&self) -> String {
        let mut s = String::new();
        for c in &self.conns {
            match c {
                None => s.push_str("-;"),
                Some(c) => {
                    let mut dump = scrub_tokens(&format!("{:?}", c.cids));
                    for (seq, cid) in c.issued.iter().enumerate() {
                        dump = dump.replace(&format!("{cid:?}"), &format!("#{seq}"));
                    }
                    s.push_str(&format!(
                        "{dump}|{}|{:?}|{:?}|{};",
                        c.issued.len(),
                        c.retired,
                        c.limit,
                        c.dead
                    ));
                }
            }
        }
        s
    }

    fn outcome(&self) -> Option<String> {
        let one = |c: &Option<Conn>| match c {
            None => "-".to_string(),
            Some(c) => format!(
                "n{}r{}l{}{}",
                c.issued.len(),
                c.retired.len(),
                c.limit.map(|l| l.to_string()).unwrap_or("?".into()),
                if c.dead { "x" } else { "" }
            ),
        };
        Some(format!("{}/{}", one(&self.conns[0]), one(&self.conns[1])))
    }
}

// ---------------------------------------------------------------------------------------
// (b) remote connection ids
// ---------------------------------------------------------------------------------------


/// The RETIRE_CONNECTION_ID sink. `Debug` prints nothing: the emitted frames are part of the
/// reference model (as a multiset), their order is not state.
#[derive(Clone, Default)]
struct RetireSink(Arc<Mutex<Vec<u64>>>);

impl fmt::Debug for RetireSink {
    fn fmt(&self, f: &mut fmt::Formatter<'_>) -> fmt::Result {
        f.write_str("Sink")
    }
}

impl SendFrame<RetireConnectionIdFrame> for RetireSink {
    fn send_frame<I: IntoIterator<Item = RetireConnectionIdFrame>>(&self, iter: I) {
        self.0.lock().unwrap().extend(iter.into_iter().map(|f| f.sequence()));
    }
}

/// The peer's connection id for a sequence number (`alt` = a second, different id claimed for
/// the same number).
fn rcid(seq: u64, alt: bool) -> ConnectionId {
    ConnectionId::from_slice(&[0x80 | seq as u8, alt as u8, 0xc1, 0x4d, 0x0c, 0x14, seq as u8, alt as u8])
}

fn rcid_decode(cid: &ConnectionId) -> Option<(u64, bool)> {
    let b: &[u8] = cid;
    if b.len() == 8 && b[2..6] == [0xc1, 0x4d, 0x0c, 0x14] && b[0] == 0x80 | b[6] && b[1] == b[7] && b[7] <= 1 {
        Some((b[6] as u64, b[7] == 1))
    } else {
        None
    }
}

/// NEW_CONNECTION_ID as the peer puts it on the wire, decoded by the real `FrameReader`.
fn new_cid_frame(seq: u64, rpt: u64, alt: bool) -> Result<NewConnectionIdFrame, Fail> {
    let mut w = BytesMut::new();
    w.put_u8(0x18);
    w.put_u8(seq as u8);
    w.put_u8(rpt as u8);
    w.put_u8(8);
    w.put_slice(&rcid(seq, alt));
    let mut token = [0xa5u8; 16];
    token[0] = seq as u8;
    token[1] = alt as u8;
    w.put_slice(&token);
    let ty = OneRttHeader::new(SpinBit::default(), rcid(0, false)).get_type();
    match FrameReader::new(w.freeze(), ty).next() {
        Some(Ok((Frame::NewConnectionId(f), _))) => Ok(f),
        other => Err(Fail::new(
            "machinery/frame-not-decoded",
            format!("NEW_CONNECTION_ID(seq {seq}, rpt {rpt}) did not decode: {:?}", other.map(|r| r.map(|_| ()).map_err(|e| e.to_string()))),
        )),
    }
}

#[derive(Debug, Clone, PartialEq, Eq, PartialOrd, Ord, Serialize, Deserialize)]
pub enum ROp {
    /// a new path: `apply_dcid()`
    Apply,
    /// the first Initial packet arrives on this path: `apply_initial_dcid(seq 0, cell)`
    Initial { cell: usize },
    /// the peer's NEW_CONNECTION_ID arrives
    NewCid { seq: u64, rpt: u64, alt: bool },
    /// the path's sender borrows the id for one burst (sleeps on its send waker if none)
    Borrow { cell: usize },
    /// the burst ends: the guard is dropped
    Release { cell: usize },
    /// the path is abandoned: `cell.retire()`
    RetireCell { cell: usize },
}

#[derive(Debug, Clone, Copy, PartialEq, Eq)]
enum Probe {
    Pending,
    Retired,
    Id(u64, bool),
}

#[derive(Debug, Clone)]
struct CellM {
    retired: bool,
    borrowed: Option<(u64, bool)>,
    current: Probe,
    /// wake count of the path's waker when it went to sleep waiting for an id
    waiting: Option<usize>,
}

pub struct RSys {
    limit: u64,
    max_cells: usize,
    /// NEW_CONNECTION_ID sequence numbers range over 0..seq_bound
    seq_bound: u64,
    alts: Vec<u64>,
    // Field order matters: the guards borrow from the cells and are dropped first.
    guards: Vec<Option<BorrowedCid<'static, RetireSink>>>,
    cells: Vec<ArcCidCell<RetireSink>>,
    remote: ArcRemoteCids<RetireSink>,
    sink: RetireSink,
    wakers: Vec<ArcSendWaker>,
    counters: Vec<Arc<CountWaker>>,
    // reference
    initial_done: bool,
    /// sequence number → which ids were received for it (false = regular, true = alternative)
    received: BTreeMap<u64, BTreeSet<bool>>,
    rpt_max: u64,
    /// RETIRE_CONNECTION_ID frames emitted per sequence number
    emitted: BTreeMap<u64, u32>,
    emitted_seen: usize,
    ever_used: BTreeSet<u64>,
    cm: Vec<CellM>,
    dead: bool,
    hist: Vec<ROp>,
    soft: Arc<SoftLog<ROp>>,
}

impl Drop for RSys {
    fn drop(&mut self) {
        // a guard's Drop locks its cell; keep a poisoned lock from escaping as a second panic
        let guards = std::mem::take(&mut self.guards);
        let _ = panics::catch(move || drop(guards));
    }
}

impl RSys {
    fn new(limit: u64, max_cells: usize, seq_bound: u64, alts: &[u64], soft: Arc<SoftLog<ROp>>) -> RSys {
        let sink = RetireSink::default();
        RSys {
            limit,
            max_cells,
            seq_bound,
            alts: alts.to_vec(),
            guards: Vec::with_capacity(max_cells),
            cells: Vec::with_capacity(max_cells),
            // builder.rs: ArcRemoteCids::new(local active_connection_id_limit, reliable_frames)
            remote: ArcRemoteCids::new(limit, sink.clone()),
            sink,
            wakers: Vec::new(),
            counters: Vec::new(),
            initial_done: false,
            received: BTreeMap::new(),
            rpt_max: 0,
            emitted: BTreeMap::new(),
            emitted_seen: 0,
            ever_used: BTreeSet::new(),
            cm: Vec::new(),
            dead: false,
            hist: Vec::new(),
            soft,
        }
    }

    fn soft(&self, sig: &'static str, detail: impl FnOnce() -> String) {
        self.soft.record(sig, &self.hist, detail);
    }

    fn emitted_n(&self, seq: u64) -> u32 {
        self.emitted.get(&seq).copied().unwrap_or(0)
    }

    fn absorb(&mut self) -> Vec<u64> {
        let fresh: Vec<u64> = {
            let g = self.sink.0.lock().unwrap();
            g[self.emitted_seen..].to_vec()
        };
        self.emitted_seen += fresh.len();
        for s in &fresh {
            *self.emitted.entry(*s).or_default() += 1;
        }
        fresh
    }

    fn decode(cid: &ConnectionId, what: &str) -> Result<(u64, bool), Fail> {
        rcid_decode(cid).ok_or_else(|| {
            Fail::new("remote/unknown-id-used", format!("{what} yielded {cid:?}, which the peer never issued"))
        })
    }

    /// Observes the id every un-borrowed path would use now: borrow and release at once.
    fn probe_all(&mut self) -> Result<(), Fail> {
        for i in 0..self.cells.len() {
            if self.guards[i].is_some() {
                continue;
            }
            let p = match self.cells[i].borrow_cid(self.wakers[i].clone()) {
                Ok(Some(g)) => {
                    let cid = *g;
                    drop(g);
                    let (s, a) = Self::decode(&cid, &format!("borrow_cid on path {i}"))?;
                    Probe::Id(s, a)
                }
                Ok(None) => Probe::Retired,
                Err(_) => Probe::Pending,
            };
            self.cm[i].current = p;
        }
        Ok(())
    }

    fn check(&mut self, op: &ROp, fresh: &[u64]) -> Result<(), Fail> {
        let r = self.rpt_max;
        // a borrowed id never changes until the borrow is released
        for i in 0..self.cells.len() {
            if let Some(g) = &self.guards[i] {
                ensure!(
                    rcid_decode(g) == self.cm[i].borrowed,
                    "remote/borrowed-id-changed",
                    "path {i} borrowed {:?}, its guard now reads {:?}",
                    self.cm[i].borrowed,
                    **g
                );
            }
        }
        // the state of a path as the reference expects it
        for (i, m) in self.cm.iter().enumerate() {
            if m.borrowed.is_some() {
                continue;
            }
            ensure!(
                m.retired == (m.current == Probe::Retired),
                if m.retired { "remote/retired-path-still-yields-id" } else { "remote/path-retired-spontaneously" },
                "path {i}: cell.retire() called = {}, borrow_cid now reports {:?}",
                m.retired,
                m.current
            );
        }
        // a path that slept waiting for an id is woken when it gets one (or is retired)
        for i in 0..self.cm.len() {
            if let Some(at_sleep) = self.cm[i].waiting {
                if self.cm[i].borrowed.is_none() && self.cm[i].current != Probe::Pending {
                    ensure!(
                        self.counters[i].count() > at_sleep,
                        "remote/waiting-path-not-woken",
                        "path {i} slept on its send waker for an id, now has {:?}, but its waker was never woken",
                        self.cm[i].current
                    );
                    self.cm[i].waiting = None;
                }
            }
        }
        // who holds what (live paths only)
        let mut holders: BTreeMap<u64, Vec<(usize, bool)>> = BTreeMap::new();
        for (i, m) in self.cm.iter().enumerate() {
            let held = match (m.borrowed, m.current) {
                (Some((s, a)), _) => Some((s, a, true)),
                (None, Probe::Id(s, a)) => Some((s, a, false)),
                _ => None,
            };
            if let Some((s, a, borrowed)) = held {
                ensure!(
                    self.received.get(&s).is_some_and(|v| v.contains(&a)),
                    "remote/unknown-id-used",
                    "path {i} uses sequence number {s} (alt {a}), which was never received"
                );
                self.ever_used.insert(s);
                if !m.retired {
                    holders.entry(s).or_default().push((i, borrowed));
                }
            }
        }
        for (s, hs) in &holders {
            ensure!(
                hs.len() == 1,
                "remote/id-shared-by-two-paths",
                "sequence number {s} is in use on paths {:?} at the same time",
                hs.iter().map(|h| h.0).collect::<Vec<_>>()
            );
        }
        // exactly one retirement per abandoned id, none for one in use
        for (s, n) in &self.emitted {
            ensure!(
                *n <= 1,
                "remote/retirement-sent-twice",
                "{n} RETIRE_CONNECTION_ID frames were emitted for sequence number {s}"
            );
        }
        for (s, hs) in &holders {
            let (i, borrowed) = hs[0];
            ensure!(
                self.emitted_n(*s) == 0,
                if borrowed { "remote/borrowed-id-retired" } else { "remote/id-in-use-was-retired" },
                "RETIRE_CONNECTION_ID({s}) was emitted while path {i} {} that id",
                if borrowed { "has borrowed" } else { "keeps using" }
            );
        }
        if !matches!(op, ROp::RetireCell { .. }) {
            for s in fresh {
                ensure!(
                    *s < r,
                    "remote/unretired-id-retired",
                    "RETIRE_CONNECTION_ID({s}) emitted by {op:?} although the peer's retire-prior-to is {r} and no path abandoned it"
                );
            }
        }
        // honours retire-prior-to by switching (soft: the search continues behind it)
        let needing: Vec<usize> = holders
            .iter()
            .filter(|(s, _)| **s < r)
            .map(|(_, hs)| hs[0].0)
            .collect();
        let spares: Vec<u64> = self
            .received
            .keys()
            .copied()
            .filter(|s| *s >= r && self.emitted_n(*s) == 0 && !self.ever_used.contains(s))
            .collect();
        let in_order = spares
            .iter()
            .filter(|s| (r..**s).all(|x| self.received.contains_key(&x)))
            .count();
        for (s, hs) in &holders {
            let (i, borrowed) = hs[0];
            if !borrowed && *s < r {
                let sig = if in_order >= needing.len() {
                    "remote/path-keeps-retired-id/spare-id-available"
                } else if spares.len() >= needing.len() {
                    "remote/path-keeps-retired-id/spare-id-behind-gap"
                } else {
                    "remote/path-keeps-retired-id/no-spare-id"
                };
                self.soft(sig, || {
                    format!(
                        "the peer's retire-prior-to is {r}, path {i} is not borrowed and borrow_cid still hands out sequence number {s} (RFC 9000 §5.1.2: MUST stop using); paths needing a new id {needing:?}, unused ids >= {r} received {spares:?} ({in_order} without a gap)"
                    )
                });
            }
        }
        // every abandoned id has its retirement (deferred only while its path is mid-burst)
        let mut abandoned: BTreeSet<u64> = self.ever_used.clone();
        abandoned.extend(self.received.keys().copied().filter(|s| *s < r));
        for s in abandoned {
            if holders.contains_key(&s) || self.emitted_n(s) == 1 {
                continue;
            }
            // ids assigned underneath a running borrow are retired when the borrow ends
            let deferred = holders.iter().any(|(b, hs)| hs[0].1 && *b < r && *b < s);
            if !deferred {
                return Err(Fail::new(
                    "remote/abandoned-id-not-retired",
                    format!(
                        "sequence number {s} is abandoned (retire-prior-to {r}, in use nowhere) but no RETIRE_CONNECTION_ID({s}) was emitted (emitted so far: {:?})",
                        self.emitted
                    ),
                ));
            }
        }
        Ok(())
    }
}

impl System for RSys {
    type Op = ROp;

    fn ops(&self) -> Vec<ROp> {
        let mut v = Vec::new();
        if self.dead {
            return v;
        }
        if self.initial_done {
            for seq in 0..self.seq_bound {
                for rpt in 0..=seq {
                    v.push(ROp::NewCid { seq, rpt, alt: false });
                }
            }
            for &seq in &self.alts {
                for rpt in 0..=seq {
                    v.push(ROp::NewCid { seq, rpt, alt: true });
                }
            }
        }
        if self.cells.len() < self.max_cells {
            v.push(ROp::Apply);
        }
        for i in 0..self.cells.len() {
            if !self.initial_done {
                v.push(ROp::Initial { cell: i });
            }
            if self.guards[i].is_some() {
                v.push(ROp::Release { cell: i });
            } else if !self.cm[i].retired {
                v.push(ROp::Borrow { cell: i });
            }
            if self.initial_done && !self.cm[i].retired {
                v.push(ROp::RetireCell { cell: i });
            }
        }
        v
    }

    fn step(&mut self, op: &ROp) -> Result<(), Fail> {
        self.hist.push(op.clone());
        match *op {
            ROp::Apply => {
                let cell = self.remote.apply_dcid();
                self.cells.push(cell);
                self.guards.push(None);
                self.wakers.push(ArcSendWaker::new());
                self.counters.push(CountWaker::new());
                self.cm.push(CellM { retired: false, borrowed: None, current: Probe::Pending, waiting: None });
            }
            ROp::Initial { cell } => {
                self.remote.apply_initial_dcid(rcid(0, false), &self.cells[cell]);
                self.initial_done = true;
                self.received.entry(0).or_default().insert(false);
            }
            ROp::NewCid { seq, rpt, alt } => {
                let frame = new_cid_frame(seq, rpt, alt)?;
                let result = self.remote.recv_frame(frame);
                let _ = self.absorb();
                let r2 = self.rpt_max.max(rpt);
                let mut recv2: BTreeSet<u64> = self.received.keys().copied().collect();
                recv2.insert(seq);
                let max_seen = *recv2.iter().next_back().unwrap();
                // ids this endpoint holds after processing the frame (RFC 9000 §5.1.1)
                let recv_active = recv2.iter().filter(|s| **s >= r2 && self.emitted_n(**s) == 0).count() as u64;
                // ids an in-order issuer has outstanding, by the state and by the frame alone
                let peer_outstanding =
                    (0..=max_seen).filter(|s| *s >= r2 && self.emitted_n(*s) == 0).count() as u64;
                let frame_outstanding = (rpt..=seq).filter(|s| self.emitted_n(*s) == 0).count() as u64;
                let conflicting = self.received.get(&seq).is_some_and(|v| !v.contains(&alt));
                match result {
                    Ok(_) => {
                        self.received.entry(seq).or_default().insert(alt);
                        self.rpt_max = r2;
                        if recv_active > self.limit {
                            self.soft("remote/over-limit-accepted", || {
                                format!(
                                    "NEW_CONNECTION_ID(seq {seq}, retire_prior_to {rpt}) was accepted and leaves {recv_active} active peer ids ({:?}, retire-prior-to {r2}, retired by us {:?}) with active_connection_id_limit {}; RFC 9000 §5.1.1 requires CONNECTION_ID_LIMIT_ERROR",
                                    recv2.iter().filter(|s| **s >= r2 && self.emitted_n(**s) == 0).collect::<Vec<_>>(),
                                    self.emitted.keys().collect::<Vec<_>>(),
                                    self.limit
                                )
                            });
                        }
                    }
                    Err(e) => {
                        self.dead = true;
                        match e.kind() {
                            ErrorKind::ConnectionIdLimit => {
                                if recv_active <= self.limit
                                    && peer_outstanding <= self.limit
                                    && frame_outstanding <= self.limit
                                {
                                    // a retire_prior_to below the largest one received has no
                                    // effect (§19.15), the frame is still a legal one
                                    let sig = if rpt < self.rpt_max {
                                        "remote/limit-error-spurious/stale-retire-prior-to"
                                    } else {
                                        "remote/limit-error-spurious/after-own-retirements"
                                    };
                                    self.soft(sig, || {
                                        format!(
                                            "NEW_CONNECTION_ID(seq {seq}, retire_prior_to {rpt}) rejected with CONNECTION_ID_LIMIT_ERROR ({e}) although at most {peer_outstanding} ids are outstanding (limit {}): received {:?}, largest retire-prior-to {r2}, RETIRE_CONNECTION_ID already sent for {:?}",
                                            self.limit,
                                            recv2,
                                            self.emitted.keys().collect::<Vec<_>>()
                                        )
                                    });
                                }
                            }
                            // §19.15: a sequence number used for different ids MAY be a PROTOCOL_VIOLATION
                            ErrorKind::ProtocolViolation if conflicting => {}
                            k => {
                                return Err(Fail::new(
                                    "remote/unexpected-error",
                                    format!("NEW_CONNECTION_ID(seq {seq}, retire_prior_to {rpt}, alt {alt}) rejected with {} ({e})", kind_name(k)),
                                ));
                            }
                        }
                    }
                }
            }
            ROp::Borrow { cell } => {
                // SAFETY: the guard only holds `&Mutex<CidCell>` inside the cell's Arc allocation,
                // which outlives it: `guards` is declared before `cells` (dropped first, see also
                // `Drop for RSys`) and cells are never removed.
                let c: &'static ArcCidCell<RetireSink> =
                    unsafe { &*(&self.cells[cell] as *const ArcCidCell<RetireSink>) };
                match c.borrow_cid(self.wakers[cell].clone()) {
                    Ok(Some(g)) => {
                        let id = Self::decode(&g, &format!("borrow_cid on path {cell}"))?;
                        self.cm[cell].borrowed = Some(id);
                        self.guards[cell] = Some(g);
                    }
                    Ok(None) => {}
                    Err(signals) => {
                        // burst.rs: the sender waits on its send waker for these signals
                        let w = Waker::from(self.counters[cell].clone());
                        let mut cx = Context::from_waker(&w);
                        let mut fut = std::pin::pin!(self.wakers[cell].wait_for(signals));
                        if let Poll::Pending = fut.as_mut().poll(&mut cx) {
                            if self.cm[cell].waiting.is_none() {
                                self.cm[cell].waiting = Some(self.counters[cell].count());
                            }
                        }
                    }
                }
            }
            ROp::Release { cell } => {
                let g = self.guards[cell].take();
                drop(g);
                self.cm[cell].borrowed = None;
            }
            ROp::RetireCell { cell } => {
                self.cells[cell].retire();
                self.cm[cell].retired = true;
            }
        }
        let fresh = self.absorb();
        self.probe_all()?;
        // Observing must not change anything: an un-borrowed path that still holds a superseded
        // id would retire it only now, i.e. only when (and if) that path sends again.
        let late = self.absorb();
        ensure!(
            late.is_empty(),
            "remote/retirement-deferred-to-next-borrow",
            "RETIRE_CONNECTION_ID for {late:?} was not emitted by {op:?} itself but only when the un-borrowed path borrowed its id the next time"
        );
        self.check(op, &fresh)
    }

    fn canon(&self) -> String {
        let cm: Vec<String> = self
            .cm
            .iter()
            .map(|m| format!("{}{:?}{:?}{}", m.retired, m.borrowed, m.current, m.waiting.is_some()))
            .collect();
        format!(
            "{}|{}|{}|{:?}|{}|{:?}|{:?}|{:?}|{}",
            scrub_ptrs(&format!("{:?}", self.remote)),
            scrub_ptrs(&format!("{:?}", self.cells)),
            self.initial_done,
            self.received,
            self.rpt_max,
            self.emitted,
            self.ever_used,
            cm,
            self.dead
        )
    }

    fn outcome(&self) -> Option<String> {
        let cells: String = self
            .cm
            .iter()
            .map(|m| match (m.retired, m.borrowed, m.current) {
                (true, _, _) => 'r',
                (_, Some(_), _) => 'b',
                (_, _, Probe::Id(..)) => 'i',
                _ => 'p',
            })
            .collect();
        Some(format!(
            "R{}n{}e{}{}{}",
            self.rpt_max,
            self.received.len(),
            self.emitted.len(),
            cells,
            if self.dead { "x" } else { "" }
        ))
    }
}

// ---------------------------------------------------------------------------------------
// driver
// ---------------------------------------------------------------------------------------

fn local_cfg(v: &Value) -> [usize; 2] {
    [
        v["cap_a"].as_u64().unwrap_or(7) as usize,
        v["cap_b"].as_u64().unwrap_or(4) as usize,
    ]
}

fn remote_cfg(v: &Value) -> (u64, usize, u64, Vec<u64>) {
    (
        v["limit"].as_u64().unwrap_or(2),
        v["max_cells"].as_u64().unwrap_or(2) as usize,
        v["seq_bound"].as_u64().unwrap_or(6),
        v["alts"].as_array().map(|a| a.iter().filter_map(|x| x.as_u64()).collect()).unwrap_or_default(),
    )
}

fn run_replay(path: &std::path::Path) -> i32 {
    let r = mc_core::report::load_replay(path);
    let sub = r["sub"].as_str().unwrap_or("");
    let mut code = 0;
    let res = if sub == "router-entries" {
        crate::c14e::replay(&r["history"])
    } else if sub.starts_with("local") {
        let soft = Arc::new(SoftLog::default());
        let caps = local_cfg(&r["config"]);
        let res = mc_core::explore::replay(|| LSys::new(caps, soft.clone()), &r["history"]);
        for (sig, (_, detail)) in soft.0.read().unwrap().iter() {
            println!("replay: {sig} — {detail}");
            code = 1;
        }
        res
    } else {
        let soft = Arc::new(SoftLog::default());
        let (limit, cells, bound, alts) = remote_cfg(&r["config"]);
        let res = mc_core::explore::replay(|| RSys::new(limit, cells, bound, &alts, soft.clone()), &r["history"]);
        for (sig, (_, detail)) in soft.0.read().unwrap().iter() {
            println!("replay: {sig} — {detail}");
            code = 1;
        }
        res
    };
    match res {
        Ok(()) => {
            if code == 0 {
                println!("replay: no violation");
            }
        }
        Err(f) => {
            println!("replay: {} — {}", f.sig, f.detail);
            code = 1;
        }
    }
    code
}

pub fn run(args: &Args) -> i32 {
    if let Some(p) = &args.replay {
        return run_replay(p);
    }
    let mut report = Report::new(args, "model_checking");
    report.assume("local ids are built as qconnection::builder does: router.registry_on_issuing_scid(queue, frame sink) -> gen_unique_cid() for the initial SCID -> ArcLocalCids::new(initial_scid, registry), plus a server-style router.insert(odcid, queue) entry; the frame sink is a collecting Vec instead of ArcReliableFrameDeque");
    report.assume("QuicRouterRegistry has no Debug impl; it is wrapped in a transparent newtype (pure delegation of GenUniqueCid/RetireCid/SendFrame) so that the derived Debug dump of the real ArcLocalCids (id deque, offset, limit) is the canonical state; the random id bytes are replaced by their sequence numbers and the random reset tokens are masked; the router table is canonicalised by the lookups of every id ever issued (it can contain nothing else)");
    report.assume("a connection is 'gone' when its last ArcLocalCids clone and its odcid router entry are dropped; ids of dropped connections are checked for ever but are not part of the canonical state (a removed map entry leaves no trace), which is what lets create/drop cycles close");
    report.assume("set_limit is applied once per connection (tls_fin_handler; the code debug_asserts it) with n in {2,3,4}; an error returned to the peer's frame ends that connection's history (it is closing); retirements range over 0..=next+1 while fewer than cap ids were issued");
    report.assume("routing is observed with QuicRouter::try_deliver of a 29-byte short-header packet parsed by the real PacketReader (dcid_len 8), followed by draining every connection's 1-RTT queue; ids are the 8-byte random ids the real issuer generates, so collisions between ids are outside the explored space");
    report.assume("remote ids: ArcRemoteCids::new(limit, sink); paths = apply_dcid cells (at most max_cells per history, never borrowed twice at once, as one burst task per path does); the handshake path is chosen by apply_initial_dcid among the paths applied so far; NEW_CONNECTION_ID frames are decoded from wire bytes by the real FrameReader with seq < 6 (some quick-tier configurations: < 5 or < 4, see the sub-check names), retire_prior_to <= seq, 8-byte ids that encode (seq, alt); canonical state = Debug dump of the real ArcRemoteCids and of every cell (heap addresses of wakers masked) + reference");
    report.assume("the id a path 'uses' is what borrow_cid hands out; un-borrowed paths are observed by borrowing and releasing at once after every operation with the path's own send waker (this registers the waker in a pending cell, which only affects who is woken)");
    report.assume("limit oracle: acceptance is a violation only if the ids received, not below the largest retire-prior-to and not yet retired by us exceed the limit; CONNECTION_ID_LIMIT_ERROR is spurious only if neither that count, nor the count an in-order issuer has outstanding by the largest sequence number seen, nor the count implied by the frame's own (retire_prior_to..=seq) minus our retirements exceeds the limit");
    report.assume("a sequence number re-used for a different id (alt) may be accepted or rejected with PROTOCOL_VIOLATION (RFC 9000 §19.15 says MAY); a path keeping a retired id is classified by whether unused ids were available; RETIRE_CONNECTION_ID for never-received numbers below retire-prior-to is allowed (at most once)");

    let thorough = args.thorough;
    let cap = Duration::from_secs(if thorough { 240 } else { 25 });

    // (a)
    if args.wants("local") {
        let caps: [usize; 2] = if thorough { [12, 7] } else { [10, 6] };
        let config = json!({"cap_a": caps[0], "cap_b": caps[1]});
        let soft = Arc::new(SoftLog::default());
        let cfg = ExploreCfg { time_cap: cap, ..Default::default() };
        let stats = explore(|| LSys::new(caps, soft.clone()), &cfg);
        mc_core::explore::file_violations(&mut report, "local", config.clone(), &stats);
        soft.file(&mut report, "local", &config);
        let mut cov = stats.coverage(&format!(
            "BFS to closure over all histories of set_limit(2|3|4, once per connection), peer RETIRE_CONNECTION_ID(seq) for every seq in 0..=next+1 (never-issued, repeated, reordered) while a connection has issued fewer than {}/{} ids, create/drop of a second connection on the same real QuicRouter (unbounded cycles); after every operation: consecutive numbering, unretired <= limit, one replacement per accepted retirement, error code for never-issued numbers, and a try_deliver lookup of every id ever issued",
            caps[0], caps[1]
        ));
        cov.extra.insert("soft_clause_violations".into(), json!(soft.signatures()));
        report.sub("local", cov);
    }

    // (a') hand-registered routes shared between connections
    crate::c14e::run_sub(&mut report, args);

    // (b)
    // (limit, paths, sequence numbers below, sequence numbers that also come with a second id)
    let remote_cfgs: Vec<(u64, usize, u64, Vec<u64>)> = if thorough {
        vec![(2, 3, 6, vec![1]), (3, 3, 6, vec![]), (2, 2, 6, vec![0, 1, 2])]
    } else {
        vec![(2, 2, 6, vec![1]), (3, 2, 6, vec![]), (2, 3, 5, vec![]), (3, 1, 6, vec![2])]
    };
    for (limit, cells, bound, alts) in remote_cfgs {
        let name = format!("remote-L{limit}-P{cells}-S{bound}-A{}", alts.len());
        if !args.wants(&name) && !args.wants("remote") {
            continue;
        }
        let config = json!({"limit": limit, "max_cells": cells, "seq_bound": bound, "alts": alts});
        let soft = Arc::new(SoftLog::default());
        let cfg = ExploreCfg { time_cap: cap, ..Default::default() };
        let stats = explore(|| RSys::new(limit, cells, bound, &alts, soft.clone()), &cfg);
        mc_core::explore::file_violations(&mut report, &name, config.clone(), &stats);
        soft.file(&mut report, &name, &config);
        let mut cov = stats.coverage(&format!(
            "BFS to closure over all histories of apply_dcid (<= {cells} paths), apply_initial_dcid on any path applied so far, NEW_CONNECTION_ID(seq, retire_prior_to) for every seq < {bound} and retire_prior_to <= seq in any order with repetitions (plus a different id for seq in {alts:?}), borrow / release / cell.retire() per path, local active_connection_id_limit {limit}, on the real ArcRemoteCids; after every operation: borrowed id stable, one id per path, no retired id in use on an un-borrowed path, RETIRE_CONNECTION_ID exactly once per abandoned number and never for one in use, limit verdict"
        ));
        cov.extra.insert("soft_clause_violations".into(), json!(soft.signatures()));
        report.sub(&name, cov);
    }
    report.finish()
}
