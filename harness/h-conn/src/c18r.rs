//! C18 (part `resume`) — "remembered parameters are only honoured for 0-RTT when the new ones
//! are no smaller": the decision the real client TLS session (`qconnection::tls::
//! ClientTlsSession::try_process_ee`) takes on a *resumed* handshake.
//!
//! E0: a real rustls QUIC server session and the real `ClientTlsSession` are connected in
//! memory twice with one client configuration (session cache): a first full handshake in which
//! the server advertises parameter set OLD (remembered with the ticket), then a resumed one in
//! which it advertises NEW. Enumerated: for every limit RFC 9000 §7.4.1 / RFC 9221 §3 names,
//! NEW = every assignment of {smaller, equal, larger} to the eight limits (3^8 = 6561 shapes).
//! Oracle: if any limit is smaller, 0-RTT must not be reported as accepted; the decision is
//! taken (Some) whenever a remembered set was loaded; no panic; the handshake completes and
//! the new parameters become the remote parameters.
use std::sync::Arc;

use mc_core::{Args, Report, panics, report::Coverage};
use qbase::{
    cid::ConnectionId,
    param::{ArcParameters, ClientParameters, ParameterId, Parameters, ServerParameters, WriteParameters, handy},
};
use qconnection::tls::{ClientTlsSession, QUIC_VERSION};
use rustls::{
    ClientConfig, RootCertStore, ServerConfig,
    pki_types::{CertificateDer, PrivateKeyDer, pem::PemObject},
    quic::ServerConnection,
};
use serde_json::json;

const CA_CERT: &[u8] = include_bytes!("../../certs/ca.cert");
const SERVER_CERT: &[u8] = include_bytes!("../../certs/server.cert");
const SERVER_KEY: &[u8] = include_bytes!("../../certs/server.key");
const ALPN: &[u8] = b"verif";

/// The limits a server must not reduce below what a client remembers.
const LIMITS: [(ParameterId, &str); 8] = [
    (ParameterId::InitialMaxData, "initial_max_data"),
    (ParameterId::InitialMaxStreamDataBidiLocal, "initial_max_stream_data_bidi_local"),
    (ParameterId::InitialMaxStreamDataBidiRemote, "initial_max_stream_data_bidi_remote"),
    (ParameterId::InitialMaxStreamDataUni, "initial_max_stream_data_uni"),
    (ParameterId::InitialMaxStreamsBidi, "initial_max_streams_bidi"),
    (ParameterId::InitialMaxStreamsUni, "initial_max_streams_uni"),
    (ParameterId::ActiveConnectionIdLimit, "active_connection_id_limit"),
    (ParameterId::MaxDatagramFrameSize, "max_datagram_frame_size"),
];
/// OLD value of every limit (room below and above; active_connection_id_limit must stay ≥ 2)
const OLD: u32 = 50;

fn client_config() -> Arc<ClientConfig> {
    let mut roots = RootCertStore::empty();
    roots.add_parsable_certificates(CertificateDer::pem_slice_iter(CA_CERT).map(Result::unwrap));
    let mut config = ClientConfig::builder_with_provider(Arc::new(rustls::crypto::ring::default_provider()))
        .with_protocol_versions(&[&rustls::version::TLS13])
        .unwrap()
        .with_root_certificates(roots)
        .with_no_client_auth();
    config.alpn_protocols = vec![ALPN.to_vec()];
    config.enable_early_data = true; // QuicClientBuilder::enable_0rtt
    Arc::new(config)
}

fn server_config() -> Arc<ServerConfig> {
    let certs = CertificateDer::pem_slice_iter(SERVER_CERT).map(Result::unwrap).collect::<Vec<_>>();
    let key = PrivateKeyDer::from_pem_slice(SERVER_KEY).unwrap();
    let mut config = ServerConfig::builder_with_provider(Arc::new(rustls::crypto::ring::default_provider()))
        .with_protocol_versions(&[&rustls::version::TLS13])
        .unwrap()
        .with_no_client_auth()
        .with_single_cert(certs, key)
        .unwrap();
    config.alpn_protocols = vec![ALPN.to_vec()];
    config.max_early_data_size = 0xffff_ffff; // QuicListenersBuilder::enable_0rtt
    Arc::new(config)
}

fn cid(tag: u8, nth: u8) -> ConnectionId {
    ConnectionId::from_slice(&[tag, nth, 1, 2, 3, 4, 5, 6])
}

/// -1 smaller, 0 equal, +1 larger — per limit, in the order of [`LIMITS`]
type Shape = [i8; 8];

fn server_params(nth: u8, shape: Option<&Shape>) -> ServerParameters {
    let mut p = handy::server_parameters();
    p.set(ParameterId::InitialSourceConnectionId, cid(0x50, nth)).unwrap();
    p.set(ParameterId::OriginalDestinationConnectionId, cid(0x0d, nth)).unwrap();
    for (i, (id, _)) in LIMITS.iter().enumerate() {
        let delta = shape.map_or(0, |s| s[i]) as i64;
        p.set(*id, (OLD as i64 + 10 * delta) as u32).unwrap();
    }
    p
}

fn pump(client: &mut ClientTlsSession, server: &mut ServerConnection) -> Result<(), String> {
    loop {
        let mut progressed = false;
        let mut buf = Vec::new();
        loop {
            let len = buf.len();
            if client.verif_tls_conn().write_hs(&mut buf).is_none() && buf.len() == len {
                break;
            }
        }
        if !buf.is_empty() {
            server.read_hs(&buf).map_err(|e| format!("server rejects client flight: {e}"))?;
            progressed = true;
        }
        let mut buf = Vec::new();
        loop {
            let len = buf.len();
            if server.write_hs(&mut buf).is_none() && buf.len() == len {
                break;
            }
        }
        if !buf.is_empty() {
            client.verif_tls_conn().read_hs(&buf).map_err(|e| format!("client rejects server flight: {e}"))?;
            progressed = true;
        }
        if !progressed {
            return Ok(());
        }
    }
}

#[derive(Debug)]
struct Attempt {
    /// remembered parameters + 0-RTT keys were loaded before the handshake
    remembered: bool,
    decision: Option<bool>,
    remote_ready: bool,
    /// the limit values the connection ends up with as the peer's
    limits_applied: Vec<u64>,
}

/// One connection attempt: exactly what `ConnectionFoundation::with_cids` + the TLS task do for
/// a client, without crypto streams.
fn connect(cc: &Arc<ClientConfig>, sc: &Arc<ServerConfig>, nth: u8, shape: Option<&Shape>) -> Result<Attempt, String> {
    let mut cp: ClientParameters = handy::client_parameters();
    cp.set(ParameterId::InitialSourceConnectionId, cid(0xc0, nth)).unwrap();
    let mut client = ClientTlsSession::init("localhost".to_string(), cc.clone(), &cp).map_err(|e| format!("client init: {e}"))?;
    let zero_rtt = client.load_zero_rtt();
    let remembered = zero_rtt.is_some();
    let parameters = ArcParameters::from(Parameters::new_client(cp, zero_rtt.map(|(r, _)| r), cid(0x0d, nth)));
    parameters
        .lock_guard()
        .map_err(|e| e.to_string())?
        .initial_scid_from_peer_need_equal(cid(0x50, nth))
        .map_err(|e| format!("scid binding: {e}"))?;
    let mut buf = Vec::new();
    buf.put_parameters(&server_params(nth, shape));
    let mut server = ServerConnection::new(sc.clone(), QUIC_VERSION, buf).map_err(|e| format!("server init: {e}"))?;
    pump(&mut client, &mut server)?;
    if client.verif_tls_conn().is_handshaking() || server.is_handshaking() {
        return Err("handshake did not finish".into());
    }
    client.verif_process_tls_message(&parameters).map_err(|e| format!("server parameters refused: {e}"))?;
    let g = parameters.lock_guard().map_err(|e| e.to_string())?;
    let remote_ready = g.is_remote_params_ready();
    let limits_applied = LIMITS.iter().map(|(id, _)| g.get_remote::<u64>(*id).unwrap_or(u64::MAX)).collect();
    drop(g);
    Ok(Attempt { remembered, decision: client.verif_zero_rtt_accepted(), remote_ready, limits_applied })
}

fn shape_name(s: &Shape) -> String {
    s.iter().map(|d| match d { -1 => '<', 0 => '=', _ => '>' }).collect()
}

/// (signature, detail) of the first violated clause, and an outcome label.
fn run_shape(shape: &Shape) -> (Option<(String, String)>, String) {
    let r = panics::catch(|| {
        let (cc, sc) = (client_config(), server_config());
        let first = connect(&cc, &sc, 1, None)?;
        let second = connect(&cc, &sc, 2, Some(shape))?;
        Ok::<_, String>((first, second))
    });
    let (first, second) = match r {
        Err(p) => return (Some((format!("panic/{}", p.class()), format!("shape {}: panic at {}: {}", shape_name(shape), p.location, p.message))), "panic".into()),
        Ok(Err(e)) => return (Some(("machinery/c18r-handshake".into(), format!("shape {}: {e}", shape_name(shape)))), "machinery".into()),
        Ok(Ok(x)) => x,
    };
    if first.remembered {
        return (Some(("machinery/c18r-first-connection-remembered".into(), "the first connection already had remembered parameters".into())), "machinery".into());
    }
    if !second.remembered {
        // no ticket / no early data: nothing to decide (would make the part vacuous)
        return (Some(("machinery/c18r-not-resumed".into(), "the second connection loaded no remembered parameters".into())), "machinery".into());
    }
    let smaller: Vec<&str> = LIMITS.iter().zip(shape).filter(|(_, d)| **d < 0).map(|((_, n), _)| *n).collect();
    let label = format!("{}->{:?}", if smaller.is_empty() { "none-smaller" } else { "some-smaller" }, second.decision);
    if !second.remote_ready {
        return (Some(("resume/new-parameters-not-applied".into(), format!("shape {}: the resumed handshake finished but the server's parameters are not the remote parameters", shape_name(shape)))), label);
    }
    let expect: Vec<u64> = shape.iter().map(|d| (OLD as i64 + 10 * *d as i64) as u64).collect();
    if second.limits_applied != expect {
        return (
            Some((
                "resume/remembered-values-kept-after-handshake".into(),
                format!("shape {}: after the handshake the peer's limits are {:?}, the server advertised {:?}", shape_name(shape), second.limits_applied, expect),
            )),
            label,
        );
    }
    match second.decision {
        None => (Some(("resume/no-decision".into(), format!("shape {}: remembered parameters were loaded but try_process_ee took no 0-RTT decision", shape_name(shape)))), label),
        Some(true) if !smaller.is_empty() => (
            Some((
                "resume/0rtt-honoured-although-limit-reduced".into(),
                format!(
                    "the server reduced {:?} (shape {} over {:?}; old {OLD}, smaller = {}, larger = {}) on a resumed connection, yet the client reports 0-RTT as accepted: state built under the remembered, larger limits is kept",
                    smaller,
                    shape_name(shape),
                    LIMITS.iter().map(|(_, n)| *n).collect::<Vec<_>>(),
                    OLD - 10,
                    OLD + 10
                ),
            )),
            label,
        ),
        _ => (None, label),
    }
}

fn shapes(thorough: bool) -> Vec<Shape> {
    let mut v: Vec<Shape> = vec![[0; 8], [1; 8], [-1; 8]];
    for i in 0..8 {
        for d in [-1i8, 1] {
            let mut s = [0i8; 8];
            s[i] = d;
            v.push(s);
        }
        for j in 0..8 {
            if i != j {
                let mut s = [0i8; 8];
                s[i] = -1;
                s[j] = 1;
                v.push(s);
                // everything else larger, one smaller
                let mut t = [1i8; 8];
                t[i] = -1;
                t[j] = 0;
                v.push(t);
            }
        }
    }
    let _ = thorough;
    {
        for code in 0..3usize.pow(8) {
            let mut s = [0i8; 8];
            let mut c = code;
            for x in &mut s {
                *x = (c % 3) as i8 - 1;
                c /= 3;
            }
            v.push(s);
        }
    }
    v.sort();
    v.dedup();
    v
}

pub fn run(args: &Args) -> i32 {
    let mut report = Report::new(args, "exploration");
    report.assume("a real rustls QUIC server session and the real qconnection ClientTlsSession (hook 5 gives access to its rustls connection and its 0-RTT decision) joined in memory; one client configuration (session cache, early data enabled) for both handshakes; OLD = 50 for every limit, smaller = 40, larger = 60");
    report.assume("judged: a reduced limit ⇒ 0-RTT not reported as accepted; the converse (nothing reduced ⇒ accepted) is counted, not judged");
    if let Some(p) = &args.replay {
        let r = mc_core::report::load_replay(p);
        let shape: Shape = serde_json::from_value(r["shape"].clone()).unwrap_or([0; 8]);
        let (v, label) = run_shape(&shape);
        println!("replay: shape {} → {label}", shape_name(&shape));
        return match v {
            Some((sig, detail)) => {
                println!("replay: {sig} — {detail}");
                if sig.starts_with("machinery/") { 2 } else { 1 }
            }
            None => 0,
        };
    }
    let all = shapes(args.thorough);
    let results = mc_core::par::par_map(&all, |s| run_shape(s));
    let mut outcomes = std::collections::BTreeMap::<String, u64>::new();
    let mut nontrivial = 0u64;
    for (shape, (v, label)) in all.iter().zip(results) {
        *outcomes.entry(label).or_default() += 1;
        if shape.iter().any(|d| *d != 0) {
            nontrivial += 1;
        }
        if let Some((sig, detail)) = v {
            report.violation(&sig, &detail, json!({"sub": "resume", "shape": shape}));
        }
    }
    let mut extra = serde_json::Map::new();
    extra.insert("outcomes".into(), json!(outcomes));
    extra.insert("handshakes".into(), json!(all.len() * 2));
    report.sub(
        "resume",
        Coverage {
            evaluations: all.len() as u64,
            distinct_nontrivial: nontrivial,
            states: 0,
            transitions: 0,
            traces: all.len() as u64,
            exhaustive: true,
            rule: format!(
                "every shape of NEW vs OLD server parameters in {{smaller, equal, larger}}^8 over the eight limits: all-equal, all-larger, all-smaller, each single limit smaller / larger, every ordered pair (one smaller, one larger; one smaller, one equal, rest larger){}; two real handshakes (full, then resumed with early data) per shape",
                ", and all 3^8 assignments"
            ),
            samples: all.iter().take(3).map(|s| json!(shape_name(s))).collect(),
            extra,
        },
    );
    report.finish()
}
