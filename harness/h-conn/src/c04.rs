//! C04 — hostile but well-formed frames cost bounded work and get the RFC's error.
//!
//! E0 enumeration of boundary-value products over short legitimate histories, on the REAL
//! handlers, in the call order qconnection uses (space/data.rs `frame_dispathcer`: for an ACK
//! frame `cc.on_ack_rcvd` and `rcvd_journal.on_rcvd_ack` run BEFORE the piped
//! `Ack*Space::recv_frame` → `update_largest` validation, so these two are driven with frames
//! the validation would reject as well).
//!
//! Every frame is built as wire bytes, decoded by the real `FrameReader` (an ACK frame is
//! additionally built with `AckFrame::new` and encoded with the crate's own writer; both must
//! agree) and the *decoded* frame is delivered. Oracle:
//!
//! (1) COST — bytes allocated during each call (counting `#[global_allocator]`, below) must be
//!     ≤ 64 KiB + 256 × (encoded frame bytes + records the endpoint already holds). Cases in
//!     which a field exceeds the state by ≥ 10^6 ("far") never run in this process: they run in
//!     child processes (`h-conn C04 --only __batch`, lock-step protocol over stdin/stdout, one
//!     case at a time) under `setrlimit(RLIMIT_AS, 2 GiB)` and a 3 s watchdog per call. A child
//!     that is killed by the watchdog, dies (allocation failure, abort, stack overflow) or
//!     reports an allocation above the bound is a violation `cost/<handler>/<field-class>`.
//! (2) VERDICT — see `expect()`; RFC sections are cited there.
//!
//! ACK and packet-number cases are additionally run in children of the `prod` profile binary
//! (wrap-around arithmetic) when `/verif/harness/target/prod/h-conn` exists.
use std::{
    alloc::{GlobalAlloc, Layout, System},
    cell::Cell,
    collections::{BTreeMap, BTreeSet},
    fmt,
    io::{BufRead, BufReader, Write as _},
    path::{Path, PathBuf},
    process::{Child, ChildStdin, Command, Stdio},
    sync::{
        Arc, Mutex,
        atomic::{AtomicBool, AtomicU16, AtomicU64, AtomicUsize, Ordering},
        mpsc,
    },
    time::{Duration, Instant as StdInstant},
};

use bytes::{BufMut, Bytes, BytesMut};
use mc_core::{Args, Report, panics, report::Coverage};
use qbase::{
    Epoch,
    cid::{ArcLocalCids, ArcRemoteCids, ConnectionId, GenUniqueCid, RetireCid},
    error::{Error, QuicError},
    frame::{
        AckFrame, CryptoFrame, Frame, FrameReader, NewConnectionIdFrame, RetireConnectionIdFrame,
        io::{ReceiveFrame, SendFrame, WriteFrame},
    },
    net::tx::{ArcSendWaker, ArcSendWakers},
    packet::PacketNumber,
    role::Role,
    sid::{Dir, StreamId},
    varint::{VarInt, WriteVarInt},
};
use qcongestion::{Algorithm, ArcCC, Feedback, HandshakeStatus, PathStatus, Transport};
use qconnection::{ArcReliableFrameDeque, FlowController};
use qinterface::component::route::{QuicRouter, QuicRouterRegistry, RcvdPacketQueue};
use qrecovery::{
    crypto::CryptoStream,
    journal::{ArcRcvdJournal, ArcSentJournal},
};
use serde::{Deserialize, Serialize};
use serde_json::{Value, json};

use crate::pipe::{Cfg, Endpoint, SideCfg};

// ------------------------------------------------------------------------------------------
// counting allocator
// ------------------------------------------------------------------------------------------

/// `std::alloc::System` plus a per-thread byte counter that is only touched while a
/// measurement is running on that thread (one thread-local `bool` read per allocation otherwise).
pub struct CountingAlloc;

thread_local! {
    static COUNT_ON: Cell<bool> = const { Cell::new(false) };
    static COUNT_BYTES: Cell<u64> = const { Cell::new(0) };
}

/// set in child processes: an allocation failure is announced on stdout before the abort
static CHILD_MODE: AtomicBool = AtomicBool::new(false);

#[inline(always)]
fn note_alloc(n: usize) {
    let _ = COUNT_ON.try_with(|on| {
        if on.get() {
            let _ = COUNT_BYTES.try_with(|b| b.set(b.get().wrapping_add(n as u64)));
        }
    });
}

#[cfg(unix)]
unsafe extern "C" {
    fn write(fd: i32, buf: *const u8, count: usize) -> isize;
}

#[cold]
fn alloc_failed(size: usize) {
    if !CHILD_MODE.load(Ordering::Relaxed) {
        return;
    }
    // "F <size>\n" without allocating
    let mut buf = [0u8; 32];
    let mut digits = [0u8; 20];
    let mut n = size;
    let mut k = 0;
    loop {
        digits[k] = b'0' + (n % 10) as u8;
        n /= 10;
        k += 1;
        if n == 0 {
            break;
        }
    }
    buf[0] = b'\n';
    buf[1] = b'F';
    buf[2] = b' ';
    let mut p = 3;
    while k > 0 {
        k -= 1;
        buf[p] = digits[k];
        p += 1;
    }
    buf[p] = b'\n';
    p += 1;
    #[cfg(unix)]
    unsafe {
        let _ = write(1, buf.as_ptr(), p);
    }
}

unsafe impl GlobalAlloc for CountingAlloc {
    unsafe fn alloc(&self, l: Layout) -> *mut u8 {
        note_alloc(l.size());
        let p = unsafe { System.alloc(l) };
        if p.is_null() {
            alloc_failed(l.size());
        }
        p
    }
    unsafe fn alloc_zeroed(&self, l: Layout) -> *mut u8 {
        note_alloc(l.size());
        let p = unsafe { System.alloc_zeroed(l) };
        if p.is_null() {
            alloc_failed(l.size());
        }
        p
    }
    unsafe fn dealloc(&self, p: *mut u8, l: Layout) {
        unsafe { System.dealloc(p, l) }
    }
    unsafe fn realloc(&self, p: *mut u8, l: Layout, new_size: usize) -> *mut u8 {
        if new_size > l.size() {
            note_alloc(new_size - l.size());
        }
        let q = unsafe { System.realloc(p, l, new_size) };
        if q.is_null() {
            alloc_failed(new_size);
        }
        q
    }
}

#[global_allocator]
static GLOBAL: CountingAlloc = CountingAlloc;

/// Runs `f` and returns the number of bytes this thread allocated meanwhile.
fn measure<R>(f: impl FnOnce() -> R) -> (R, u64) {
    struct Restore(bool);
    impl Drop for Restore {
        fn drop(&mut self) {
            let _ = COUNT_ON.try_with(|c| c.set(self.0));
        }
    }
    let start = COUNT_BYTES.with(|b| b.get());
    let restore = Restore(COUNT_ON.with(|c| c.replace(true)));
    let r = f();
    drop(restore);
    let end = COUNT_BYTES.with(|b| b.get());
    (r, end.wrapping_sub(start))
}

#[cfg(target_os = "linux")]
fn limit_address_space(bytes: u64) -> bool {
    #[repr(C)]
    struct RLimit {
        cur: u64,
        max: u64,
    }
    unsafe extern "C" {
        fn setrlimit(resource: i32, rlim: *const RLimit) -> i32;
    }
    const RLIMIT_AS: i32 = 9;
    let r = RLimit { cur: bytes, max: bytes };
    unsafe { setrlimit(RLIMIT_AS, &r) == 0 }
}

#[cfg(not(target_os = "linux"))]
fn limit_address_space(_bytes: u64) -> bool {
    false
}

// ------------------------------------------------------------------------------------------
// virtual clock
// ------------------------------------------------------------------------------------------

struct Clock {
    rt: tokio::runtime::Runtime,
}

impl Clock {
    fn new() -> Clock {
        let rt = tokio::runtime::Builder::new_current_thread()
            .enable_time()
            .start_paused(true)
            .build()
            .expect("runtime");
        Clock { rt }
    }
    fn enter<R>(&self, f: impl FnOnce() -> R) -> R {
        let _g = self.rt.enter();
        f()
    }
    fn advance(&self, d: Duration) {
        self.rt.block_on(tokio::time::advance(d));
    }
    fn now(&self) -> tokio::time::Instant {
        self.enter(tokio::time::Instant::now)
    }
}

thread_local! {
    static CLOCK: Clock = Clock::new();
}

/// Masks the numbers of every `tv_sec: N` / `tv_nsec: N` and every `0x…` pointer in a Debug dump.
fn mask(s: &str) -> String {
    let b = s.as_bytes();
    let mut out = String::with_capacity(s.len());
    let mut i = 0;
    while i < b.len() {
        let rest = &s[i..];
        let skip_digits = |from: usize| {
            let mut j = from;
            while j < b.len() && b[j].is_ascii_digit() {
                j += 1;
            }
            j
        };
        if rest.starts_with("tv_sec: ") {
            out.push_str("tv_sec: _");
            i = skip_digits(i + 8);
        } else if rest.starts_with("tv_nsec: ") {
            out.push_str("tv_nsec: _");
            i = skip_digits(i + 9);
        } else if rest.starts_with("0x") {
            out.push_str("0x_");
            i += 2;
            while i < b.len() && b[i].is_ascii_hexdigit() {
                i += 1;
            }
        } else {
            let ch = rest.chars().next().unwrap();
            out.push(ch);
            i += ch.len_utf8();
        }
    }
    out
}

/// `dump` with every `{1, 0, 2}` (Debug of a HashSet of numbers) sorted, so that two objects
/// with the same content give the same text.
fn canon_dump<T: fmt::Debug>(t: &T) -> String {
    let s = dump(t);
    let mut out = String::with_capacity(s.len());
    let mut rest = s.as_str();
    while let Some(i) = rest.find('{') {
        out.push_str(&rest[..=i]);
        let tail = &rest[i + 1..];
        match tail.find(['{', '}']) {
            Some(j) if tail.as_bytes()[j] == b'}' && !tail[..j].is_empty() && tail[..j].chars().all(|c| c.is_ascii_digit() || c == ',' || c == ' ') => {
                let mut nums: Vec<u64> = tail[..j].split(',').filter_map(|x| x.trim().parse().ok()).collect();
                nums.sort();
                out.push_str(&nums.iter().map(|n| n.to_string()).collect::<Vec<_>>().join(", "));
                rest = &tail[j..];
            }
            _ => rest = tail,
        }
    }
    out.push_str(rest);
    out
}

fn dump<T: fmt::Debug>(t: &T) -> String {
    mask(&format!("{t:?}"))
}

// ------------------------------------------------------------------------------------------
// cases and outcomes
// ------------------------------------------------------------------------------------------

const PROTO: u32 = 5;
const VMAX: u64 = (1 << 62) - 1;
const FAR: u64 = 1_000_000;
const B: [u64; 13] = [
    0,
    1,
    63,
    64,
    16383,
    16384,
    (1 << 30) - 1,
    1 << 30,
    (1 << 31) - 1,
    1 << 31,
    1 << 32,
    1 << 61,
    VMAX,
];
/// every receive limit of the stream endpoint (SideCfg::roomy)
const STREAM_LIMIT: u64 = 1 << 20;
/// advertised stream counts of the stream endpoint (SideCfg::roomy)
const STREAM_COUNT: u64 = 4;
const PTO: Duration = Duration::from_millis(100);

#[derive(Debug, Clone, Copy, PartialEq, Eq, Serialize, Deserialize)]
enum Tgt {
    /// `ArcSentJournal::rotate().update_largest` + the `on_packet_acked` loop of `Ack*Space::recv_frame`
    Sent,
    /// `ArcRcvdJournal::on_rcvd_ack`
    Rcvd,
    /// `ArcCC::on_ack_rcvd`
    Cc,
}

#[derive(Debug, Clone, Copy, PartialEq, Eq, Serialize, Deserialize)]
enum SKind {
    /// STREAM; `declared`: the explicit length on the wire when it differs from the payload
    Data { off: u64, len: u8, fin: bool, declared: Option<u64> },
    Reset { final_size: u64, code: u64 },
    Stop { code: u64 },
    MaxStreamData { v: u64 },
}

#[derive(Debug, Clone, PartialEq, Eq, Serialize, Deserialize)]
enum Case {
    /// hist: 0..6 = (packets sent, of which acknowledged) (0,0) (1,0) (2,0) (3,0) (3,1) (3,2)
    Ack { target: Tgt, hist: u8, largest: u64, delay: u64, first: u64, ranges: Vec<(u64, u64)> },
    /// hist = number of packets received before (0, 1, 3: pn 0..hist); width in bytes
    Pn { hist: u8, width: u8, x: u32 },
    /// hist: 0 = initial id only, 1 = + (1, rpt 0), 2 = + (1, rpt 0), (2, rpt 1)
    NewCid { hist: u8, limit: u64, seq: u64, rpt: u64 },
    /// hist: 0 = fresh (0, 1 issued), 1 = set_limit(4) (0..3 issued), 2 = + RETIRE(0) (0..4 issued)
    RetireCid { hist: u8, seq: u64 },
    /// hist: 0 = limit 100, 1 = a MAX_DATA(1000) before
    MaxData { hist: u8, v: u64 },
    /// hist: 0 = nothing, 1 = the peer used its first bidi and uni stream, 2 = + one local bidi and uni opened
    Stream { server: bool, hist: u8, peer_init: bool, uni: bool, idx: u64, kind: SKind },
    MaxStreams { server: bool, uni: bool, v: u64 },
    /// hist: 0 = nothing, 1 = 3 bytes at offset 0 received; `declared`: explicit length when it differs
    Crypto { hist: u8, off: u64, payload: u8, declared: Option<u64> },
}

#[derive(Debug, Clone, Default, Serialize, Deserialize)]
struct Stage {
    name: String,
    /// "ok" | "err:<ErrorKind>" | "panic:<class>" | "undecodable:<ErrorKind>" | "refused:<why>"
    result: String,
    info: String,
    alloc: u64,
    /// wall-clock, informational only (never part of a verdict)
    micros: u64,
}

#[derive(Debug, Clone, Default, Serialize, Deserialize)]
struct Outcome {
    stages: Vec<Stage>,
    frame_bytes: u64,
    held: u64,
    state_changed: Option<bool>,
    /// frames the endpoint queued for the peer during the call
    emitted: Option<u64>,
    /// ACK reaching below packet number 0, handlers without an error channel: did the call
    /// change anything that the frame's well-formed prefix would not have changed?
    #[serde(default)]
    beyond_prefix: Option<bool>,
    note: String,
    setup_failed: Option<String>,
}

impl Outcome {
    fn stage(&self, name: &str) -> Option<&Stage> {
        self.stages.iter().find(|s| s.name == name)
    }
    fn last(&self) -> &str {
        self.stages.last().map(|s| s.result.as_str()).unwrap_or("none")
    }
}

#[derive(Debug, Clone)]
enum RunResult {
    Done(Outcome),
    Timeout { stage: Option<String>, alloc_fail: Option<u64> },
    Died { status: String, stage: Option<String>, alloc_fail: Option<u64> },
    /// the thorough-tier wall-clock cap was reached before this case ran
    Skipped,
}

fn vi(v: u64) -> VarInt {
    VarInt::from_u64(v).expect("value below 2^62")
}

fn sent_acked(hist: u8) -> (u64, u64) {
    match hist {
        0 => (0, 0),
        1 => (1, 0),
        2 => (2, 0),
        3 => (3, 0),
        4 => (3, 1),
        _ => (3, 2),
    }
}

fn kind_of(e: &Error) -> String {
    match e {
        Error::Quic(q) => format!("{:?}", q.kind()),
        _ => "App".to_string(),
    }
}

/// Runs one measured call: stage marker, allocation counter, panic capture.
fn stage<R>(
    out: &mut Outcome,
    cb: &mut dyn FnMut(&str),
    name: &str,
    f: impl FnOnce() -> R,
    show: impl FnOnce(&R) -> (String, String),
) -> Option<R> {
    cb(name);
    let t = StdInstant::now();
    let (r, alloc) = measure(|| panics::catch(f));
    let micros = t.elapsed().as_micros() as u64;
    match r {
        Ok(v) => {
            let (result, info) = show(&v);
            out.stages.push(Stage { name: name.into(), result, info, alloc, micros });
            Some(v)
        }
        Err(p) => {
            out.stages.push(Stage {
                name: name.into(),
                result: format!("panic:{}", p.class()),
                info: format!("{} at {}", p.message, p.location),
                alloc,
                micros,
            });
            None
        }
    }
}

fn one_rtt() -> qbase::packet::r#type::Type {
    qbase::packet::r#type::Type::Short(qbase::packet::r#type::short::OneRtt(qbase::packet::signal::SpinBit::Zero))
}

/// Decodes exactly one frame from `bytes` with the real `FrameReader` (a measured stage).
fn decode_stage(out: &mut Outcome, cb: &mut dyn FnMut(&str), bytes: Bytes) -> Option<Frame> {
    out.frame_bytes = bytes.len() as u64;
    let r = stage(
        out,
        cb,
        "decode",
        || {
            let mut rd = FrameReader::new(bytes, one_rtt());
            match rd.next() {
                None => Err("NoFrame".to_string()),
                Some(Err(e)) => Err(format!("{:?}", QuicError::from(e).kind())),
                Some(Ok((f, _))) => match rd.next() {
                    None => Ok(f),
                    Some(_) => Err("TrailingBytes(harness)".to_string()),
                },
            }
        },
        |r| match r {
            Ok(_) => ("ok".into(), String::new()),
            Err(k) => (format!("undecodable:{k}"), String::new()),
        },
    );
    r.and_then(|r| r.ok())
}

/// AckFrame for a non-empty set of packet numbers (the legitimate peer of the histories).
fn ack_frame_for(set: &BTreeSet<u64>) -> AckFrame {
    let mut ranges: Vec<(u64, u64)> = Vec::new();
    for &p in set.iter().rev() {
        match ranges.last_mut() {
            Some((lo, _)) if *lo == p + 1 => *lo = p,
            _ => ranges.push((p, p)),
        }
    }
    let (lo0, hi0) = ranges[0];
    let mut rest = Vec::new();
    let mut prev_lo = lo0;
    for &(lo, hi) in &ranges[1..] {
        rest.push((vi(prev_lo - hi - 2), vi(hi - lo)));
        prev_lo = lo;
    }
    AckFrame::new(vi(hi0), VarInt::from_u32(0), vi(hi0 - lo0), rest, None)
}

// ------------------------------------------------------------------------------------------
// execution of one case on the real objects
// ------------------------------------------------------------------------------------------

struct NullFeedback(AtomicU64);

impl Feedback for NullFeedback {
    fn may_loss(&self, _t: qevent::quic::recovery::PacketLostTrigger, pns: &mut dyn Iterator<Item = u64>) {
        self.0.fetch_add(pns.count() as u64, Ordering::Relaxed);
    }
}

#[derive(Clone, Default)]
struct RetireSink(Arc<Mutex<Vec<u64>>>);

impl fmt::Debug for RetireSink {
    fn fmt(&self, f: &mut fmt::Formatter<'_>) -> fmt::Result {
        write!(f, "Sink({})", self.0.lock().unwrap().len())
    }
}

impl SendFrame<RetireConnectionIdFrame> for RetireSink {
    fn send_frame<I: IntoIterator<Item = RetireConnectionIdFrame>>(&self, iter: I) {
        self.0.lock().unwrap().extend(iter.into_iter().map(|f| f.sequence()));
    }
}

#[derive(Clone, Default)]
struct NewCidSink(Arc<Mutex<Vec<NewConnectionIdFrame>>>);

impl SendFrame<NewConnectionIdFrame> for NewCidSink {
    fn send_frame<I: IntoIterator<Item = NewConnectionIdFrame>>(&self, iter: I) {
        self.0.lock().unwrap().extend(iter);
    }
}

/// Debug-printable delegate around the real `QuicRouterRegistry` (as in c14.rs).
struct Issuer(QuicRouterRegistry<NewCidSink>);

impl fmt::Debug for Issuer {
    fn fmt(&self, f: &mut fmt::Formatter<'_>) -> fmt::Result {
        f.write_str("QuicRouterRegistry")
    }
}

impl GenUniqueCid for Issuer {
    fn gen_unique_cid(&self) -> ConnectionId {
        self.0.gen_unique_cid()
    }
}

impl RetireCid for Issuer {
    fn retire_cid(&self, cid: ConnectionId) {
        self.0.retire_cid(cid)
    }
}

impl SendFrame<NewConnectionIdFrame> for Issuer {
    fn send_frame<I: IntoIterator<Item = NewConnectionIdFrame>>(&self, iter: I) {
        self.0.send_frame(iter)
    }
}

fn rcid(seq: u64) -> ConnectionId {
    let s = seq.to_be_bytes();
    ConnectionId::from_slice(&[0x80 | s[7], 0xc0, 0x4c, s[3], s[4], s[5], s[6], s[7]])
}

fn new_cid_bytes(seq: u64, rpt: u64) -> Bytes {
    let mut w = BytesMut::new();
    w.put_u8(0x18);
    w.put_varint(&vi(seq));
    w.put_varint(&vi(rpt));
    w.put_u8(8);
    w.put_slice(&rcid(seq));
    w.put_slice(&[0xa5u8; 16]);
    w.freeze()
}

fn payload(len: usize) -> Vec<u8> {
    (0..len).map(|i| 0x61 + i as u8).collect()
}

fn exec(case: &Case, clock: &Clock, cb: &mut dyn FnMut(&str)) -> Outcome {
    let mut out = Outcome::default();
    match case {
        Case::Ack { target, hist, largest, delay, first, ranges } => {
            exec_ack(clock, *target, *hist, *largest, *delay, *first, ranges, &mut out, cb)
        }
        Case::Pn { hist, width, x } => exec_pn(clock, *hist, *width, *x, &mut out, cb),
        Case::NewCid { hist, limit, seq, rpt } => exec_new_cid(*hist, *limit, *seq, *rpt, &mut out, cb),
        Case::RetireCid { hist, seq } => exec_retire_cid(*hist, *seq, &mut out, cb),
        Case::MaxData { hist, v } => exec_max_data(*hist, *v, &mut out, cb),
        Case::Stream { server, hist, peer_init, uni, idx, kind } => {
            exec_stream(*server, *hist, Some((*peer_init, *uni, *idx, *kind)), None, &mut out, cb)
        }
        Case::MaxStreams { server, uni, v } => exec_stream(*server, 0, None, Some((*uni, *v)), &mut out, cb),
        Case::Crypto { hist, off, payload, declared } => exec_crypto(*hist, *off, *payload, *declared, &mut out, cb),
    }
    out
}

fn ok_err<T>(r: &Result<T, Error>) -> (String, String) {
    match r {
        Ok(_) => ("ok".into(), String::new()),
        Err(e) => (format!("err:{}", kind_of(e)), e.to_string()),
    }
}

#[allow(clippy::too_many_arguments)]
fn exec_ack(
    clock: &Clock,
    target: Tgt,
    hist: u8,
    largest: u64,
    delay: u64,
    first: u64,
    ranges: &[(u64, u64)],
    out: &mut Outcome,
    cb: &mut dyn FnMut(&str),
) {
    let (n, a) = sent_acked(hist);
    let direct = AckFrame::new(vi(largest), vi(delay), vi(first), ranges.iter().map(|&(g, l)| (vi(g), vi(l))).collect(), None);
    let mut w = BytesMut::new();
    w.put_frame(&direct);
    let frame = match decode_stage(out, cb, w.freeze()) {
        Some(Frame::Ack(f)) => f,
        Some(other) => {
            out.note.push_str(&format!("ACK bytes decoded as {other:?}; "));
            return;
        }
        None => return,
    };
    if frame != direct {
        out.note.push_str("the decoded ACK frame differs from the one encoded; ");
    }
    let legit: Option<AckFrame> = (a > 0).then(|| ack_frame_for(&(0..a).collect()));
    // the longest well-formed prefix of the frame (None: even the first range reaches below 0)
    let negative = ack_negative(largest, first, ranges);
    let prefix: Option<AckFrame> = largest.checked_sub(first).map(|mut smallest| {
        let mut keep = Vec::new();
        for &(g, l) in ranges {
            let Some(s) = smallest.checked_sub(g).and_then(|x| x.checked_sub(2)).and_then(|x| x.checked_sub(l)) else { break };
            smallest = s;
            keep.push((vi(g), vi(l)));
        }
        AckFrame::new(vi(largest), vi(delay), vi(first), keep, None)
    });
    match target {
        Tgt::Sent => {
            let j = clock.enter(|| ArcSentJournal::<u32>::with_capacity(8));
            clock.enter(|| {
                for pn in 0..n {
                    let mut g = j.new_packet();
                    let _ = g.pn();
                    g.record_frame(pn as u32 + 1);
                    g.build_with_time(Duration::from_millis(50), Duration::from_millis(200));
                }
            });
            clock.advance(Duration::from_millis(10));
            if let Some(l) = &legit {
                clock.enter(|| {
                    let mut g = j.rotate();
                    g.update_largest(l).expect("legit ack");
                    for pn in l.iter().flat_map(|r| r.rev()).collect::<Vec<_>>() {
                        let _ = g.on_packet_acked(pn).count();
                    }
                });
            }
            out.held = n;
            let before = dump(&j);
            // the call sequence of qconnection::space::Ack{Initial,Handshake,Data}Space::recv_frame
            stage(
                out,
                cb,
                "call",
                || {
                    clock.enter(|| {
                        let mut rotate_guard = j.rotate();
                        rotate_guard.update_largest(&frame)?;
                        let acked = frame.iter().flat_map(|r| r.rev()).collect::<Vec<_>>();
                        let mut delivered = 0u64;
                        let mut numbers = 0u64;
                        for pn in acked {
                            numbers += 1;
                            for _frame in rotate_guard.on_packet_acked(pn) {
                                delivered += 1;
                            }
                        }
                        Ok::<(u64, u64), QuicError>((numbers, delivered))
                    })
                },
                |r| match r {
                    Ok((numbers, d)) => ("ok".into(), format!("{numbers} numbers walked, {d} frames reported delivered")),
                    Err(e) => (format!("err:{:?}", e.kind()), e.to_string()),
                },
            );
            out.state_changed = Some(before != dump(&j));
        }
        Tgt::Rcvd => {
            // two identical journals: `j` gets the frame, `twin` gets its well-formed prefix
            let build = || {
                let j = clock.enter(|| ArcRcvdJournal::with_capacity(8, Some(Duration::from_millis(25))));
                clock.enter(|| {
                    if n > 0 {
                        for pn in 0..3u64 {
                            let d = j.decode_pn(PacketNumber::encode(pn, 0)).expect("fresh pn");
                            j.on_rcvd_pn(d, true, PTO);
                        }
                        // our packets 0..n each carried an ACK frame for 0..=2
                        for k in 0..n {
                            j.gen_ack_frame_util(k, 2, tokio::time::Instant::now(), 1200).expect("ack fits");
                        }
                    }
                });
                j
            };
            let (j, twin) = (build(), build());
            clock.advance(Duration::from_millis(10));
            if let Some(l) = &legit {
                clock.enter(|| {
                    j.on_rcvd_ack(l);
                    twin.on_rcvd_ack(l);
                });
            }
            out.held = if n > 0 { 3 + n } else { 0 };
            let before = canon_dump(&j);
            let returned = stage(out, cb, "call", || clock.enter(|| j.on_rcvd_ack(&frame)), |_| ("ok".into(), String::new())).is_some();
            let after = canon_dump(&j);
            out.state_changed = Some(before != after);
            if returned && negative {
                if let Some(p) = &prefix {
                    clock.enter(|| twin.on_rcvd_ack(p));
                }
                let want = canon_dump(&twin);
                out.beyond_prefix = Some(after != want);
                if after != want {
                    out.note.push_str(&format!("journal after the frame: {after} — after its well-formed prefix: {want}; "));
                }
            }
        }
        Tgt::Cc => {
            let fb = Arc::new(NullFeedback(AtomicU64::new(0)));
            // construction as in qconnection::path::Path::new
            let build = || {
                let trackers: [Arc<dyn Feedback>; 3] = [fb.clone(), fb.clone(), fb.clone()];
                clock.enter(|| {
                    let pmtu = Arc::new(AtomicU16::new(qcongestion::MSS as u16));
                    let status = PathStatus::new(Arc::new(HandshakeStatus::new(false)), pmtu);
                    let cc = ArcCC::new(Algorithm::NewReno, Duration::from_millis(25), trackers, status, ArcSendWaker::new());
                    cc.grant_anti_amplification();
                    cc
                })
            };
            let (cc, twin) = (build(), build());
            for pn in 0..n {
                clock.enter(|| {
                    cc.on_pkt_sent(Epoch::Data, pn, true, 1200, true, None);
                    twin.on_pkt_sent(Epoch::Data, pn, true, 1200, true, None);
                });
                clock.advance(Duration::from_millis(1));
            }
            clock.advance(Duration::from_millis(10));
            if let Some(l) = &legit {
                clock.enter(|| {
                    cc.on_ack_rcvd(Epoch::Data, l);
                    twin.on_ack_rcvd(Epoch::Data, l);
                });
            }
            out.held = n;
            let lost_before = fb.0.load(Ordering::Relaxed);
            let returned = stage(
                out,
                cb,
                "call",
                || clock.enter(|| cc.on_ack_rcvd(Epoch::Data, &frame)),
                |_| ("ok".into(), format!("{} packets declared lost", fb.0.load(Ordering::Relaxed) - lost_before)),
            )
            .is_some();
            if returned && negative {
                // with an empty prefix the twin sees nothing: Largest Acknowledged itself is not a
                // negative number, so that one field is left out of the comparison then
                if let Some(p) = &prefix {
                    clock.enter(|| twin.on_ack_rcvd(Epoch::Data, p));
                }
                let project = |c: &ArcCC| {
                    let s = c.verif_snapshot();
                    let d = &s.spaces[Epoch::Data];
                    format!(
                        "cwnd {} ssthresh {} in_flight {} rtt({:?} {:?} {:?} {:?} {}) largest_acked {:?} packets {:?}",
                        s.cwnd,
                        s.ssthresh,
                        s.bytes_in_flight,
                        s.latest_rtt,
                        s.smoothed_rtt,
                        s.rttvar,
                        s.min_rtt,
                        s.has_rtt_sample,
                        if prefix.is_some() { d.largest_acked_packet } else { None },
                        d.sent_packets.iter().map(|p| (p.packet_number, p.state)).collect::<Vec<_>>()
                    )
                };
                let (got, want) = clock.enter(|| (project(&cc), project(&twin)));
                out.beyond_prefix = Some(got != want);
                if got != want {
                    out.note.push_str(&format!("controller after the frame: {got} — after its well-formed prefix: {want}; "));
                }
            }
        }
    }
}

fn exec_pn(clock: &Clock, hist: u8, width: u8, x: u32, out: &mut Outcome, cb: &mut dyn FnMut(&str)) {
    let enc = match width {
        1 => PacketNumber::U8(x as u8),
        2 => PacketNumber::U16(x as u16),
        3 => PacketNumber::U24(x & 0xff_ffff),
        _ => PacketNumber::U32(x),
    };
    let j = clock.enter(|| ArcRcvdJournal::with_capacity(8, Some(Duration::from_millis(25))));
    clock.enter(|| {
        for pn in 0..hist as u64 {
            let d = j.decode_pn(PacketNumber::encode(pn, 0)).expect("fresh pn");
            j.on_rcvd_pn(d, true, PTO);
        }
    });
    clock.advance(Duration::from_millis(1));
    out.held = hist as u64;
    // 1 flag byte + 8 byte DCID + pn + 16 byte tag: the smallest short-header packet that decrypts
    out.frame_bytes = 25 + width as u64;
    let r = stage(out, cb, "decode_pn", || clock.enter(|| j.decode_pn(enc)), |r| match r {
        Ok(pn) => ("ok".into(), format!("pn {pn}")),
        Err(e) => (format!("refused:{e:?}"), String::new()),
    });
    let Some(Ok(pn)) = r else { return };
    let now = clock.now();
    if stage(out, cb, "on_rcvd_pn", || clock.enter(|| j.on_rcvd_pn(pn, true, PTO)), |_| ("ok".into(), String::new())).is_none() {
        return;
    }
    stage(out, cb, "gen_ack", || clock.enter(|| j.gen_ack_frame_util(100, pn, now, 1200)), |r| match r {
        Ok(f) => ("ok".into(), format!("{} ranges", f.ranges().len() + 1)),
        Err(_) => ("refused:no-room".into(), String::new()),
    });
}

fn exec_new_cid(hist: u8, limit: u64, seq: u64, rpt: u64, out: &mut Outcome, cb: &mut dyn FnMut(&str)) {
    let sink = RetireSink::default();
    // builder.rs: ArcRemoteCids::new(local active_connection_id_limit, reliable_frames)
    let remote = ArcRemoteCids::new(limit, sink.clone());
    let cell = remote.apply_dcid();
    remote.apply_initial_dcid(rcid(0), &cell);
    let legit: &[(u64, u64)] = match hist {
        0 => &[],
        1 => &[(1, 0)],
        _ => &[(1, 0), (2, 1)],
    };
    for &(s, r) in legit {
        match FrameReader::new(new_cid_bytes(s, r), one_rtt()).next() {
            Some(Ok((Frame::NewConnectionId(f), _))) => {
                remote.recv_frame(f).expect("legit NEW_CONNECTION_ID");
            }
            _ => panic!("legit NEW_CONNECTION_ID did not decode"),
        }
    }
    out.held = 2 + legit.len() as u64;
    let frame = match decode_stage(out, cb, new_cid_bytes(seq, rpt)) {
        Some(Frame::NewConnectionId(f)) => f,
        Some(other) => {
            out.note.push_str(&format!("decoded as {other:?}; "));
            return;
        }
        None => return,
    };
    let before = dump(&remote);
    let queued = sink.0.lock().unwrap().len();
    stage(out, cb, "call", || remote.recv_frame(frame), |r| ok_err(r));
    out.emitted = Some((sink.0.lock().unwrap().len() - queued) as u64);
    out.state_changed = Some(before != dump(&remote));
    drop(cell);
}

fn exec_retire_cid(hist: u8, seq: u64, out: &mut Outcome, cb: &mut dyn FnMut(&str)) {
    // construction as in qconnection::builder (see c14.rs)
    let router = Arc::new(QuicRouter::new());
    let queue = Arc::new(RcvdPacketQueue::new());
    let sink = NewCidSink::default();
    let registry = router.registry_on_issuing_scid(queue, sink.clone());
    let scid = registry.gen_unique_cid();
    let local = ArcLocalCids::new(scid, Issuer(registry));
    if hist >= 1 {
        local.set_limit(4).expect("legal limit");
    }
    if hist >= 2 {
        local.recv_frame(RetireConnectionIdFrame::new(vi(0))).expect("legit RETIRE_CONNECTION_ID");
    }
    out.held = sink.0.lock().unwrap().len() as u64 + 1;
    let mut w = BytesMut::new();
    w.put_u8(0x19);
    w.put_varint(&vi(seq));
    let frame = match decode_stage(out, cb, w.freeze()) {
        Some(Frame::RetireConnectionId(f)) => f,
        Some(other) => {
            out.note.push_str(&format!("decoded as {other:?}; "));
            return;
        }
        None => return,
    };
    let before = dump(&local);
    let queued = sink.0.lock().unwrap().len();
    stage(out, cb, "call", || local.recv_frame(frame), |r| ok_err(r));
    out.emitted = Some((sink.0.lock().unwrap().len() - queued) as u64);
    out.state_changed = Some(before != dump(&local));
}

fn exec_max_data(hist: u8, v: u64, out: &mut Outcome, cb: &mut dyn FnMut(&str)) {
    let wakers = ArcSendWakers::default();
    let reliable = ArcReliableFrameDeque::with_capacity_and_wakers(8, wakers.clone());
    let flow = FlowController::new(100, 100, reliable, wakers);
    if hist >= 1 {
        flow.sender.recv_frame(qbase::frame::MaxDataFrame::new(vi(1000))).expect("legit MAX_DATA");
    }
    let mut w = BytesMut::new();
    w.put_u8(0x10);
    w.put_varint(&vi(v));
    let frame = match decode_stage(out, cb, w.freeze()) {
        Some(Frame::MaxData(f)) => f,
        Some(other) => {
            out.note.push_str(&format!("decoded as {other:?}; "));
            return;
        }
        None => return,
    };
    let before = dump(&flow.sender);
    stage(out, cb, "call", || flow.sender.recv_frame(frame), |r| ok_err(r));
    out.state_changed = Some(before != dump(&flow.sender));
}

fn stream_bytes(sid: StreamId, kind: SKind) -> Bytes {
    let mut w = BytesMut::new();
    let id = vi(u64::from(sid));
    match kind {
        SKind::Data { off, len, fin, declared } => {
            // STREAM with OFF and LEN bits
            w.put_u8(0x08 | 0x04 | 0x02 | fin as u8);
            w.put_varint(&id);
            w.put_varint(&vi(off));
            w.put_varint(&vi(declared.unwrap_or(len as u64)));
            w.put_slice(&payload(len as usize));
        }
        SKind::Reset { final_size, code } => {
            w.put_u8(0x04);
            w.put_varint(&id);
            w.put_varint(&vi(code));
            w.put_varint(&vi(final_size));
        }
        SKind::Stop { code } => {
            w.put_u8(0x05);
            w.put_varint(&id);
            w.put_varint(&vi(code));
        }
        SKind::MaxStreamData { v } => {
            w.put_u8(0x11);
            w.put_varint(&id);
            w.put_varint(&vi(v));
        }
    }
    w.freeze()
}

fn exec_stream(
    server: bool,
    hist: u8,
    stream: Option<(bool, bool, u64, SKind)>,
    max_streams: Option<(bool, u64)>,
    out: &mut Outcome,
    cb: &mut dyn FnMut(&str),
) {
    let cfg = Cfg {
        client: SideCfg::roomy(),
        server: SideCfg::roomy(),
        cap: 1200,
        demand_concurrency: false,
        scripts: [vec![], vec![]],
        read_caps: vec![],
        max_packets: 0,
    };
    let role = if server { Role::Server } else { Role::Client };
    let peer = if server { Role::Client } else { Role::Server };
    let mut ep = Endpoint::new(role, &cfg);
    if hist >= 1 {
        for dir in [Dir::Bi, Dir::Uni] {
            let f = qbase::frame::StreamFrame::new(StreamId::new(peer, dir, 0), 0, 1);
            ep.peer_stream(f, Bytes::from_static(b"a")).expect("legit STREAM");
        }
        out.held += 2;
    }
    if hist >= 2 {
        out.held += ep.open(true).is_some() as u64;
        out.held += ep.open(false).is_some() as u64;
    }
    let bytes = match (stream, max_streams) {
        (Some((peer_init, uni, idx, kind)), _) => {
            let sid = StreamId::new(if peer_init { peer } else { role }, if uni { Dir::Uni } else { Dir::Bi }, idx);
            stream_bytes(sid, kind)
        }
        (None, Some((uni, v))) => {
            let mut w = BytesMut::new();
            w.put_u8(if uni { 0x13 } else { 0x12 });
            w.put_varint(&vi(v));
            w.freeze()
        }
        (None, None) => unreachable!(),
    };
    let Some(frame) = decode_stage(out, cb, bytes) else { return };
    let before = dump(ep.streams());
    match frame {
        Frame::Stream(f, data) => {
            stage(out, cb, "call", || ep.peer_stream(f, data), |r| ok_err(r));
        }
        Frame::StreamCtl(f) => {
            stage(out, cb, "call", || ep.peer_ctl(f), |r| ok_err(r));
        }
        other => {
            out.note.push_str(&format!("decoded as {other:?}; "));
            return;
        }
    }
    out.state_changed = Some(before != dump(ep.streams()));
}

fn exec_crypto(hist: u8, off: u64, len: u8, declared: Option<u64>, out: &mut Outcome, cb: &mut dyn FnMut(&str)) {
    let cs = CryptoStream::new(ArcSendWakers::default());
    let incoming = cs.incoming();
    if hist >= 1 {
        incoming.recv_frame((CryptoFrame::new(vi(0), vi(3)), Bytes::from_static(b"abc"))).expect("legit CRYPTO");
        out.held = 1;
    }
    let mut w = BytesMut::new();
    w.put_u8(0x06);
    w.put_varint(&vi(off));
    w.put_varint(&vi(declared.unwrap_or(len as u64)));
    w.put_slice(&payload(len as usize));
    let (f, data) = match decode_stage(out, cb, w.freeze()) {
        Some(Frame::Crypto(f, d)) => (f, d),
        Some(other) => {
            out.note.push_str(&format!("decoded as {other:?}; "));
            return;
        }
        None => return,
    };
    let before = dump(&cs);
    stage(out, cb, "call", || incoming.recv_frame((f, data)), |r| ok_err(r));
    out.state_changed = Some(before != dump(&cs));
}

// ------------------------------------------------------------------------------------------
// classification and oracle
// ------------------------------------------------------------------------------------------

fn sub_of(case: &Case) -> &'static str {
    match case {
        Case::Ack { target: Tgt::Sent, .. } => "ack-sent",
        Case::Ack { target: Tgt::Rcvd, .. } => "ack-rcvd",
        Case::Ack { target: Tgt::Cc, .. } => "ack-cc",
        Case::Pn { .. } => "pn",
        Case::NewCid { .. } => "new-cid",
        Case::RetireCid { .. } => "retire-cid",
        Case::MaxData { .. } => "max-data",
        Case::Stream { .. } | Case::MaxStreams { .. } => "streams",
        Case::Crypto { .. } => "crypto",
    }
}

/// The packet number a width/value pair decodes to after `hist` packets (pure arithmetic of
/// the crate's own decoder; used for the dry classification only).
fn dry_pn(hist: u8, width: u8, x: u32) -> Option<u64> {
    let enc = match width {
        1 => PacketNumber::U8(x as u8),
        2 => PacketNumber::U16(x as u16),
        3 => PacketNumber::U24(x & 0xff_ffff),
        _ => PacketNumber::U32(x),
    };
    panics::catch(|| enc.decode(hist as u64)).ok()
}

/// Names of the fields that exceed what the endpoint holds by ≥ 10^6 (the "far" fields). A case
/// with a far field never runs in this process. (The ACK Delay field is a duration, it relates
/// to no record; it is not classified.)
fn far_fields(case: &Case) -> Vec<&'static str> {
    let mut v = Vec::new();
    let mut add = |name: &'static str, val: u64, state: u64| {
        if val >= state.saturating_add(FAR) && !v.contains(&name) {
            v.push(name);
        }
    };
    match case {
        Case::Ack { hist, largest, first, ranges, .. } => {
            let (n, _) = sent_acked(*hist);
            add("largest", *largest, n);
            add("first_range", *first, n);
            for (g, l) in ranges {
                add("gap", *g, n);
                add("range_length", *l, n);
            }
        }
        Case::Pn { hist, width, x } => match dry_pn(*hist, *width, *x) {
            Some(pn) => add("jump", pn, *hist as u64),
            None => v.push("undecodable-pn"),
        },
        Case::NewCid { hist, seq, rpt, .. } => {
            add("seq", *seq, *hist as u64 + 1);
            if rpt > seq {
                add("retire_prior_to", *rpt, *hist as u64 + 1);
            }
        }
        Case::RetireCid { seq, .. } => add("seq", *seq, 5),
        Case::MaxData { v: val, .. } => add("value", *val, 1000),
        Case::Stream { idx, kind, .. } => {
            add("index", *idx, STREAM_COUNT);
            match kind {
                SKind::Data { off, declared, .. } => {
                    add("offset", *off, STREAM_LIMIT);
                    add("length", declared.unwrap_or(0), STREAM_LIMIT);
                }
                SKind::Reset { final_size, code } => {
                    add("final_size", *final_size, STREAM_LIMIT);
                    add("code", *code, 0);
                }
                SKind::Stop { code } => add("code", *code, 0),
                SKind::MaxStreamData { v: val } => add("value", *val, STREAM_LIMIT),
            }
        }
        Case::MaxStreams { v: val, .. } => add("value", *val, STREAM_COUNT),
        Case::Crypto { off, declared, .. } => {
            add("offset", *off, 3);
            add("length", declared.unwrap_or(0), 3);
        }
    }
    v
}

fn field_class(case: &Case) -> String {
    let f = far_fields(case);
    if f.is_empty() { "moderate-values".to_string() } else { format!("far-{}", f.join("+")) }
}

fn max_field(case: &Case) -> u64 {
    match case {
        Case::Ack { largest, first, ranges, .. } => ranges.iter().fold(*largest.max(first), |m, (g, l)| m.max(*g).max(*l)),
        Case::Pn { hist, width, x } => dry_pn(*hist, *width, *x).unwrap_or(0),
        Case::NewCid { seq, rpt, .. } => *seq.max(rpt),
        Case::RetireCid { seq, .. } => *seq,
        Case::MaxData { v, .. } | Case::MaxStreams { v, .. } => *v,
        Case::Stream { idx, kind, .. } => (*idx).max(match kind {
            SKind::Data { off, declared, .. } => (*off).max(declared.unwrap_or(0)),
            SKind::Reset { final_size, code } => *final_size.max(code),
            SKind::Stop { code } => *code,
            SKind::MaxStreamData { v } => *v,
        }),
        Case::Crypto { off, declared, .. } => (*off).max(declared.unwrap_or(0)),
    }
}

/// What drives the cost of a case (witness choice only): for an ACK frame the count of numbers
/// its ranges span, otherwise the largest field.
fn magnitude(case: &Case) -> u64 {
    match case {
        Case::Ack { first, ranges, .. } => ranges.iter().fold(*first, |m, (_, l)| m.saturating_add(*l)),
        _ => max_field(case),
    }
}

/// What the RFC demands for one case.
#[derive(Debug, Default)]
struct Expect {
    clause: String,
    /// the frame must not survive decoding (FRAME_ENCODING_ERROR from the frame reader);
    /// if the reader lets it through, the handler must produce FrameEncoding
    undecodable: bool,
    /// acceptable error kinds; empty = the statement demands nothing about the verdict
    must_err: Vec<&'static str>,
}

/// Does the ACK frame compute a negative packet number? (RFC 9000 §19.3.1)
fn ack_negative(largest: u64, first: u64, ranges: &[(u64, u64)]) -> bool {
    let Some(mut smallest) = largest.checked_sub(first) else { return true };
    for &(g, l) in ranges {
        let Some(next_largest) = smallest.checked_sub(g).and_then(|x| x.checked_sub(2)) else { return true };
        let Some(s) = next_largest.checked_sub(l) else { return true };
        smallest = s;
    }
    false
}

fn expect(case: &Case) -> Expect {
    let mut e = Expect::default();
    match case {
        Case::Ack { target, hist, largest, first, ranges, .. } => {
            let (n, _) = sent_acked(*hist);
            let mut clauses = Vec::new();
            // RFC 9000 §13.1: an acknowledgment for a packet the endpoint did not send is a
            // connection error of type PROTOCOL_VIOLATION
            if *largest >= n {
                clauses.push(if *largest == n { "never-sent-largest-equals-next-unsent" } else { "never-sent-largest-beyond-next-unsent" });
                e.must_err.push("ProtocolViolation");
            }
            // RFC 9000 §19.3.1: "If any computed packet number is negative, an endpoint MUST
            // generate a connection error of type FRAME_ENCODING_ERROR"
            // RFC 9000 §19.3.1: "If any computed packet number is negative, an endpoint MUST
            // generate a connection error of type FRAME_ENCODING_ERROR". Such frames decode; the
            // verdict is produced by update_largest in the Ack*Space call sequence.
            if ack_negative(*largest, *first, ranges) {
                clauses.push("negative-packet-number");
                e.must_err.push("FrameEncoding");
            }
            e.clause = if clauses.is_empty() { "valid".into() } else { clauses.join("+") };
            if *target != Tgt::Sent {
                // on_rcvd_ack / cc.on_ack_rcvd have no error channel: cost, panics and "does not
                // act on negative numbers" (Outcome::beyond_prefix) are judged
                e.must_err.clear();
            }
        }
        Case::Pn { .. } => e.clause = "any".into(),
        Case::NewCid { hist, limit, seq, rpt } => {
            if rpt > seq {
                // RFC 9000 §19.15: Retire Prior To greater than Sequence Number is a
                // FRAME_ENCODING_ERROR
                e.clause = "retire-prior-to-above-seq".into();
                e.undecodable = true;
                e.must_err.push("FrameEncoding");
            } else {
                // RFC 9000 §5.1.1: after adding and retiring, more active ids than
                // active_connection_id_limit ⇒ CONNECTION_ID_LIMIT_ERROR
                let (mut received, p): (BTreeSet<u64>, u64) = match hist {
                    0 => ([0].into(), 0),
                    1 => ([0, 1].into(), 0),
                    _ => ([0, 1, 2].into(), 1),
                };
                received.insert(*seq);
                let p2 = p.max(*rpt);
                let active = received.iter().filter(|s| **s >= p2).count() as u64;
                if active > *limit {
                    e.clause = "over-active-connection-id-limit".into();
                    e.must_err.push("ConnectionIdLimit");
                } else {
                    e.clause = "within-limit".into();
                }
            }
        }
        Case::RetireCid { hist, seq } => {
            let next = [2u64, 4, 5][(*hist).min(2) as usize];
            if *seq >= next {
                // RFC 9000 §19.16: a sequence number greater than any previously sent ⇒
                // PROTOCOL_VIOLATION
                e.clause = "never-issued".into();
                e.must_err.push("ProtocolViolation");
            } else {
                e.clause = "issued".into();
            }
        }
        Case::MaxData { .. } => e.clause = "any".into(),
        Case::MaxStreams { v, .. } => {
            // RFC 9000 §4.6 / §19.11: a MAX_STREAMS value above 2^60 ⇒ FRAME_ENCODING_ERROR
            if *v > 1 << 60 {
                e.clause = "above-2^60".into();
                e.undecodable = true;
                e.must_err.push("FrameEncoding");
            } else if *v == 1 << 60 {
                e.clause = "exactly-2^60(legal)".into();
            } else {
                e.clause = "legal".into();
            }
        }
        Case::Stream { hist, peer_init, uni, idx, kind, .. } => {
            let peer_sends = matches!(kind, SKind::Data { .. } | SKind::Reset { .. });
            if let SKind::Data { off, len, declared, .. } = kind {
                if declared.is_some_and(|d| d != *len as u64) {
                    // the frame announces more bytes than the packet holds (RFC 9000 §12.4 / §19.8)
                    e.clause = "length-beyond-packet".into();
                    e.undecodable = true;
                    e.must_err.push("FrameEncoding");
                    return e;
                }
                if off + *len as u64 > VMAX {
                    // RFC 9000 §19.8: offset + length beyond 2^62-1 ⇒ FRAME_ENCODING_ERROR or
                    // FLOW_CONTROL_ERROR
                    e.clause = "offset-beyond-2^62".into();
                    e.undecodable = true;
                    e.must_err.extend(["FrameEncoding", "FlowControl"]);
                    return e;
                }
            }
            // RFC 9000 §19.4/19.5/19.8/19.10: wrong direction ⇒ STREAM_STATE_ERROR
            let wrong_dir = *uni && (peer_sends != *peer_init);
            if wrong_dir {
                e.clause = "wrong-direction".into();
                e.must_err.push("StreamState");
            }
            // RFC 9000 §4.6: stream id beyond the advertised count ⇒ STREAM_LIMIT_ERROR
            if *peer_init && *idx >= STREAM_COUNT {
                e.clause = if wrong_dir { "wrong-direction+beyond-stream-count".into() } else { "beyond-stream-count".into() };
                e.must_err.push("StreamLimit");
            }
            if !e.must_err.is_empty() {
                return e;
            }
            let opened = if *hist >= 2 { 1 } else { 0 };
            if !*peer_init && *idx >= opened {
                e.clause = "local-not-created".into();
                return e;
            }
            let had = if *peer_init && *idx == 0 && *hist >= 1 { 1 } else { 0 };
            match kind {
                SKind::Data { off, len, .. } => {
                    // RFC 9000 §4.1: data beyond the advertised stream limit ⇒ FLOW_CONTROL_ERROR
                    if off + *len as u64 > STREAM_LIMIT {
                        e.clause = "beyond-stream-flow-limit".into();
                        e.must_err.push("FlowControl");
                    } else {
                        e.clause = "within-limits".into();
                    }
                }
                SKind::Reset { final_size, .. } => {
                    if *final_size < had {
                        // RFC 9000 §4.5
                        e.clause = "reset-below-received".into();
                        e.must_err.push("FinalSize");
                    } else if *final_size > STREAM_LIMIT {
                        e.clause = "reset-beyond-stream-flow-limit".into();
                        e.must_err.push("FlowControl");
                    } else {
                        e.clause = "within-limits".into();
                    }
                }
                _ => e.clause = "any-value-legal".into(),
            }
        }
        Case::Crypto { off, payload, declared, .. } => {
            if declared.is_some_and(|d| d != *payload as u64) {
                e.clause = "length-beyond-packet".into();
                e.undecodable = true;
                e.must_err.push("FrameEncoding");
            } else if off + *payload as u64 > VMAX {
                // RFC 9000 §19.6: offset + length beyond 2^62-1 ⇒ FRAME_ENCODING_ERROR or
                // CRYPTO_BUFFER_EXCEEDED
                e.clause = "offset-beyond-2^62".into();
                e.undecodable = true;
                e.must_err.extend(["FrameEncoding", "CryptoBufferExceeded"]);
            } else {
                e.clause = "any-offset".into();
            }
        }
    }
    e
}

/// `/rustc/<commit hash>/library/…` → `library/…` (the hash changes with the toolchain).
fn strip_toolchain(class: &str) -> String {
    match class.strip_prefix("/rustc/") {
        Some(rest) => rest.split_once('/').map(|(_, r)| r.to_string()).unwrap_or_else(|| class.to_string()),
        None => class.to_string(),
    }
}

struct Viol {
    sig: String,
    detail: String,
}

fn alloc_bound(o: &Outcome) -> u64 {
    64 * 1024 + 256 * (o.frame_bytes + o.held)
}

/// (outcome class for the statistics, violations)
fn judge(case: &Case, res: &RunResult, profile: &str) -> (String, Vec<Viol>) {
    let sub = sub_of(case);
    let exp = expect(case);
    let multi = matches!(case, Case::Pn { .. });
    let cost_sig = |stage: &str| {
        if multi || stage == "decode" { format!("cost/{sub}/{stage}/{}", field_class(case)) } else { format!("cost/{sub}/{}", field_class(case)) }
    };
    let mut v = Vec::new();
    let o = match res {
        RunResult::Skipped => return ("skipped".into(), v),
        RunResult::Timeout { stage, alloc_fail } => {
            let Some(stage) = stage else {
                v.push(Viol { sig: format!("machinery/c04-child-stuck-in-setup/{sub}"), detail: format!("[{profile}] {case:?}: the child did not reach the measured call within the watchdog (twice)") });
                return ("machinery".into(), v);
            };
            v.push(Viol {
                sig: cost_sig(stage),
                detail: format!(
                    "[{profile}] {case:?}: `{stage}` did not return within the 3 s watchdog (child killed{})",
                    alloc_fail.map(|n| format!("; an allocation of {n} bytes had failed")).unwrap_or_default()
                ),
            });
            return (format!("{}->killed", exp.clause), v);
        }
        RunResult::Died { status, stage, alloc_fail } => {
            let Some(stage) = stage else {
                v.push(Viol { sig: format!("machinery/c04-child-died-in-setup/{sub}"), detail: format!("[{profile}] {case:?}: child ended with {status} before the measured call") });
                return ("machinery".into(), v);
            };
            v.push(Viol {
                sig: cost_sig(stage),
                detail: format!(
                    "[{profile}] {case:?}: the process died in `{stage}` ({status}{}) under a 2 GiB address-space limit",
                    alloc_fail.map(|n| format!("; memory allocation of {n} bytes failed")).unwrap_or_default()
                ),
            });
            return (format!("{}->died", exp.clause), v);
        }
        RunResult::Done(o) => o,
    };
    if let Some(m) = &o.setup_failed {
        v.push(Viol { sig: format!("machinery/c04-setup-failed/{sub}"), detail: format!("[{profile}] {case:?}: {m}") });
        return ("machinery".into(), v);
    }
    let bound = alloc_bound(o);
    let mut panicked = false;
    for s in &o.stages {
        if let Some(class) = s.result.strip_prefix("panic:") {
            panicked = true;
            let class = strip_toolchain(class);
            v.push(Viol { sig: format!("panic/{class}"), detail: format!("[{profile}] {sub} {case:?}: `{}` panicked: {}", s.name, s.info) });
        }
        if s.alloc > bound {
            v.push(Viol {
                sig: cost_sig(&s.name),
                detail: format!(
                    "[{profile}] {case:?}: `{}` allocated {} bytes (≈{} ms) for a frame of {} bytes with {} records held; bound {} bytes{}",
                    s.name,
                    s.alloc,
                    s.micros / 1000,
                    o.frame_bytes,
                    o.held,
                    bound,
                    o.emitted.map(|n| format!("; {n} frames queued for the peer")).unwrap_or_default()
                ),
            });
        }
    }
    let decode = o.stage("decode").map(|s| s.result.as_str());
    let call = o.stage("call").map(|s| s.result.as_str());
    let final_result = match (decode, call) {
        (Some(d), _) if d.starts_with("undecodable:") => d.to_string(),
        (_, Some(c)) => c.to_string(),
        _ => o.last().to_string(),
    };
    let class = format!("{}->{}", exp.clause, if final_result.starts_with("panic:") { "panic" } else { &final_result });
    if panicked {
        return (class, v);
    }
    if o.beyond_prefix == Some(true) {
        v.push(Viol {
            sig: format!("verdict/{sub}/acted-on-negative-packet-number"),
            detail: format!("[{profile}] {case:?}: the frame reaches below packet number 0 and changed more than its well-formed prefix does: {}", o.note),
        });
    }
    if !exp.must_err.is_empty() {
        let got_kind = final_result.strip_prefix("undecodable:").or(final_result.strip_prefix("err:"));
        let fine = match got_kind {
            Some(k) => exp.must_err.contains(&k),
            None => false,
        };
        if !fine {
            v.push(Viol {
                sig: format!("verdict/{sub}/{}/got-{}", exp.clause, got_kind.unwrap_or("accepted")),
                detail: format!("[{profile}] {case:?}: expected {:?}, got `{final_result}` ({})", exp.must_err, o.stage("call").map(|s| s.info.as_str()).unwrap_or("")),
            });
        } else if final_result.starts_with("err:") && o.state_changed == Some(true) && sub != "streams" {
            // (streams: the stream record is created / taken out of the table before the frame's
            // numbers are checked and the connection is closing anyway — counted, not judged)
            v.push(Viol {
                sig: format!("verdict/{sub}/{}/state-changed-although-rejected", exp.clause),
                detail: format!("[{profile}] {case:?}: rejected with `{final_result}` but the Debug dump of the object differs before/after"),
            });
        }
    }
    (class, v)
}

// ------------------------------------------------------------------------------------------
// enumeration
// ------------------------------------------------------------------------------------------

fn uniq(mut v: Vec<u64>) -> Vec<u64> {
    v.retain(|x| *x <= VMAX);
    v.sort();
    v.dedup();
    v
}

fn rel(x: u64) -> Vec<u64> {
    [x.checked_sub(1), Some(x), x.checked_add(1)].into_iter().flatten().collect()
}

fn b_near() -> Vec<u64> {
    B.iter().copied().filter(|v| *v < FAR).collect()
}

fn b_far(thorough: bool) -> Vec<u64> {
    if thorough { B.iter().copied().filter(|v| *v >= FAR).collect() } else { vec![1 << 30, VMAX] }
}

fn b_all(thorough: bool) -> Vec<u64> {
    let mut v = b_near();
    v.extend(b_far(thorough));
    v
}

fn cases_ack(target: Tgt, thorough: bool) -> Vec<Case> {
    let mut out = Vec::new();
    let hists: Vec<u8> = if thorough { (0..6).collect() } else { vec![0, 1, 3, 4] };
    let far_hists: &[u8] = match (thorough, target) {
        (true, _) => &[0, 2, 3, 4],
        (false, Tgt::Sent) => &[0, 4],
        // every far case that iterates costs a 3 s watchdog: one history in the quick tier
        (false, _) => &[4],
    };
    for &hist in &hists {
        let (n, a) = sent_acked(hist);
        let far_ok = far_hists.contains(&hist);
        let is_near = |x: u64| x < n + FAR;
        let mut push = |largest: u64, delay: u64, first: u64, ranges: Vec<(u64, u64)>| {
            out.push(Case::Ack { target, hist, largest, delay, first, ranges });
        };
        let mut ls = b_near();
        ls.extend(rel(n));
        ls.extend(rel(a));
        ls.extend(n.checked_sub(2));
        if far_ok {
            ls.extend(b_far(thorough));
        }
        for &l in &uniq(ls) {
            let mut fs = b_near();
            fs.extend(rel(l));
            if far_ok {
                fs.extend(b_far(thorough));
            }
            let mut fs = uniq(fs);
            if !far_ok {
                fs.retain(|f| is_near(*f));
            }
            for &f in &fs {
                let near = is_near(l) && is_near(f);
                let delays: &[u64] = match (near, thorough) {
                    (true, true) => &[0, 16384, VMAX],
                    (true, false) => &[0, VMAX],
                    _ => &[0],
                };
                for &d in delays {
                    push(l, d, f, vec![]);
                }
                if !near {
                    continue;
                }
                // one further range
                let Some(smallest) = l.checked_sub(f) else {
                    push(l, 0, f, vec![(0, 0)]);
                    continue;
                };
                let mut gs = vec![0, 1, 63, 16384, smallest];
                gs.extend(smallest.checked_sub(2));
                gs.extend(smallest.checked_sub(1));
                for &g in &uniq(gs) {
                    let next_largest = smallest.checked_sub(g).and_then(|x| x.checked_sub(2));
                    let mut lens = vec![0, 1, 64, 16384];
                    if let Some(nl) = next_largest {
                        lens.extend(rel(nl));
                    }
                    for &len in &uniq(lens) {
                        push(l, 0, f, vec![(g, len)]);
                    }
                }
                // two further ranges, around the numbers that exist
                if rel(n).contains(&l) || n.checked_sub(2) == Some(l) || l == 63 || l == 64 {
                    for (g1, l1) in [(0u64, 0u64), (1, 0)] {
                        let Some(s2) = smallest.checked_sub(g1 + 2 + l1) else { continue };
                        let mut g2s = vec![0, 1];
                        g2s.extend(s2.checked_sub(2));
                        g2s.extend(s2.checked_sub(1));
                        for &g2 in &uniq(g2s) {
                            let nl2 = s2.checked_sub(g2).and_then(|x| x.checked_sub(2));
                            let mut l2s = vec![0, 1];
                            if let Some(nl) = nl2 {
                                l2s.extend(rel(nl));
                            }
                            for &l2 in &uniq(l2s) {
                                push(l, 0, f, vec![(g1, l1), (g2, l2)]);
                            }
                        }
                    }
                }
            }
        }
        if far_ok {
            // far gaps and range lengths below a valid (or the largest possible) Largest Acknowledged
            let mut far_ls: Vec<u64> = [n.checked_sub(1), n.checked_sub(2), Some(VMAX)].into_iter().flatten().collect();
            far_ls.dedup();
            for l in far_ls {
                let mut gs = vec![0, 1 << 30, VMAX - 2, VMAX];
                gs.extend(l.checked_sub(2));
                for &g in &uniq(gs) {
                    let mut lens = b_far(thorough);
                    lens.push(0);
                    lens.extend(l.checked_sub(g).and_then(|x| x.checked_sub(2)));
                    for &len in &uniq(lens) {
                        if is_near(g) && is_near(len) && is_near(l) {
                            continue;
                        }
                        push(l, 0, 0, vec![(g, len)]);
                    }
                }
            }
        }
    }
    out
}

fn cases_pn(thorough: bool) -> Vec<Case> {
    let mut out = Vec::new();
    for hist in [0u8, 1, 3] {
        for width in 1u8..=4 {
            let bits = 8 * width as u32;
            let top: u64 = (1u64 << bits) - 1;
            let half: u64 = 1u64 << (bits - 1);
            let mut xs: Vec<u64> = B.iter().copied().filter(|v| *v <= top).collect();
            xs.extend([half - 1, half, half + 1, top - 1, top]);
            xs.extend(rel(hist as u64));
            xs.extend(rel(hist as u64 + 1));
            let mut xs = uniq(xs);
            xs.retain(|x| *x <= top);
            for x in xs {
                let c = Case::Pn { hist, width, x: x as u32 };
                if !thorough && hist != 1 && !far_fields(&c).is_empty() {
                    continue;
                }
                out.push(c);
            }
        }
    }
    out
}

fn cases_new_cid(thorough: bool) -> Vec<Case> {
    let mut out = Vec::new();
    for hist in 0u8..3 {
        for limit in [2u64, 4] {
            let next = hist as u64 + 1;
            let mut seqs = b_all(thorough);
            seqs.extend(rel(next));
            seqs.push(next + limit);
            for &seq in &uniq(seqs) {
                let mut rpts = vec![0, 1, 2, seq];
                rpts.extend(seq.checked_sub(limit + 1));
                rpts.extend(seq.checked_sub(limit));
                rpts.extend(seq.checked_sub(limit).map(|x| x + 1));
                rpts.extend(seq.checked_sub(1));
                // not decodable: retire_prior_to > seq
                rpts.push(seq + 1);
                rpts.push(VMAX);
                for &rpt in &uniq(rpts) {
                    if rpt <= seq || rpt == seq + 1 || rpt == VMAX {
                        out.push(Case::NewCid { hist, limit, seq, rpt });
                    }
                }
            }
        }
    }
    out
}

fn cases_retire_cid(thorough: bool) -> Vec<Case> {
    let mut out = Vec::new();
    for hist in 0u8..3 {
        let next = [2u64, 4, 5][hist as usize];
        let mut seqs = b_all(thorough);
        seqs.extend(rel(next));
        seqs.extend([0, 1, 2]);
        for &seq in &uniq(seqs) {
            out.push(Case::RetireCid { hist, seq });
        }
    }
    out
}

fn cases_max_data(thorough: bool) -> Vec<Case> {
    let mut out = Vec::new();
    for hist in 0u8..2 {
        let mut vs = b_all(thorough);
        vs.extend(rel(100));
        vs.extend(rel(1000));
        for &v in &uniq(vs) {
            out.push(Case::MaxData { hist, v });
        }
    }
    out
}

fn cases_streams(thorough: bool) -> Vec<Case> {
    let mut out = Vec::new();
    let cfgs: Vec<(bool, u8)> = if thorough {
        vec![(false, 0), (false, 1), (false, 2), (true, 0), (true, 1), (true, 2)]
    } else {
        vec![(false, 0), (false, 2), (true, 1)]
    };
    const IDX_MAX: u64 = (1 << 60) - 1;
    let mut idxs: Vec<u64> = b_all(thorough).into_iter().filter(|v| *v <= IDX_MAX).collect();
    // index == advertised count is C12's finding (off-by-one in try_accept_sid): not repeated here
    idxs.extend([STREAM_COUNT - 1, STREAM_COUNT + 1, IDX_MAX]);
    let idxs = uniq(idxs);
    let mut kinds = Vec::new();
    let mut offs = b_all(thorough);
    offs.extend(rel(STREAM_LIMIT));
    for &off in &uniq(offs) {
        for len in [0u8, 1, 3] {
            for fin in [false, true] {
                if !thorough && fin && len == 3 {
                    continue;
                }
                kinds.push(SKind::Data { off, len, fin, declared: None });
            }
        }
    }
    for len in [1u8, 3] {
        // end exactly at / one beyond 2^62-1
        kinds.push(SKind::Data { off: VMAX - len as u64, len, fin: false, declared: None });
        kinds.push(SKind::Data { off: VMAX - len as u64 + 1, len, fin: false, declared: None });
    }
    for declared in [2u64, 1 << 30, VMAX] {
        kinds.push(SKind::Data { off: 0, len: 1, fin: false, declared: Some(declared) });
    }
    let mut finals = b_all(thorough);
    finals.extend(rel(STREAM_LIMIT));
    for &final_size in &uniq(finals) {
        kinds.push(SKind::Reset { final_size, code: 3 });
    }
    kinds.push(SKind::Reset { final_size: 0, code: VMAX });
    kinds.push(SKind::Stop { code: 0 });
    kinds.push(SKind::Stop { code: VMAX });
    for &v in &b_all(thorough) {
        kinds.push(SKind::MaxStreamData { v });
    }
    for &(server, hist) in &cfgs {
        for peer_init in [true, false] {
            for uni in [false, true] {
                for &idx in &idxs {
                    for &kind in &kinds {
                        out.push(Case::Stream { server, hist, peer_init, uni, idx, kind });
                    }
                }
            }
        }
    }
    for server in [false, true] {
        for uni in [false, true] {
            let mut vs = b_all(thorough);
            vs.extend(rel(1 << 60));
            vs.extend(rel(STREAM_COUNT));
            for &v in &uniq(vs) {
                out.push(Case::MaxStreams { server, uni, v });
            }
        }
    }
    out
}

fn cases_crypto(thorough: bool) -> Vec<Case> {
    let mut out = Vec::new();
    for hist in 0u8..2 {
        let mut offs = b_all(thorough);
        offs.extend([2, 3, 4]);
        for &off in &uniq(offs) {
            for payload in [0u8, 1, 3] {
                out.push(Case::Crypto { hist, off, payload, declared: None });
            }
        }
        for payload in [1u8, 3] {
            out.push(Case::Crypto { hist, off: VMAX - payload as u64, payload, declared: None });
            out.push(Case::Crypto { hist, off: VMAX - payload as u64 + 1, payload, declared: None });
        }
        for declared in [2u64, 1 << 30, VMAX] {
            out.push(Case::Crypto { hist, off: 0, payload: 1, declared: Some(declared) });
        }
    }
    out
}

// ------------------------------------------------------------------------------------------
// child processes
// ------------------------------------------------------------------------------------------

const WATCHDOG: Duration = Duration::from_secs(3);
const AS_LIMIT: u64 = 2 << 30;

fn run_guarded(case: &Case, cb: &mut dyn FnMut(&str)) -> Outcome {
    match panics::catch(|| CLOCK.with(|clock| exec(case, clock, cb))) {
        Ok(o) => o,
        Err(p) => Outcome { setup_failed: Some(format!("panic outside a measured call: {} at {}", p.message, p.location)), ..Default::default() },
    }
}

/// `h-conn C04 --only __batch`: lock-step server. stdin: one case (JSON) per line; stdout:
/// `H <proto>` once, then per case `S <stage>` before every measured call and `R <outcome JSON>`.
fn child_batch() -> i32 {
    CHILD_MODE.store(true, Ordering::Relaxed);
    let limited = limit_address_space(AS_LIMIT);
    panics::install_hook();
    let say = |s: String| {
        let mut o = std::io::stdout().lock();
        let _ = o.write_all(s.as_bytes());
        let _ = o.write_all(b"\n");
        let _ = o.flush();
    };
    say(format!("H {PROTO} {}", if limited { "limited" } else { "unlimited" }));
    let stdin = std::io::stdin();
    for line in stdin.lock().lines() {
        let Ok(line) = line else { break };
        if line.trim().is_empty() {
            continue;
        }
        let case: Case = match serde_json::from_str(&line) {
            Ok(c) => c,
            Err(e) => {
                say(format!("E bad case: {e}"));
                return 2;
            }
        };
        let out = run_guarded(&case, &mut |name| say(format!("S {name}")));
        say(format!("R {}", serde_json::to_string(&out).unwrap()));
    }
    0
}

struct Worker {
    child: Child,
    stdin: ChildStdin,
    rx: mpsc::Receiver<String>,
}

impl Worker {
    fn spawn(exe: &Path) -> Result<Worker, String> {
        let mut child = Command::new(exe)
            .args(["C04", "--only", "__batch"])
            // an abort must not spend seconds symbolising a backtrace
            .env("RUST_BACKTRACE", "0")
            .stdin(Stdio::piped())
            .stdout(Stdio::piped())
            .stderr(Stdio::null())
            .spawn()
            .map_err(|e| format!("cannot start {}: {e}", exe.display()))?;
        let stdin = child.stdin.take().unwrap();
        let stdout = child.stdout.take().unwrap();
        let (tx, rx) = mpsc::channel();
        std::thread::spawn(move || {
            for line in BufReader::new(stdout).lines() {
                let Ok(line) = line else { break };
                if tx.send(line).is_err() {
                    break;
                }
            }
        });
        let mut w = Worker { child, stdin, rx };
        match w.rx.recv_timeout(Duration::from_secs(20)) {
            Ok(l) if l.starts_with(&format!("H {PROTO} ")) => Ok(w),
            other => {
                w.kill();
                Err(format!("{}: unexpected greeting {other:?} (stale binary?)", exe.display()))
            }
        }
    }

    fn kill(&mut self) -> String {
        let _ = self.child.kill();
        match self.child.wait() {
            Ok(s) => describe_status(&s),
            Err(e) => format!("wait failed: {e}"),
        }
    }

    /// One case, lock-step. The 3 s watchdog restarts at every stage marker (it bounds each call).
    fn run(mut self, case_json: &str) -> (RunResult, Option<Worker>) {
        let mut stage: Option<String> = None;
        let mut alloc_fail: Option<u64> = None;
        if self.stdin.write_all(case_json.as_bytes()).and_then(|_| self.stdin.write_all(b"\n")).and_then(|_| self.stdin.flush()).is_err() {
            let status = self.kill();
            return (RunResult::Died { status, stage, alloc_fail }, None);
        }
        let mut deadline = StdInstant::now() + WATCHDOG;
        loop {
            let left = deadline.saturating_duration_since(StdInstant::now());
            match self.rx.recv_timeout(left) {
                Ok(line) => {
                    if let Some(s) = line.strip_prefix("S ") {
                        stage = Some(s.to_string());
                        deadline = StdInstant::now() + WATCHDOG;
                    } else if let Some(n) = line.strip_prefix("F ") {
                        alloc_fail = n.trim().parse().ok();
                    } else if let Some(j) = line.strip_prefix("R ") {
                        return match serde_json::from_str::<Outcome>(j) {
                            Ok(o) => (RunResult::Done(o), Some(self)),
                            Err(e) => {
                                self.kill();
                                (RunResult::Died { status: format!("unparsable result: {e}"), stage, alloc_fail }, None)
                            }
                        };
                    }
                }
                Err(mpsc::RecvTimeoutError::Timeout) => {
                    self.kill();
                    return (RunResult::Timeout { stage, alloc_fail }, None);
                }
                Err(mpsc::RecvTimeoutError::Disconnected) => {
                    let status = match self.child.wait() {
                        Ok(s) => describe_status(&s),
                        Err(e) => format!("wait failed: {e}"),
                    };
                    return (RunResult::Died { status, stage, alloc_fail }, None);
                }
            }
        }
    }
}

impl Drop for Worker {
    fn drop(&mut self) {
        let _ = self.child.kill();
        let _ = self.child.wait();
    }
}

fn describe_status(s: &std::process::ExitStatus) -> String {
    #[cfg(unix)]
    {
        use std::os::unix::process::ExitStatusExt;
        if let Some(sig) = s.signal() {
            let name = match sig {
                6 => "SIGABRT",
                9 => "SIGKILL",
                11 => "SIGSEGV",
                7 => "SIGBUS",
                _ => "signal",
            };
            return format!("{name} ({sig})");
        }
    }
    format!("exit status {:?}", s.code())
}

/// One unit of work: a case, and where it runs (`exe`: None = in this process, Some(0) = a
/// child of this binary, Some(1) = a child of the prod-profile binary).
#[derive(Clone)]
struct Item {
    sub: usize,
    case: Case,
    exe: Option<usize>,
}

/// Runs the child items, `jobs` lock-step children at a time (strided assignment, so that
/// neighbouring slow cases are spread over the lanes). Results in input order.
fn run_in_children(exes: &[PathBuf], items: &[Item], deadline: StdInstant) -> Vec<RunResult> {
    let k = mc_core::jobs().max(1).min(items.len().max(1));
    let lanes: Vec<usize> = (0..k).collect();
    let per_lane: Vec<Vec<(usize, RunResult)>> = mc_core::par::par_map(&lanes, |&lane| {
        let mut res = Vec::new();
        let mut workers: Vec<Option<Worker>> = exes.iter().map(|_| None).collect();
        let mut i = lane;
        while i < items.len() {
            if StdInstant::now() > deadline {
                res.push((i, RunResult::Skipped));
                i += k;
                continue;
            }
            let e = items[i].exe.expect("child item");
            let json = serde_json::to_string(&items[i].case).unwrap();
            let mut attempt = 0;
            let r = loop {
                let w = match workers[e].take() {
                    Some(w) => w,
                    None => match Worker::spawn(&exes[e]) {
                        Ok(w) => w,
                        Err(e) => break RunResult::Died { status: e, stage: None, alloc_fail: None },
                    },
                };
                let (r, w) = w.run(&json);
                workers[e] = w;
                // a child that never reached the measured call is a loaded machine, not a verdict
                let never_started = matches!(&r, RunResult::Timeout { stage: None, .. } | RunResult::Died { stage: None, .. });
                if never_started && attempt == 0 {
                    attempt += 1;
                    continue;
                }
                break r;
            };
            res.push((i, r));
            i += k;
        }
        res
    });
    let mut out: Vec<Option<RunResult>> = (0..items.len()).map(|_| None).collect();
    for lane in per_lane {
        for (i, r) in lane {
            out[i] = Some(r);
        }
    }
    out.into_iter().map(|r| r.expect("every case ran")).collect()
}

// ------------------------------------------------------------------------------------------
// in-process execution with a hang monitor
// ------------------------------------------------------------------------------------------

struct Slot {
    since_ms: AtomicU64,
    idx: AtomicUsize,
}

static SLOTS: Mutex<Vec<Arc<Slot>>> = Mutex::new(Vec::new());

fn start_monitor(epoch: StdInstant, items: Arc<Vec<Item>>) {
    std::thread::spawn(move || {
        loop {
            std::thread::sleep(Duration::from_millis(500));
            let now = epoch.elapsed().as_millis() as u64;
            for s in SLOTS.lock().unwrap().iter() {
                let since = s.since_ms.load(Ordering::Relaxed);
                if since != 0 && now.saturating_sub(since) > 60_000 {
                    eprintln!(
                        "machinery error: the in-process case {:?} has been running for 60 s (a case classified as near hangs); this is not a verdict",
                        items.get(s.idx.load(Ordering::Relaxed)).map(|i| &i.case)
                    );
                    std::process::exit(2);
                }
            }
        }
    });
}

fn run_in_process(items: &Arc<Vec<Item>>, epoch: StdInstant) -> Vec<RunResult> {
    start_monitor(epoch, items.clone());
    let idx: Vec<usize> = (0..items.len()).collect();
    let chunks: Vec<&[usize]> = idx.chunks(64).collect();
    let res = mc_core::par::par_map(&chunks, |chunk| {
        let slot = Arc::new(Slot { since_ms: AtomicU64::new(0), idx: AtomicUsize::new(0) });
        SLOTS.lock().unwrap().push(slot.clone());
        let r: Vec<RunResult> = chunk
            .iter()
            .map(|&i| {
                slot.idx.store(i, Ordering::Relaxed);
                slot.since_ms.store(epoch.elapsed().as_millis() as u64 + 1, Ordering::Relaxed);
                let o = run_guarded(&items[i].case, &mut |_| {});
                slot.since_ms.store(0, Ordering::Relaxed);
                RunResult::Done(o)
            })
            .collect();
        SLOTS.lock().unwrap().retain(|s| !Arc::ptr_eq(s, &slot));
        r
    });
    res.into_iter().flatten().collect()
}

// ------------------------------------------------------------------------------------------
// driver
// ------------------------------------------------------------------------------------------

struct SubDef {
    name: &'static str,
    cases: Vec<Case>,
    rule: String,
    with_prod: bool,
}

#[derive(Default)]
struct Stats {
    in_process: u64,
    child_checked: u64,
    child_prod: u64,
    killed: u64,
    died: u64,
    skipped: u64,
    max_alloc_within_bound: u64,
    max_alloc: u64,
    classes: BTreeMap<String, u64>,
    acted_on_invalid: u64,
    /// ACKs reaching below 0 whose effect was compared with the effect of their well-formed prefix
    prefix_compared: u64,
    samples: Vec<Value>,
    /// (signature, order key, detail, replay)
    filed: Vec<(String, (u8, u64, u64, usize), String, Value)>,
}

fn account(sub: &str, seq: usize, item: &Item, res: &RunResult, stats: &mut Stats) {
    let case = &item.case;
    let (profile, mode, rank) = match item.exe {
        None => ("checked", "in-process", 0u64),
        Some(0) => ("checked", "child", 1),
        Some(_) => ("prod", "child", 2),
    };
    match item.exe {
        None => stats.in_process += 1,
        Some(0) => stats.child_checked += 1,
        Some(_) => stats.child_prod += 1,
    }
    match res {
        RunResult::Timeout { .. } => stats.killed += 1,
        RunResult::Died { .. } => stats.died += 1,
        RunResult::Skipped => stats.skipped += 1,
        RunResult::Done(o) => {
            let bound = alloc_bound(o);
            for s in &o.stages {
                stats.max_alloc = stats.max_alloc.max(s.alloc);
                if s.alloc <= bound {
                    stats.max_alloc_within_bound = stats.max_alloc_within_bound.max(s.alloc);
                }
            }
            if o.beyond_prefix.is_some() {
                stats.prefix_compared += 1;
            }
            if let Case::Stream { .. } = case {
                if o.state_changed == Some(true) && o.stage("call").is_some_and(|s| s.result.starts_with("err:")) {
                    stats.acted_on_invalid += 1;
                }
            }
            if let Case::Ack { target: Tgt::Rcvd, .. } = case {
                let returned = o.stage("call").is_some_and(|s| s.result == "ok");
                if returned && o.state_changed == Some(true) && expect(case).clause != "valid" {
                    stats.acted_on_invalid += 1;
                }
            }
        }
    }
    let (class, viols) = judge(case, res, profile);
    *stats.classes.entry(format!("[{profile}] {class}")).or_default() += 1;
    if stats.samples.len() < 3 && seq % 97 == 0 {
        stats.samples.push(json!({"case": case, "profile": profile, "mode": mode, "class": class}));
    }
    for v in viols {
        // witness choice: the most extreme case for watchdog/abort cost violations (it fails
        // whatever the machine load), otherwise the first case in enumeration order, in-process
        // cases before child cases
        let killed = matches!(res, RunResult::Timeout { .. } | RunResult::Died { .. });
        let key = if killed { (0u8, u64::MAX - magnitude(case), rank, seq) } else { (1u8, rank, 0, seq) };
        stats.filed.push((v.sig, key, v.detail, json!({"sub": sub, "input": case, "profile": profile, "mode": mode})));
    }
}

fn prod_exe() -> Option<PathBuf> {
    if std::env::var_os("C04_NO_PROD").is_some() {
        return None;
    }
    let p = mc_core::report::verif_root().join("harness/target/prod/h-conn");
    p.is_file().then_some(p)
}

fn replay(args: &Args) -> i32 {
    let r = mc_core::report::load_replay(args.replay.as_ref().unwrap());
    let case: Case = match serde_json::from_value(r["input"].clone()) {
        Ok(c) => c,
        Err(e) => {
            println!("replay: cannot read the case: {e}");
            return 2;
        }
    };
    let mut profile = r["profile"].as_str().unwrap_or("checked").to_string();
    let exe = if profile == "prod" {
        match prod_exe() {
            Some(p) => p,
            None => {
                println!("replay: the prod binary is not built (cargo build --offline --profile prod -p h-conn); using the checked profile");
                profile = "checked".into();
                std::env::current_exe().unwrap()
            }
        }
    } else {
        std::env::current_exe().unwrap()
    };
    println!("replay: {case:?} in a child of the {profile} profile ({})", exe.display());
    let items = [Item { sub: 0, case: case.clone(), exe: Some(0) }];
    let res = run_in_children(&[exe], &items, StdInstant::now() + Duration::from_secs(3600));
    println!("replay: {:?}", res[0]);
    let (class, viols) = judge(&case, &res[0], &profile);
    println!("replay: outcome class {class}");
    for v in &viols {
        println!("replay: {} — {}", v.sig, v.detail);
    }
    if viols.is_empty() {
        println!("replay: no violation");
        0
    } else {
        1
    }
}

pub fn run(args: &Args) -> i32 {
    match args.only.as_deref() {
        Some("__batch") => return child_batch(),
        Some(o) if o.starts_with("__child:") => {
            // one case, same protocol on stdout
            CHILD_MODE.store(true, Ordering::Relaxed);
            limit_address_space(AS_LIMIT);
            let case: Case = match serde_json::from_str(&o["__child:".len()..]) {
                Ok(c) => c,
                Err(e) => {
                    eprintln!("bad case: {e}");
                    return 2;
                }
            };
            let out = run_guarded(&case, &mut |name| println!("S {name}"));
            println!("R {}", serde_json::to_string(&out).unwrap());
            return 0;
        }
        _ => {}
    }
    if args.replay.is_some() {
        return replay(args);
    }
    let mut report = Report::new(args, "exploration");
    let epoch = StdInstant::now();
    let deadline = epoch + Duration::from_secs(if args.thorough { 540 } else { 45 });
    let mut prod = prod_exe();
    let mut prod_stale = None;
    if let Some(p) = &prod {
        // a binary built from an older c04.rs speaks another protocol version: do not use it
        if let Err(e) = Worker::spawn(p) {
            prod_stale = Some(e);
            prod = None;
        }
    }
    let mut exes = vec![std::env::current_exe().expect("current_exe")];
    exes.extend(prod.clone());
    report.assume("the property is about frames a peer can deliver: every frame travels as wire bytes through the real FrameReader (1-RTT packet type) and only the decoded frame reaches a handler; a frame the reader rejects gets the verdict 'rejected by the decoder with <kind>' and is judged as such; ACK frames are built with AckFrame::new only to be written with the crate's writer (the decoded frame must equal it)");
    report.assume("cost bound per call: bytes allocated ≤ 64 KiB + 256 × (encoded frame bytes + records held); records held = packets in the journal / connection ids / streams created by the legitimate history; for a packet number the 'frame' is the smallest packet that carries it (25 bytes + pn)");
    report.assume("a case is 'far' if a numeric field exceeds what the endpoint holds by ≥ 10^6 (ACK Delay is a duration and relates to no record: not classified); far cases run only in child processes (lock-step batch children: RLIMIT_AS 2 GiB, 3 s watchdog per measured call, a child that never reached the call is retried once), all others in-process under catch_unwind with a 60 s hang monitor");
    report.assume("ACK handlers are driven separately in the order the per-space dispatcher uses: cc.on_ack_rcvd and rcvd_journal.on_rcvd_ack see every decodable ACK (validation comes later), the sent journal sees update_largest + the on_packet_acked loop of Ack*Space::recv_frame (ArcSentJournal<u32>, no qlog event)");
    report.assume("verdicts are demanded only where RFC 9000 prescribes an error (§13.1, §19.3.1, §5.1.1, §19.15, §19.16, §4.6, §19.11, §4.1, §4.5, §19.6, §19.8); a stream index equal to the advertised count is C12's open finding and is not enumerated; spurious CONNECTION_ID_LIMIT errors are C14's; an ACK for never-sent numbers that changes the received-packet journal before the (asynchronous) validation closes the connection is counted, not judged; an ACK reaching below packet number 0 is judged at the sent journal (update_largest must return FRAME_ENCODING_ERROR, state unchanged) and, for on_rcvd_ack / cc.on_ack_rcvd (no error channel), by comparing with a twin object that received the frame's longest well-formed prefix (received journal: Debug dump; controller: cwnd, ssthresh, bytes in flight, RTT estimate, largest acked, per-packet state from verif_snapshot)");
    report.assume("stream endpoint: crate::pipe::Endpoint (real DataStreams + FlowController) with every receive limit 2^20 and 4 streams per direction; connection ids as in c14.rs; ArcCC as qconnection::path::Path::new builds it (NewReno, client, anti-amplification released)");
    report.notes.push(match &prod {
        Some(p) => format!("prod profile (wrap-around arithmetic) children used for ACK and packet-number cases: {}", p.display()),
        None => "prod profile binary target/prod/h-conn not present: ACK and packet-number cases ran in the checked profile only".to_string(),
    });
    if let Some(e) = prod_stale {
        report.notes.push(format!("the prod profile binary exists but was not usable ({e}); rebuild it with `cargo build --offline --profile prod -p h-conn`"));
    }
    let t = args.thorough;
    let ack_rule = |what: &str| {
        format!(
            "{what}: histories (sent, acked) ∈ {}; Largest ∈ B_near ∪ {{n-2..n+1, a-1..a+1}} (∪ B_far for some histories: sent journal {}, others {}), First Range ∈ B_near ∪ {{L-1,L,L+1}} (∪ B_far), Delay ∈ {{0, 16384, 2^62-1}}, 0–2 further ranges with gap/length around the remaining numbers (exact fit, one below zero) and over B; far gap/length products below a valid and below the largest possible Largest; B = {{0,1,63,64,16383,16384,2^30-1,2^30,2^31-1,2^31,2^32,2^61,2^62-1}} (quick: far values {{2^30, 2^62-1}}; far ACKs for on_rcvd_ack / cc whose ranges stay above zero run in the checked profile only)",
            if t { "{(0,0),(1,0),(2,0),(3,0),(3,1),(3,2)}" } else { "{(0,0),(1,0),(3,0),(3,1)}" },
            if t { "(0,0),(2,0),(3,0),(3,1)" } else { "(0,0),(3,1)" },
            if t { "(0,0),(2,0),(3,0),(3,1)" } else { "(3,1)" }
        )
    };
    let mut subs = vec![
        SubDef { name: "ack-sent", cases: cases_ack(Tgt::Sent, t), rule: ack_rule("ArcSentJournal::rotate().update_largest + on_packet_acked loop"), with_prod: true },
        SubDef { name: "ack-rcvd", cases: cases_ack(Tgt::Rcvd, t), rule: ack_rule("ArcRcvdJournal::on_rcvd_ack (3 packets received, n ACK-carrying packets sent)"), with_prod: true },
        SubDef { name: "ack-cc", cases: cases_ack(Tgt::Cc, t), rule: ack_rule("ArcCC::on_ack_rcvd(Epoch::Data)"), with_prod: true },
        SubDef { name: "pn", cases: cases_pn(t), rule: "ArcRcvdJournal::decode_pn(U8/U16/U24/U32(x)) → on_rcvd_pn → gen_ack_frame_util after {0, 1, 3} received packets; x ∈ (B ∩ width) ∪ {half window -1/0/+1, max-1, max} ∪ {largest-1..largest+2} (quick: jumps ≥ 10^6 only after 1 received packet)".into(), with_prod: true },
        SubDef { name: "new-cid", cases: cases_new_cid(t), rule: "ArcRemoteCids::recv_frame(NEW_CONNECTION_ID) after {initial id, +(1,0), +(1,0),(2,1)}, active_connection_id_limit ∈ {2,4}; seq ∈ B ∪ {next-1,next,next+1,next+limit}; retire_prior_to ∈ {0,1,2,seq-limit-1..seq-limit+1,seq-1,seq} and (not decodable) {seq+1, 2^62-1}".into(), with_prod: false },
        SubDef { name: "retire-cid", cases: cases_retire_cid(t), rule: "ArcLocalCids::recv_frame(RETIRE_CONNECTION_ID) after {fresh, set_limit(4), +RETIRE(0)} on the real QuicRouter registry; seq ∈ B ∪ {0,1,2,next-1,next,next+1}".into(), with_prod: false },
        SubDef { name: "max-data", cases: cases_max_data(t), rule: "FlowController.sender.recv_frame(MAX_DATA v), v ∈ B ∪ {99..101, 999..1001}, with and without an earlier MAX_DATA(1000)".into(), with_prod: false },
        SubDef { name: "streams", cases: cases_streams(t), rule: "pipe::Endpoint::peer_stream / peer_ctl: roles × legitimate prefixes {none, peer used its first streams, + local opens} × stream id over (initiator, direction) × index ∈ (B ≤ 2^60-1) ∪ {3, 5, 2^60-1} × {STREAM offset ∈ B ∪ {2^20-1..2^20+1, 2^62-1-len, 2^62-len} × len {0,1,3} × FIN, declared length beyond the packet, RESET_STREAM final size ∈ B ∪ 2^20±1, error code 2^62-1, STOP_SENDING code {0, 2^62-1}, MAX_STREAM_DATA ∈ B}; MAX_STREAMS ∈ B ∪ {3..5, 2^60-1..2^60+1} per role and direction".into(), with_prod: false },
        SubDef { name: "crypto", cases: cases_crypto(t), rule: "CryptoStream::incoming().recv_frame after {nothing, 3 bytes at 0}: offset ∈ B ∪ {2,3,4, 2^62-1-len, 2^62-len} × payload {0,1,3} bytes; declared length beyond the packet {2, 2^30, 2^62-1}".into(), with_prod: false },
    ];
    subs.retain(|s| args.wants(s.name));

    // one pool of in-process items and one pool of child items over all sub-checks
    let mut near: Vec<Item> = Vec::new();
    let mut child: Vec<Item> = Vec::new();
    // cheap sub-checks first: if the wall-clock cap strikes, it strikes the watchdog-bound ACK tail
    for (si, s) in subs.iter().enumerate().rev() {
        for c in &s.cases {
            if far_fields(c).is_empty() {
                near.push(Item { sub: si, case: c.clone(), exe: None });
            } else {
                child.push(Item { sub: si, case: c.clone(), exe: Some(0) });
            }
            // quick tier: a far ACK whose ranges stay above zero behaves the same with and without
            // overflow checks (same loop, same 3 s watchdog): not repeated in the prod profile
            let prod_adds = match c {
                Case::Ack { target, largest, first, ranges, .. } => {
                    t || *target == Tgt::Sent || far_fields(c).is_empty() || ack_negative(*largest, *first, ranges)
                }
                _ => true,
            };
            if s.with_prod && prod.is_some() && prod_adds {
                child.push(Item { sub: si, case: c.clone(), exe: Some(1) });
            }
        }
    }
    let near = Arc::new(near);
    let near_res = run_in_process(&near, epoch);
    eprintln!("[C04] {} in-process cases done ({:.1}s); {} child cases", near.len(), epoch.elapsed().as_secs_f64(), child.len());
    let child_res = run_in_children(&exes, &child, deadline);

    let mut stats: Vec<Stats> = subs.iter().map(|_| Stats::default()).collect();
    for (seq, (item, res)) in near.iter().zip(&near_res).enumerate() {
        account(subs[item.sub].name, seq, item, res, &mut stats[item.sub]);
    }
    for (seq, (item, res)) in child.iter().zip(&child_res).enumerate() {
        account(subs[item.sub].name, seq, item, res, &mut stats[item.sub]);
    }
    for (s, mut st) in subs.iter().zip(stats) {
        st.filed.sort_by(|a, b| (&a.0, a.1).cmp(&(&b.0, b.1)));
        for (sig, _, detail, replay) in std::mem::take(&mut st.filed) {
            report.violation(&sig, &detail, replay);
        }
        if st.skipped > 0 {
            report.caps_hit.push(format!("{}: {} cases not run, wall-clock cap reached", s.name, st.skipped));
        }
        let mut extra = serde_json::Map::new();
        extra.insert("in_process".into(), json!(st.in_process));
        extra.insert("child_checked".into(), json!(st.child_checked));
        extra.insert("child_prod".into(), json!(st.child_prod));
        extra.insert("prod_profile_used".into(), json!(s.with_prod && prod.is_some()));
        extra.insert("killed_by_watchdog".into(), json!(st.killed));
        extra.insert("died".into(), json!(st.died));
        extra.insert("max_alloc_bytes_any_call".into(), json!(st.max_alloc));
        extra.insert("max_alloc_bytes_within_bound".into(), json!(st.max_alloc_within_bound));
        extra.insert("outcome_classes".into(), json!(st.classes));
        if s.name == "ack-rcvd" || s.name == "ack-cc" {
            extra.insert("negative_range_acks_compared_with_their_well_formed_prefix".into(), json!(st.prefix_compared));
        }
        if s.name == "streams" {
            extra.insert("rejected_frame_left_stream_table_changed_not_judged".into(), json!(st.acted_on_invalid));
        }
        if s.name == "ack-rcvd" {
            extra.insert("invalid_ack_changed_rcvd_journal_not_judged".into(), json!(st.acted_on_invalid));
        }
        report.sub(
            s.name,
            Coverage {
                evaluations: st.in_process + st.child_checked + st.child_prod - st.skipped,
                distinct_nontrivial: st.classes.len() as u64,
                exhaustive: st.skipped == 0,
                rule: format!("{}; distinct = distinct (profile, RFC clause → outcome) classes", s.rule),
                samples: st.samples,
                extra,
                ..Default::default()
            },
        );
    }
    report.finish()
}
