//! C06 — packet protection round-trips and rejects any modified packet.
//!
//! E0 exhaustive enumeration over the real qbase packet code.
//!
//! * keys: Initial keys from `rustls::quic::Keys::initial` (as `qconnection::builder::
//!   initial_keys_with`), Handshake / 0-RTT / 1-RTT keys and `Secrets` from a real in-process
//!   rustls QUIC handshake (fresh per case; second, resumed handshake for early-data keys);
//! * send path: `PacketWriter::new_long/new_short` → `assemble_packet` / `BufMut` →
//!   `encrypt_and_protect_packet` (the sequence of `qconnection::tx` + `space::*::new_packet`);
//! * receive path: `PacketReader` (every packet of the datagram, as `qtraversal::route`) →
//!   routing on the DCID (`QuicRouter::find_entry`) → per-type queue (`RcvdPacketQueue::deliver`,
//!   VN / Retry ignored) → the REAL `qinterface::component::route::CipherPacket::new(header,
//!   bytes, offset).decrypt_{long,short}_packet(..)` with the space's `decode_pn` (`expected` =
//!   largest received + 1) and `ArcOneRttKeys`. `PlainPacket` exposes header, pn, payload
//!   length and body; the key phase, the unmasked first byte and the unmasked pn bytes of the
//!   round trip are observed by a side call of the real
//!   `qbase::packet::decrypt::remove_protection_of_{long,short}_packet` on a copy.
//!
//! What the callers (`qconnection::space::{initial,handshake,data}::parse_normal_packet`) do with
//! the wrapper's return value: `None` ⇒ packet dropped silently; `Some(Err(e))` ⇒ `?` ⇒
//! `event_broker.emit(Event::Failed(e))` ⇒ the connection is closed with that error;
//! `Some(Ok(p))` ⇒ frames are read and dispatched. Hence the three outcome classes.
use std::{
    collections::{BTreeMap, HashSet},
    time::{Duration, Instant},
};

use bytes::{BufMut, Bytes, BytesMut};
use mc_core::{
    Args, Report,
    panics::{PanicInfo, catch},
    par::par_map,
    report::Coverage,
};
use qbase::{
    cid::ConnectionId,
    frame::PingFrame,
    packet::{
        AssemblePacket, DataHeader, EncodeHeader, GetDcid, GetScid, KeyPhaseBit, LongHeaderBuilder,
        OneRttHeader, Packet, PacketNumber, PacketReader, PacketWriter, SpinBit,
        decrypt::{remove_protection_of_long_packet, remove_protection_of_short_packet},
        keys::{ArcOneRttKeys, ArcOneRttPacketKeys, DirectionalKeys, Keys},
        long,
    },
};
use qinterface::component::route::{CipherPacket, PlainPacket};
use rustls::{Side, quic::HeaderProtectionKey};
use serde::{Deserialize, Serialize};
use serde_json::{Map, Value, json};

pub(crate) mod keys;

pub(crate) const DATAGRAM: usize = 1200;
/// RFC 9001 Appendix A original DCID; Initial keys stay derived from the first DCID for the
/// whole connection whatever CIDs later Initial packets carry.
const ORIGIN_DCID: [u8; 8] = [0x83, 0x94, 0xc8, 0xf0, 0x3e, 0x51, 0x57, 0x08];

// ------------------------------------------------------------------------------------------
// alphabet
// ------------------------------------------------------------------------------------------

#[derive(Debug, Clone, Copy, PartialEq, Eq, Hash, PartialOrd, Ord, Serialize, Deserialize)]
pub(crate) enum PType {
    Initial { token: usize },
    ZeroRtt,
    Handshake,
    OneRtt,
}

impl PType {
    pub(crate) fn is_long(self) -> bool {
        !matches!(self, PType::OneRtt)
    }
    pub(crate) fn name(self) -> String {
        match self {
            PType::Initial { token } => format!("initial(token {token})"),
            PType::ZeroRtt => "0rtt".into(),
            PType::Handshake => "handshake".into(),
            PType::OneRtt => "1rtt".into(),
        }
    }
}

#[derive(Debug, Clone, Copy, PartialEq, Eq, Hash, Serialize, Deserialize)]
pub(crate) enum Dir {
    C2S,
    S2C,
}

#[derive(Debug, Clone, Copy, PartialEq, Eq, Hash, Serialize, Deserialize)]
pub(crate) enum Body {
    /// one PING, then padded like `PadTo20`: payload (pn + body) + tag = 20 bytes
    Min,
    MinPlus1,
    Len(usize),
    /// fill the 1200-byte datagram
    Full,
}

/// `la = Some(x)`: encoded by the real `PacketNumber::encode(pn, x)` (never yields 1 byte:
/// the code enforces a 16-bit minimum); `forced_len = Some(n)`: the n-byte truncation is
/// constructed directly (legal through `PacketWriter::new_*`, which takes the encoded pn).
#[derive(Debug, Clone, Copy, PartialEq, Eq, Hash, Serialize, Deserialize)]
pub(crate) struct Pn {
    pub(crate) pn: u64,
    pub(crate) la: Option<u64>,
    pub(crate) forced_len: Option<u8>,
    /// receiver's next expected pn (largest received + 1, `RcvdJournal::decode_pn`)
    pub(crate) expected: u64,
}

impl Pn {
    fn encoded(&self) -> PacketNumber {
        match (self.forced_len, self.la) {
            (Some(1), _) => PacketNumber::U8(self.pn as u8),
            (Some(2), _) => PacketNumber::U16(self.pn as u16),
            (Some(3), _) => PacketNumber::U24((self.pn & 0xff_ffff) as u32),
            (Some(_), _) => PacketNumber::U32(self.pn as u32),
            (None, Some(la)) => PacketNumber::encode(self.pn, la),
            (None, None) => PacketNumber::encode(self.pn, 0),
        }
    }
}

const P1: Pn = Pn { pn: 0xa7, la: None, forced_len: Some(1), expected: 0xa0 };
const P2_FIRST: Pn = Pn { pn: 0, la: Some(0), forced_len: None, expected: 0 };
const P2: Pn = Pn { pn: 0x12_3456, la: Some(0x12_3400), forced_len: None, expected: 0x12_3401 };
const P3: Pn =
    Pn { pn: 0xabcd_ef12, la: Some(0xabcd_ef12 - 40_000), forced_len: None, expected: 0xabcd_ef12 - 39_999 };
const P4: Pn = Pn {
    pn: 0x1_2345_6789,
    la: Some(0x1_2345_6789 - (1 << 23)),
    forced_len: None,
    expected: 0x1_2345_6789 - (1 << 23) + 1,
};
const P2_MAX: Pn =
    Pn { pn: (1 << 62) - 1, la: Some((1 << 62) - 2), forced_len: None, expected: (1 << 62) - 1 };
const P4_MAXGAP: Pn = Pn {
    pn: (1 << 40) + (1 << 31) - 1,
    la: Some(1 << 40),
    forced_len: None,
    expected: (1 << 40) + 1,
};

/// Operations on the two endpoints' `ArcOneRttKeys` before the packet under test is sent.
/// S = the sender of the packet under test, R = its receiver.
#[derive(Debug, Clone, Copy, PartialEq, Eq, Hash, Serialize, Deserialize)]
enum KeyOp {
    /// `OneRttPacketKeys::update()` (locally initiated key update)
    UpdS,
    UpdR,
    /// a 1-RTT packet S→R / R→S that must be accepted (propagates the key phase)
    XchgSR,
    XchgRS,
    /// `OneRttPacketKeys::phase_out()`
    PhaseOutS,
    PhaseOutR,
}

fn scenario_ops(name: &str) -> Option<Vec<KeyOp>> {
    use KeyOp::*;
    Some(match name {
        "k0" => vec![],
        "snd-upd1" => vec![UpdS],
        "rcv-upd1" => vec![UpdR],
        "rcv-upd1-followed" => vec![UpdR, XchgRS],
        "both-upd1" => vec![UpdS, UpdR],
        "snd-upd2" => vec![UpdS, XchgSR, PhaseOutR, XchgRS, PhaseOutS, UpdS],
        "rcv-upd2" => vec![UpdR, XchgRS, PhaseOutS, XchgSR, PhaseOutR, UpdR, XchgRS],
        // what the tree does today: nobody calls phase_out (see `phase_out_callers`)
        "snd-upd2-no-phase-out" => vec![UpdS, XchgSR, XchgRS, UpdS],
        _ => return None,
    })
}

#[derive(Debug, Clone, PartialEq, Eq, Hash, Serialize, Deserialize)]
struct Case {
    suite: String,
    dir: Dir,
    ptype: PType,
    cid_len: usize,
    body: Body,
    pn: Pn,
    spin: bool,
    /// 1-RTT key scenario (see [`scenario_ops`]); "k0" for long headers
    scenario: String,
}

#[derive(Debug, Clone, PartialEq, Eq, Hash, Serialize, Deserialize)]
enum Tamper {
    None,
    /// bit i = byte i/8, mask 1 << (i % 8)
    Flip { bits: Vec<usize> },
    WrongPn { expected: u64 },
    WrongKey { kind: String },
}

// ------------------------------------------------------------------------------------------
// endpoints
// ------------------------------------------------------------------------------------------

pub(crate) struct Endpoint {
    side: Side,
    pub(crate) cid: ConnectionId,
    initial: Keys,
    handshake: Keys,
    /// client: encrypt keys, server: decrypt keys (`ArcZeroRttKeys` is role-gated the same way)
    zero_rtt: Option<DirectionalKeys>,
    one_rtt: ArcOneRttKeys,
}

/// The keys a receive attempt uses, per packet type (normally the receiver's remote keys).
#[derive(Clone)]
pub(crate) struct KeyView {
    pub(crate) cid: ConnectionId,
    pub(crate) initial: DirectionalKeys,
    pub(crate) handshake: DirectionalKeys,
    pub(crate) zero_rtt: Option<DirectionalKeys>,
    pub(crate) one_rtt_hp: std::sync::Arc<dyn HeaderProtectionKey>,
    pub(crate) one_rtt_pk: ArcOneRttPacketKeys,
}

impl Endpoint {
    pub(crate) fn view(&self) -> KeyView {
        let (hp, pk) = self.one_rtt.remote_keys().expect("1-RTT keys installed");
        KeyView {
            cid: self.cid,
            initial: self.initial.remote.clone(),
            handshake: self.handshake.remote.clone(),
            zero_rtt: match self.side {
                Side::Server => self.zero_rtt.clone(),
                Side::Client => None,
            },
            one_rtt_hp: hp,
            one_rtt_pk: pk,
        }
    }
    fn phase(&self) -> KeyPhaseBit {
        let (_, pk) = self.one_rtt.remote_keys().expect("1-RTT keys installed");
        let phase = pk.lock_guard().get_local().0;
        phase
    }
    fn pk(&self) -> ArcOneRttPacketKeys {
        self.one_rtt.remote_keys().expect("1-RTT keys installed").1
    }
}

pub(crate) struct Ctx {
    client: Endpoint,
    server: Endpoint,
    pub(crate) negotiated: String,
}

fn cid_of(side: Side, len: usize) -> ConnectionId {
    let base: u8 = match side {
        Side::Client => 0x51,
        Side::Server => 0xa3,
    };
    let v: Vec<u8> = (0..len).map(|i| base.wrapping_add(i as u8 * 7)).collect();
    ConnectionId::from_slice(&v)
}

impl Ctx {
    pub(crate) fn new(suite: &str, cid_len: usize) -> Result<Ctx, String> {
        let cs = keys::suite_by_name(suite).ok_or_else(|| format!("unknown suite {suite}"))?;
        let mut hs = keys::handshake(cs, true)?;
        let (zc, zs) = match hs.zero_rtt.take() {
            Some((c, s)) => (Some(c), Some(s)),
            None => (None, None),
        };
        let client = Endpoint {
            side: Side::Client,
            cid: cid_of(Side::Client, cid_len),
            initial: keys::initial_keys(&ORIGIN_DCID, Side::Client),
            handshake: hs.client.handshake.clone(),
            zero_rtt: zc,
            one_rtt: hs.client.install_one_rtt(),
        };
        let server = Endpoint {
            side: Side::Server,
            cid: cid_of(Side::Server, cid_len),
            initial: keys::initial_keys(&ORIGIN_DCID, Side::Server),
            handshake: hs.server.handshake.clone(),
            zero_rtt: zs,
            one_rtt: hs.server.install_one_rtt(),
        };
        Ok(Ctx { client, server, negotiated: hs.negotiated })
    }
    pub(crate) fn ends(&self, dir: Dir) -> (&Endpoint, &Endpoint) {
        match dir {
            Dir::C2S => (&self.client, &self.server),
            Dir::S2C => (&self.server, &self.client),
        }
    }
}

// ------------------------------------------------------------------------------------------
// send path
// ------------------------------------------------------------------------------------------

#[derive(Clone)]
pub(crate) struct Sent {
    pub(crate) wire: Vec<u8>,
    ptype: PType,
    dcid: ConnectionId,
    scid: ConnectionId,
    token: Vec<u8>,
    spin: bool,
    pn: u64,
    enc: PacketNumber,
    key_phase: Option<KeyPhaseBit>,
    pub(crate) body: Vec<u8>,
    /// offset of the packet number (= end of header incl. length field)
    pn_off: usize,
    /// the first byte before header protection
    first_plain: u8,
}

fn pattern(i: usize) -> u8 {
    ((i * 151 + 17) % 251) as u8 | 0x02
}

/// What goes into the packet after the packet number.
#[derive(Debug, Clone, Copy)]
pub(crate) enum Fill<'a> {
    /// C06's own bodies: one PING, then pattern bytes / padding
    Std(Body),
    /// the payload is exactly these bytes (possibly none), written through `BufMut` as the
    /// frame writers do; used by C03c
    Raw(&'a [u8]),
}

/// PING frame through the real `assemble_packet`, then body bytes / padding through `BufMut`
/// exactly as the padding packages do, then `encrypt_and_protect_packet`.
fn fill_and_seal(mut w: PacketWriter<'_>, fill: Fill<'_>, pn_off: usize) -> Result<(usize, Vec<u8>, u8), String> {
    let pn_len = w.payload_len();
    let body = match fill {
        Fill::Std(body) => body,
        Fill::Raw(raw) => {
            if raw.len() > w.remaining_mut() {
                return Err(format!("raw payload of {} bytes does not fit", raw.len()));
            }
            if pn_len + raw.len() + w.tag_len() < 20 {
                return Err(format!(
                    "raw payload of {} bytes after a {pn_len}-byte packet number leaves no header-protection sample",
                    raw.len()
                ));
            }
            w.put_slice(raw);
            let (size, _info) = w.encrypt_and_protect_packet();
            return Ok((size, raw.to_vec(), 0));
        }
    };
    w.assemble_packet(&mut PingFrame)
        .map_err(|s| format!("assemble_packet(PING) refused: {s:?}"))?;
    let min_body = {
        // PadTo20: pad until payload_len + tag_len == 20
        let have = w.payload_len() + w.tag_len();
        (w.payload_len() - pn_len) + 20usize.saturating_sub(have)
    };
    let want = match body {
        Body::Min => min_body,
        Body::MinPlus1 => min_body + 1,
        Body::Len(n) => n.max(min_body),
        Body::Full => 1 + w.remaining_mut(),
    };
    if want - 1 > w.remaining_mut() {
        return Err(format!("body of {want} bytes does not fit"));
    }
    match body {
        Body::Min => w.put_bytes(0, want - 1),
        _ => {
            for i in 1..want {
                w.put_u8(pattern(i));
            }
        }
    }
    let end = pn_off + w.payload_len();
    let plain_body = w.buffer()[pn_off + pn_len..end].to_vec();
    let (size, info) = w.encrypt_and_protect_packet();
    if !info.ack_eliciting() {
        return Err("PacketInfo lost the PING (not ack-eliciting)".into());
    }
    Ok((size, plain_body, 0))
}

#[allow(clippy::too_many_arguments)]
fn send_into(
    buf: &mut [u8],
    snd: &Endpoint,
    dcid: ConnectionId,
    ptype: PType,
    pn: &Pn,
    body: Body,
    spin: bool,
) -> Result<Sent, String> {
    send_fill_into(buf, snd, dcid, ptype, pn, Fill::Std(body), spin)
}

/// `send_into` with the payload given either as one of C06's bodies or as exact bytes.
#[allow(clippy::too_many_arguments)]
pub(crate) fn send_fill_into(
    buf: &mut [u8],
    snd: &Endpoint,
    dcid: ConnectionId,
    ptype: PType,
    pn: &Pn,
    body: Fill<'_>,
    spin: bool,
) -> Result<Sent, String> {
    let scid = snd.cid;
    let enc = pn.encoded();
    let mut token = Vec::new();
    let mut key_phase = None;
    let (size, plain_body, pn_off, first_plain);
    match ptype {
        PType::Initial { token: n } => {
            token = (0..n).map(|i| 0x70u8.wrapping_add(i as u8)).collect();
            let header = LongHeaderBuilder::with_cid(dcid, scid).initial(token.clone());
            pn_off = header.size() + header.length_encoding();
            let w = PacketWriter::new_long(&header, buf, (pn.pn, enc), snd.initial.local.clone())
                .map_err(|s| format!("new_long refused: {s:?}"))?;
            (size, plain_body, _) = fill_and_seal(w, body, pn_off)?;
            first_plain = 0xc0 | (enc.size() as u8 - 1);
        }
        PType::ZeroRtt => {
            let keys = snd.zero_rtt.clone().ok_or("no 0-RTT keys")?;
            let header = LongHeaderBuilder::with_cid(dcid, scid).zero_rtt();
            pn_off = header.size() + header.length_encoding();
            let w = PacketWriter::new_long(&header, buf, (pn.pn, enc), keys)
                .map_err(|s| format!("new_long refused: {s:?}"))?;
            (size, plain_body, _) = fill_and_seal(w, body, pn_off)?;
            first_plain = 0xd0 | (enc.size() as u8 - 1);
        }
        PType::Handshake => {
            let header = LongHeaderBuilder::with_cid(dcid, scid).handshake();
            pn_off = header.size() + header.length_encoding();
            let w =
                PacketWriter::new_long(&header, buf, (pn.pn, enc), snd.handshake.local.clone())
                    .map_err(|s| format!("new_long refused: {s:?}"))?;
            (size, plain_body, _) = fill_and_seal(w, body, pn_off)?;
            first_plain = 0xe0 | (enc.size() as u8 - 1);
        }
        PType::OneRtt => {
            // DataSpace::new_packet
            let (hpk, pk) = snd.one_rtt.get_local_keys().ok_or("no 1-RTT keys")?;
            let (phase, pk) = pk.lock_guard().get_local();
            let header = OneRttHeader::new(SpinBit::from(spin), dcid);
            pn_off = header.size();
            let w = PacketWriter::new_short(
                &header,
                buf,
                (pn.pn, enc),
                DirectionalKeys { header: hpk, packet: pk },
                phase,
            )
            .map_err(|s| format!("new_short refused: {s:?}"))?;
            (size, plain_body, _) = fill_and_seal(w, body, pn_off)?;
            key_phase = Some(phase);
            first_plain = 0x40
                | if spin { 0x20 } else { 0 }
                | if phase == KeyPhaseBit::One { 0x04 } else { 0 }
                | (enc.size() as u8 - 1);
        }
    }
    Ok(Sent {
        wire: buf[..size].to_vec(),
        ptype,
        dcid,
        scid,
        token,
        spin: spin && ptype == PType::OneRtt,
        pn: pn.pn,
        enc,
        key_phase,
        body: plain_body,
        pn_off,
        first_plain,
    })
}

fn send(snd: &Endpoint, rcv: &Endpoint, ptype: PType, pn: &Pn, body: Body, spin: bool) -> Result<Sent, String> {
    let mut buf = vec![0u8; DATAGRAM];
    match catch(|| send_into(&mut buf, snd, rcv.cid, ptype, pn, body, spin)) {
        Ok(r) => r,
        Err(p) => Err(format!("PANIC {}", p.class())),
    }
}

// ------------------------------------------------------------------------------------------
// receive path
// ------------------------------------------------------------------------------------------

#[derive(Debug, Clone, Copy, PartialEq, Eq, PartialOrd, Ord)]
enum Verdict {
    Dropped,
    ConnError,
    Accepted,
}

impl Verdict {
    fn name(self) -> &'static str {
        match self {
            Verdict::Dropped => "dropped",
            Verdict::ConnError => "connection-error",
            Verdict::Accepted => "accepted",
        }
    }
}

#[derive(Debug, Clone, PartialEq, Eq)]
struct Delivered {
    ptype: PType,
    dcid: ConnectionId,
    scid: ConnectionId,
    token: Vec<u8>,
    spin: bool,
    pn: u64,
    pn_len: usize,
    body: Bytes,
}

#[derive(Debug, Clone)]
struct RxOut {
    verdict: Verdict,
    /// "long" / "short": which wrapper produced the verdict; "parse" / "route" / "ignored" else
    path: &'static str,
    why: String,
    delivered: Vec<Delivered>,
    packets: u32,
    /// packets handed to `CipherPacket::decrypt_*`
    wrapper_calls: u32,
    /// every `Some(Err(_))` of the datagram (a delivered neighbour must not hide it)
    conn_errors: Vec<(&'static str, String)>,
}

fn note(out: &mut RxOut, v: Verdict, path: &'static str, why: String) {
    if v > out.verdict || out.why.is_empty() {
        out.verdict = v.max(out.verdict);
        out.path = path;
        out.why = why;
    }
}

/// One datagram through the receive path with the given keys.
fn receive_inner(view: &KeyView, dgram: &[u8], expected: u64) -> RxOut {
    let mut out = RxOut {
        verdict: Verdict::Dropped,
        path: "parse",
        why: String::new(),
        delivered: vec![],
        packets: 0,
        wrapper_calls: 0,
        conn_errors: vec![],
    };
    let reader = PacketReader::new(BytesMut::from(dgram), view.cid.len());
    for item in reader {
        out.packets += 1;
        let packet = match item {
            Ok(p) => p,
            Err(e) => {
                note(&mut out, Verdict::Dropped, "parse", format!("PacketReader: {e}"));
                continue;
            }
        };
        let dp = match packet {
            Packet::VN(_) | Packet::Retry(_) => {
                note(&mut out, Verdict::Dropped, "ignored", "VN/Retry: RcvdPacketQueue::deliver ignores it".into());
                continue;
            }
            Packet::Data(dp) => dp,
        };
        if *dp.header.dcid() != view.cid {
            note(&mut out, Verdict::Dropped, "route", "DCID is not this connection's: unrouted".into());
            continue;
        }
        let decoder = |enc: PacketNumber| Ok(enc.decode(expected));
        let dcid = *dp.header.dcid();
        let qbase::packet::DataPacket { header, bytes, offset } = dp;
        // RcvdPacketQueue::deliver: CipherPacket::new(header, packet.bytes, packet.offset)
        let (path, res): (&'static str, Option<Result<Delivered, qbase::error::QuicError>>) = match header {
            DataHeader::Long(long::DataHeader::Initial(h)) => (
                "long",
                CipherPacket::new(h, bytes, offset)
                    .decrypt_long_packet(view.initial.header.as_ref(), view.initial.packet.as_ref(), decoder)
                    .map(|r| {
                        r.map(|p| {
                            let (pn, pn_len, body) = plain_parts(&p);
                            Delivered {
                                ptype: PType::Initial { token: p.token().len() },
                                dcid: *p.dcid(),
                                scid: *p.scid(),
                                token: p.token().clone(),
                                spin: false,
                                pn,
                                pn_len,
                                body,
                            }
                        })
                    }),
            ),
            DataHeader::Long(long::DataHeader::Handshake(h)) => (
                "long",
                CipherPacket::new(h, bytes, offset)
                    .decrypt_long_packet(view.handshake.header.as_ref(), view.handshake.packet.as_ref(), decoder)
                    .map(|r| {
                        r.map(|p| {
                            let (pn, pn_len, body) = plain_parts(&p);
                            Delivered { ptype: PType::Handshake, dcid: *p.dcid(), scid: *p.scid(), token: vec![], spin: false, pn, pn_len, body }
                        })
                    }),
            ),
            DataHeader::Long(long::DataHeader::ZeroRtt(h)) => match &view.zero_rtt {
                Some(k) => (
                    "long",
                    CipherPacket::new(h, bytes, offset)
                        .decrypt_long_packet(k.header.as_ref(), k.packet.as_ref(), decoder)
                        .map(|r| {
                            r.map(|p| {
                                let (pn, pn_len, body) = plain_parts(&p);
                                Delivered { ptype: PType::ZeroRtt, dcid: *p.dcid(), scid: *p.scid(), token: vec![], spin: false, pn, pn_len, body }
                            })
                        }),
                ),
                None => {
                    // DataSpace::decrypt_0rtt_packet: `get_decrypt_keys()?` ⇒ None
                    note(&mut out, Verdict::Dropped, "ignored", "0-RTT packet at a client: no decrypt keys".into());
                    continue;
                }
            },
            DataHeader::Short(h) => (
                "short",
                CipherPacket::new(h, bytes, offset)
                    .decrypt_short_packet(view.one_rtt_hp.as_ref(), &view.one_rtt_pk, decoder)
                    .map(|r| {
                        r.map(|p| {
                            let (pn, pn_len, body) = plain_parts(&p);
                            Delivered {
                                ptype: PType::OneRtt,
                                dcid: *p.dcid(),
                                scid: ConnectionId::default(),
                                token: vec![],
                                spin: p.spin() == SpinBit::One,
                                pn,
                                pn_len,
                                body,
                            }
                        })
                    }),
            ),
        };
        debug_assert_eq!(dcid, view.cid);
        out.wrapper_calls += 1;
        match res {
            None => note(&mut out, Verdict::Dropped, path, "CipherPacket::decrypt returned None".into()),
            Some(Err(e)) => {
                out.conn_errors.push((path, format!("{e}")));
                note(&mut out, Verdict::ConnError, path, format!("{e}"))
            }
            Some(Ok(d)) => {
                out.delivered.push(d);
                note(&mut out, Verdict::Accepted, path, "accepted".into());
            }
        }
    }
    out
}

fn plain_parts<H>(p: &PlainPacket<H>) -> (u64, usize, Bytes) {
    let body = p.body();
    (p.pn(), p.payload_len() - body.len(), body)
}

/// What header-protection removal alone shows of an untouched packet: the unmasked first byte,
/// the unmasked pn bytes and (short header) the key phase — through the real qbase functions.
fn check_unmasked(view: &KeyView, s: &Sent) -> Result<(), (&'static str, String)> {
    let r = catch(|| {
        let mut buf = s.wire.clone();
        let (enc, phase) = if s.ptype.is_long() {
            let hp = match s.ptype {
                PType::Initial { .. } => view.initial.header.clone(),
                PType::Handshake => view.handshake.header.clone(),
                _ => match &view.zero_rtt {
                    Some(k) => k.header.clone(),
                    None => return Err("no 0-RTT keys".to_string()),
                },
            };
            match remove_protection_of_long_packet(hp.as_ref(), &mut buf, s.pn_off) {
                Ok(Some(enc)) => (enc, None),
                other => return Err(format!("remove_protection_of_long_packet: {other:?}")),
            }
        } else {
            match remove_protection_of_short_packet(view.one_rtt_hp.as_ref(), &mut buf, s.pn_off) {
                Ok(Some((enc, phase))) => (enc, Some(phase)),
                other => return Err(format!("remove_protection_of_short_packet: {other:?}")),
            }
        };
        Ok((buf[0], buf[s.pn_off..s.pn_off + enc.size()].to_vec(), enc, phase))
    });
    let (first, pn_plain, enc, phase) = match r {
        Ok(Ok(x)) => x,
        Ok(Err(e)) => return Err(("header-mismatch", e)),
        Err(p) => return Err(("header-mismatch", format!("PANIC {}", p.class()))),
    };
    if first != s.first_plain {
        return Err(("header-mismatch", format!("first byte after unmasking {first:#04x}, assembled {:#04x}", s.first_plain)));
    }
    let mut pn_wire = Vec::new();
    {
        use qbase::packet::WritePacketNumber;
        pn_wire.put_packet_number(s.enc);
    }
    if enc.size() != s.enc.size() || pn_plain != pn_wire {
        return Err(("pn-mismatch", format!("pn bytes after unmasking {pn_plain:02x?}, assembled {pn_wire:02x?}")));
    }
    if phase != s.key_phase {
        return Err(("key-phase-mismatch", format!("sent {:?}, recovered {phase:?}", s.key_phase)));
    }
    Ok(())
}

fn receive(view: &KeyView, dgram: &[u8], expected: u64) -> Result<RxOut, PanicInfo> {
    catch(|| receive_inner(view, dgram, expected))
}

fn matches_sent(d: &Delivered, s: &Sent) -> Result<(), (&'static str, String)> {
    if d.ptype != s.ptype || d.dcid != s.dcid || d.token != s.token || d.spin != s.spin {
        return Err(("header-mismatch", format!("sent {:?} dcid {:?} token {:?} spin {}; got {:?} dcid {:?} token {:?} spin {}",
            s.ptype, s.dcid, s.token, s.spin, d.ptype, d.dcid, d.token, d.spin)));
    }
    if s.ptype.is_long() && d.scid != s.scid {
        return Err(("header-mismatch", format!("sent scid {:?}, got {:?}", s.scid, d.scid)));
    }
    if d.pn != s.pn || d.pn_len != s.enc.size() {
        return Err(("pn-mismatch", format!("sent pn {} in {} bytes, recovered {} in {} bytes", s.pn, s.enc.size(), d.pn, d.pn_len)));
    }
    if d.body[..] != s.body[..] {
        return Err(("body-mismatch", format!("sent {} body bytes, recovered {} (equal prefix {})", s.body.len(), d.body.len(),
            d.body.iter().zip(&s.body).take_while(|(a, b)| a == b).count())));
    }
    Ok(())
}

// ------------------------------------------------------------------------------------------
// per-case evaluation
// ------------------------------------------------------------------------------------------

#[derive(Default)]
struct Found {
    /// signature -> (detail, replay, hits, rank); rank 0 = the witness does not depend on the
    /// (per-run random) handshake keys, so its replay reproduces on the first attempt
    v: BTreeMap<String, (String, Value, u64, u8)>,
}

impl Found {
    fn add(&mut self, sig: String, detail: String, replay: impl FnOnce() -> Value) {
        self.add_ranked(sig, 1, detail, replay)
    }
    fn add_ranked(&mut self, sig: String, rank: u8, detail: String, replay: impl FnOnce() -> Value) {
        match self.v.get_mut(&sig) {
            Some(e) => {
                e.2 += 1;
                if rank < e.3 {
                    e.0 = detail;
                    e.1 = replay();
                    e.3 = rank;
                }
            }
            None => {
                self.v.insert(sig, (detail, replay(), 1, rank));
            }
        }
    }
    fn merge(&mut self, other: Found) {
        for (sig, (detail, replay, hits, rank)) in other.v {
            match self.v.get_mut(&sig) {
                Some(e) => {
                    e.2 += hits;
                    if rank < e.3 {
                        e.0 = detail;
                        e.1 = replay;
                        e.3 = rank;
                    }
                }
                None => {
                    self.v.insert(sig, (detail, replay, hits, rank));
                }
            }
        }
    }
}

#[derive(Default)]
struct Counts {
    cases: u64,
    roundtrip_ok: u64,
    receive_attempts: u64,
    wrapper_calls: u64,
    /// receives that re-verify the genuine packet after an unauthenticated key update (their
    /// number depends on the per-run random keys, so they are kept out of `receive_attempts`)
    reverifications: u64,
    distinct: u64,
    unauth_key_updates: u64,
    rebuilds: u64,
    same_pn_skipped: u64,
    /// "<clause>: <region> -> <outcome>"
    hist: BTreeMap<String, u64>,
}

impl Counts {
    fn merge(&mut self, o: &Counts) {
        self.cases += o.cases;
        self.roundtrip_ok += o.roundtrip_ok;
        self.receive_attempts += o.receive_attempts;
        self.wrapper_calls += o.wrapper_calls;
        self.reverifications += o.reverifications;
        self.distinct += o.distinct;
        self.unauth_key_updates += o.unauth_key_updates;
        self.rebuilds += o.rebuilds;
        self.same_pn_skipped += o.same_pn_skipped;
        for (k, v) in &o.hist {
            *self.hist.entry(k.clone()).or_default() += v;
        }
    }
    fn rx(&mut self, o: &RxOut) {
        self.receive_attempts += 1;
        self.wrapper_calls += o.wrapper_calls as u64;
    }
}

#[derive(Default)]
struct CaseResult {
    found: Found,
    /// per sub-check: roundtrip, bitflip, wrong-pn, wrong-key, key-update
    counts: BTreeMap<&'static str, Counts>,
    sample: Option<Value>,
}

impl CaseResult {
    fn c(&mut self, sub: &'static str) -> &mut Counts {
        self.counts.entry(sub).or_default()
    }
}

fn region(s: &Sent, bit: usize) -> String {
    let byte = bit / 8;
    let mask = 1u8 << (bit % 8);
    let long = s.ptype.is_long();
    if byte == 0 {
        let n = match (long, mask) {
            (_, 0x80) => "form",
            (_, 0x40) => "fixed",
            (true, 0x20 | 0x10) => "type",
            (true, 0x08 | 0x04) => "reserved",
            (false, 0x20) => "spin",
            (false, 0x10 | 0x08) => "reserved",
            (false, 0x04) => "key-phase",
            _ => "pn-len",
        };
        return format!("byte0.{n}");
    }
    let pn_len = s.enc.size();
    if byte >= s.pn_off {
        let rel = byte - s.pn_off;
        let base = if rel < pn_len {
            "pn"
        } else if byte >= s.wire.len() - 16 {
            "tag"
        } else {
            "body"
        };
        return if (4..20).contains(&rel) { format!("{base}+hp-sample") } else { base.to_string() };
    }
    if !long {
        return "dcid".into();
    }
    let dl = s.dcid.len();
    let sl = s.scid.len();
    let mut o = 1;
    for (name, len) in [("version", 4), ("dcid-len", 1), ("dcid", dl), ("scid-len", 1), ("scid", sl)] {
        if byte < o + len {
            return name.into();
        }
        o += len;
    }
    if let PType::Initial { token } = s.ptype {
        let tl = if token < 64 { 1 } else { 2 };
        if byte < o + tl {
            return "token-len".into();
        }
        o += tl;
        if byte < o + token {
            return "token".into();
        }
    }
    "length".into()
}

struct Live {
    ctx: Ctx,
    sent: Sent,
}

fn apply_ops(ctx: &Ctx, case: &Case) -> Result<(), String> {
    let mut probe_pn: u64 = 1;
    let ops = scenario_ops(&case.scenario).ok_or_else(|| format!("unknown scenario {}", case.scenario))?;
    for (i, op) in ops.iter().enumerate() {
        let (s, r) = ctx.ends(case.dir);
        match op {
            KeyOp::UpdS => catch(|| s.pk().lock_guard().update()).map_err(|p| format!("PANIC {}", p.class()))?,
            KeyOp::UpdR => catch(|| r.pk().lock_guard().update()).map_err(|p| format!("PANIC {}", p.class()))?,
            KeyOp::PhaseOutS => catch(|| s.pk().lock_guard().phase_out()).map_err(|p| format!("PANIC {}", p.class()))?,
            KeyOp::PhaseOutR => catch(|| r.pk().lock_guard().phase_out()).map_err(|p| format!("PANIC {}", p.class()))?,
            KeyOp::XchgSR | KeyOp::XchgRS => {
                let (from, to) = if *op == KeyOp::XchgSR { (s, r) } else { (r, s) };
                let pn = Pn { pn: probe_pn, la: Some(probe_pn - 1), forced_len: None, expected: probe_pn };
                let sent = send(from, to, PType::OneRtt, &pn, Body::Min, false)?;
                let out = receive(&to.view(), &sent.wire, pn.expected).map_err(|p| format!("PANIC {}", p.class()))?;
                let ok = out.verdict == Verdict::Accepted
                    && out.delivered.len() == 1
                    && matches_sent(&out.delivered[0], &sent).is_ok();
                if !ok {
                    return Err(format!("step {i} ({op:?}): exchange packet {} ({})", out.verdict.name(), out.why));
                }
                probe_pn += 1;
            }
        }
    }
    Ok(())
}

fn build(case: &Case) -> Result<Live, (String, String)> {
    let ctx = Ctx::new(&case.suite, case.cid_len).map_err(|e| ("machinery".to_string(), e))?;
    apply_ops(&ctx, case).map_err(|e| (format!("keyupdate/{}/setup-failed", case.scenario), e))?;
    let (s, r) = ctx.ends(case.dir);
    let sent = send(s, r, case.ptype, &case.pn, case.body, case.spin)
        .map_err(|e| ("roundtrip/send-failed".to_string(), e))?;
    Ok(Live { ctx, sent })
}

fn path_of(case: &Case, out: &RxOut) -> &'static str {
    match out.path {
        "long" | "short" => out.path,
        _ => {
            if case.ptype.is_long() {
                "long"
            } else {
                "short"
            }
        }
    }
}

/// Oracle A. `Ok(())` iff exactly the assembled packet came out.
fn check_roundtrip(case: &Case, live: &Live) -> Result<RxOut, (String, String)> {
    let (_, r) = live.ctx.ends(case.dir);
    let out = match receive(&r.view(), &live.sent.wire, case.pn.expected) {
        Ok(o) => o,
        Err(p) => return Err((format!("panic/{}", p.class()), format!("receive path panicked on an untouched packet: {} at {}", p.message, p.location))),
    };
    let kind = if case.ptype.is_long() { "long" } else { "short" };
    let scen = if case.scenario == "k0" { String::new() } else { format!("/{}", case.scenario) };
    if out.verdict != Verdict::Accepted {
        return Err((
            format!("roundtrip/not-accepted/{kind}{scen}"),
            format!("untouched {} packet was {}: {}", case.ptype.name(), out.verdict.name(), out.why),
        ));
    }
    if out.delivered.len() != 1 || out.packets != 1 {
        return Err((format!("roundtrip/packet-count/{kind}"), format!("{} packets parsed, {} delivered", out.packets, out.delivered.len())));
    }
    if let Err((what, detail)) = matches_sent(&out.delivered[0], &live.sent) {
        return Err((format!("roundtrip/{what}/{kind}{scen}"), detail));
    }
    if let Err((what, detail)) = check_unmasked(&r.view(), &live.sent) {
        return Err((format!("roundtrip/{what}/{kind}{scen}"), detail));
    }
    Ok(out)
}

fn replay_json(sub: &str, case: &Case, tamper: &Tamper) -> Value {
    json!({"sub": sub, "case": case, "tamper": tamper})
}

/// Evaluates one tamper on a live context. Returns the outcome and whether the receiver's
/// 1-RTT key state changed.
fn eval_tamper(case: &Case, live: &Live, tamper: &Tamper) -> Result<(RxOut, bool), PanicInfo> {
    let (s, r) = live.ctx.ends(case.dir);
    let before = r.phase();
    let out = match tamper {
        Tamper::None => receive(&r.view(), &live.sent.wire, case.pn.expected)?,
        Tamper::Flip { bits } => {
            let mut d = live.sent.wire.clone();
            for b in bits {
                d[b / 8] ^= 1 << (b % 8);
            }
            receive(&r.view(), &d, case.pn.expected)?
        }
        Tamper::WrongPn { expected } => receive(&r.view(), &live.sent.wire, *expected)?,
        Tamper::WrongKey { kind } => {
            let own = r.view();
            let view = match kind.as_str() {
                // the keys of the opposite direction (what the sender itself decrypts with)
                "other-direction" => {
                    let mut v = s.view();
                    v.cid = own.cid;
                    if v.zero_rtt.is_none() {
                        v.zero_rtt = Some(s.handshake.remote.clone());
                    }
                    v
                }
                // every space holds another epoch's keys
                "other-epoch" => KeyView {
                    cid: own.cid,
                    initial: own.handshake.clone(),
                    handshake: own.initial.clone(),
                    zero_rtt: Some(own.initial.clone()),
                    one_rtt_hp: own.handshake.header.clone(),
                    one_rtt_pk: own.one_rtt_pk.clone(),
                },
                // right header-protection key, wrong packet key: reaches the AEAD
                "right-hp-wrong-pk" => {
                    let other = Ctx::new(&case.suite, case.cid_len).map_err(|e| PanicInfo { message: e, location: "harness".into() })?;
                    let (_, or) = other.ends(case.dir);
                    let ov = or.view();
                    KeyView {
                        cid: own.cid,
                        initial: DirectionalKeys { header: own.initial.header.clone(), packet: own.handshake.packet.clone() },
                        handshake: DirectionalKeys { header: own.handshake.header.clone(), packet: own.initial.packet.clone() },
                        zero_rtt: own.zero_rtt.as_ref().map(|z| DirectionalKeys { header: z.header.clone(), packet: own.handshake.packet.clone() }),
                        one_rtt_hp: own.one_rtt_hp.clone(),
                        one_rtt_pk: ov.one_rtt_pk,
                    }
                }
                // the keys of another connection (fresh handshake, other original DCID)
                "other-connection" => {
                    let other = Ctx::new(&case.suite, case.cid_len).map_err(|e| PanicInfo { message: e, location: "harness".into() })?;
                    let (_, or) = other.ends(case.dir);
                    let mut v = or.view();
                    let alt = keys::initial_keys(&[0x11, 0x22, 0x33, 0x44, 0x55, 0x66, 0x77, 0x88], or.side);
                    v.initial = alt.remote;
                    v.cid = own.cid;
                    v
                }
                // 1-RTT: the receiver is two generations ahead on the same key-phase bit
                "two-generations-ahead" => {
                    let pk = r.pk();
                    catch(|| {
                        pk.lock_guard().update();
                        pk.lock_guard().phase_out();
                        pk.lock_guard().update();
                    })?;
                    own
                }
                other => {
                    return Err(PanicInfo { message: format!("unknown wrong-key kind {other}"), location: "harness".into() });
                }
            };
            receive(&view, &live.sent.wire, case.pn.expected)?
        }
    };
    // wrong-key views may touch either endpoint's 1-RTT key state: always start afresh after them
    let changed = r.phase() != before || matches!(tamper, Tamper::WrongKey { .. });
    Ok((out, changed))
}

/// Judges a tampered presentation. `Some((signature, detail))` on violation.
fn judge(case: &Case, clause: &str, tamper: &Tamper, live: &Live, out: &RxOut) -> Option<(String, String)> {
    let path = path_of(case, out);
    let what = match tamper {
        Tamper::Flip { bits } => format!(
            "bit(s) {:?} flipped ({})",
            bits,
            bits.iter().map(|b| region(&live.sent, *b)).collect::<Vec<_>>().join(", ")
        ),
        Tamper::WrongPn { expected } => format!("receiver expecting pn {expected} instead of {}", case.pn.expected),
        Tamper::WrongKey { kind } => format!("receiver holding wrong keys ({kind})"),
        Tamper::None => "untouched".into(),
    };
    match out.verdict {
        Verdict::Dropped => None,
        Verdict::Accepted => Some((
            format!("{clause}/accepted/{path}"),
            format!("{} packet ({} bytes) with {what} was ACCEPTED: {} packet(s) delivered", case.ptype.name(), live.sent.wire.len(), out.delivered.len()),
        )),
        Verdict::ConnError => Some((
            format!("{clause}/connection-error-before-aead/{path}"),
            format!(
                "{} packet ({} bytes) with {what}: wrapper returned Some(Err(\"{}\")) — the caller closes the connection on an unauthenticated packet; must be a silent drop",
                case.ptype.name(), live.sent.wire.len(), out.why
            ),
        )),
    }
}

/// The packet number as the receiver sees it: parsed back from its wire bytes (`encode` leaves
/// bits above the 24th set inside `U24`; only the wire form is meaningful to `decode`).
fn on_wire(enc: PacketNumber) -> PacketNumber {
    use qbase::packet::WritePacketNumber;
    let mut b: Vec<u8> = Vec::new();
    b.put_packet_number(enc);
    qbase::packet::take_pn_len(enc.size() as u8)(&b).map(|(_, p)| p).unwrap_or(enc)
}

fn wrong_key_kinds(case: &Case) -> Vec<&'static str> {
    let mut v = vec!["other-direction", "other-epoch", "right-hp-wrong-pk", "other-connection"];
    if case.ptype == PType::OneRtt {
        v.push("two-generations-ahead");
    }
    v
}

fn wrong_pn_candidates(case: &Case, enc: PacketNumber) -> Vec<u64> {
    let win = 1u64 << (8 * enc.size());
    let e = case.pn.expected;
    let mut v = vec![e + win, e + 2 * win, e + win / 2 + 1, e + win - 1, e.wrapping_sub(win), e.wrapping_sub(win / 2 + 1), 0, win, (1 << 62) - 1];
    v.retain(|x| *x < (1 << 62));
    v.sort();
    v.dedup();
    v
}

#[derive(Clone, Copy, PartialEq, Eq)]
enum Mode {
    Normal,
    TwoBitOnly,
}

fn run_case(case: &Case, mode: Mode) -> CaseResult {
    let mut res = CaseResult::default();
    let sub_rt: &'static str = if case.scenario == "k0" { "roundtrip" } else { "key-update" };
    res.c(sub_rt).cases += 1;
    let mut live = match build(case) {
        Ok(l) => l,
        Err((sig, detail)) => {
            res.found.add(sig, format!("{detail} [{}]", case.ptype.name()), || replay_json(sub_rt, case, &Tamper::None));
            return res;
        }
    };
    // ---- oracle A
    let rt = check_roundtrip(case, &live);
    res.c(sub_rt).receive_attempts += 1;
    match rt {
        Ok(out) => {
            let c = res.c(sub_rt);
            c.wrapper_calls += out.wrapper_calls as u64;
            c.roundtrip_ok += 1;
            c.distinct += 1;
            *c.hist.entry(format!("{} pn_len {} -> accepted", case.ptype.name(), live.sent.enc.size())).or_default() += 1;
        }
        Err((sig, detail)) => {
            *res.c(sub_rt).hist.entry(format!("{} -> FAILED", case.ptype.name())).or_default() += 1;
            res.found.add(sig, detail, || replay_json(sub_rt, case, &Tamper::None));
            return res; // tamper cases need a packet that round-trips
        }
    }
    res.sample = Some(json!({
        "case": case,
        "negotiated": live.ctx.negotiated,
        "wire_len": live.sent.wire.len(),
        "pn_len": live.sent.enc.size(),
        "body_len": live.sent.body.len(),
        "wire_head": hex(&live.sent.wire[..live.sent.wire.len().min(48)]),
    }));

    // ---- oracle B
    let mut tampers: Vec<(&'static str, &'static str, Tamper)> = Vec::new();
    let nbits = live.sent.wire.len() * 8;
    if mode == Mode::TwoBitOnly {
        for a in 0..nbits {
            for b in a + 1..nbits {
                tampers.push(("bitflip2", "tamper", Tamper::Flip { bits: vec![a, b] }));
            }
        }
    } else {
        for b in 0..nbits {
            tampers.push(("bitflip", "tamper", Tamper::Flip { bits: vec![b] }));
        }
        for e in wrong_pn_candidates(case, live.sent.enc) {
            if on_wire(live.sent.enc).decode(e) == case.pn.pn {
                res.c("wrong-pn").same_pn_skipped += 1;
                continue;
            }
            tampers.push(("wrong-pn", "wrongpn", Tamper::WrongPn { expected: e }));
        }
        for k in wrong_key_kinds(case) {
            tampers.push(("wrong-key", "wrongkey", Tamper::WrongKey { kind: k.to_string() }));
        }
    }

    let mut seen: HashSet<(&'static str, Vec<usize>, u64, String)> = HashSet::new();
    for (sub, clause, t) in tampers {
        let key = match &t {
            Tamper::Flip { bits } => (sub, bits.clone(), 0, String::new()),
            Tamper::WrongPn { expected } => (sub, vec![], *expected, String::new()),
            Tamper::WrongKey { kind } => (sub, vec![], 0, kind.clone()),
            Tamper::None => (sub, vec![], 0, String::new()),
        };
        if seen.insert(key) {
            res.c(sub).distinct += 1;
        }
        let (out, changed) = match eval_tamper(case, &live, &t) {
            Ok(x) => x,
            Err(p) if p.location == "harness" => {
                res.found.add("machinery".into(), p.message.clone(), || replay_json(sub, case, &t));
                continue;
            }
            Err(p) => {
                res.c(sub).receive_attempts += 1;
                let what = match &t {
                    Tamper::Flip { bits } => bits.iter().map(|b| region(&live.sent, *b)).collect::<Vec<_>>().join(","),
                    _ => "keys".into(),
                };
                *res.c(sub).hist.entry(format!("{what} -> PANIC")).or_default() += 1;
                res.found.add(
                    format!("panic/{}", p.class()),
                    format!("receive path panicked on a {} packet with {:?} ({what}): {} at {}", case.ptype.name(), t, p.message, p.location),
                    || replay_json(sub, case, &t),
                );
                continue;
            }
        };
        res.c(sub).rx(&out);
        let label = match &t {
            Tamper::Flip { bits } if bits.len() == 1 => region(&live.sent, bits[0]),
            Tamper::Flip { .. } => "two bits".into(),
            Tamper::WrongPn { .. } => "wrong expected pn".into(),
            Tamper::WrongKey { kind } => kind.clone(),
            Tamper::None => "none".into(),
        };
        let long_short = if case.ptype.is_long() { "long" } else { "short" };
        *res.c(sub).hist.entry(format!("{long_short} {label} -> {}", out.verdict.name())).or_default() += 1;
        if let Some((sig, detail)) = judge(case, clause, &t, &live, &out) {
            // a flipped reserved bit of the packet's own first byte is reserved after unmasking
            // whatever the keys are
            let key_independent = matches!(&t, Tamper::Flip { bits } if bits.len() == 1 && label == "byte0.reserved")
                && out.path == long_short;
            res.found.add_ranked(sig, if key_independent { 0 } else { 1 }, detail, || replay_json(sub, case, &t));
        }
        if changed {
            // the receiver's 1-RTT key state moved because of a packet it did not authenticate:
            // the genuine packet must still be deliverable, then start again from a clean state
            if !matches!(t, Tamper::WrongKey { .. }) {
                res.c(sub).unauth_key_updates += 1;
                if out.verdict == Verdict::Dropped {
                    let again = check_roundtrip(case, &live);
                    res.c(sub).reverifications += 1;
                    if let Err((sig, detail)) = again {
                        res.found.add(
                            format!("tamper/receiver-state-corrupted/{}", sig.replace('/', ".")),
                            format!("after dropping a packet with {t:?} the receiver performed a key update and the genuine packet is no longer delivered: {detail}"),
                            || replay_json(sub, case, &t),
                        );
                    }
                }
            }
            res.c(sub).rebuilds += 1;
            match build(case).and_then(|l| check_roundtrip(case, &l).map(|_| l)) {
                Ok(l) => live = l,
                Err((sig, detail)) => {
                    res.found.add(format!("{sig}/on-rebuild"), detail, || replay_json(sub, case, &Tamper::None));
                    return res;
                }
            }
        }
    }
    res
}

pub(crate) fn hex(b: &[u8]) -> String {
    b.iter().map(|x| format!("{x:02x}")).collect()
}

// ------------------------------------------------------------------------------------------
// coalesced datagram
// ------------------------------------------------------------------------------------------

#[derive(Debug, Clone, Serialize, Deserialize)]
struct CoalescedCase {
    suite: String,
    cid_len: usize,
    dir: Dir,
}

/// Initial + Handshake + 1-RTT in one datagram, assembled back to back in one buffer as the
/// transmit path does.
fn build_coalesced(c: &CoalescedCase) -> Result<(Ctx, Vec<Sent>, Vec<u8>), String> {
    let ctx = Ctx::new(&c.suite, c.cid_len)?;
    let (s, r) = ctx.ends(c.dir);
    let mut buf = vec![0u8; DATAGRAM];
    let mut off = 0;
    let mut sents = Vec::new();
    for (ptype, body) in [
        (PType::Initial { token: 0 }, Body::Len(60)),
        (PType::Handshake, Body::Len(41)),
        (PType::OneRtt, Body::Len(77)),
    ] {
        let pn = P2;
        let sent = match catch(|| send_into(&mut buf[off..], s, r.cid, ptype, &pn, body, true)) {
            Ok(x) => x?,
            Err(p) => return Err(format!("PANIC {}", p.class())),
        };
        off += sent.wire.len();
        sents.push(sent);
    }
    buf.truncate(off);
    Ok((ctx, sents, buf))
}

fn run_coalesced(c: &CoalescedCase, only_bits: Option<Vec<usize>>) -> CaseResult {
    let mut res = CaseResult::default();
    let sub = "coalesced";
    res.c(sub).cases += 1;
    let rj = |bit: Option<usize>| json!({"sub": "coalesced", "case": c, "bit": bit});
    let mk = || build_coalesced(c);
    let (mut ctx, mut sents, mut dgram) = match mk() {
        Ok(x) => x,
        Err(e) => {
            res.found.add("roundtrip/send-failed/coalesced".into(), e, || rj(None));
            return res;
        }
    };
    let expected = P2.expected;
    let verify = |ctx: &Ctx, sents: &[Sent], dgram: &[u8]| -> Result<RxOut, (String, String)> {
        let (_, r) = ctx.ends(c.dir);
        let out = receive(&r.view(), dgram, expected).map_err(|p| (format!("panic/{}", p.class()), p.message.clone()))?;
        if out.delivered.len() != sents.len() {
            return Err(("roundtrip/not-accepted/coalesced".into(), format!("{} of {} coalesced packets delivered ({}: {})", out.delivered.len(), sents.len(), out.verdict.name(), out.why)));
        }
        for (d, s) in out.delivered.iter().zip(sents) {
            matches_sent(d, s).map_err(|(w, det)| (format!("roundtrip/{w}/coalesced"), det))?;
        }
        Ok(out)
    };
    match verify(&ctx, &sents, &dgram) {
        Ok(out) => {
            let cc = res.c(sub);
            cc.rx(&out);
            cc.roundtrip_ok += 1;
        }
        Err((sig, det)) => {
            res.found.add(sig, det, || rj(None));
            return res;
        }
    }
    res.sample = Some(json!({"case": c, "datagram_len": dgram.len(), "packets": sents.iter().map(|s| json!({"type": s.ptype.name(), "len": s.wire.len()})).collect::<Vec<_>>()}));
    let bits: Vec<usize> = match only_bits {
        Some(b) => b.into_iter().filter(|b| *b < dgram.len() * 8).collect(),
        None => (0..dgram.len() * 8).collect(),
    };
    for bit in bits {
        res.c(sub).distinct += 1;
        let mut d = dgram.clone();
        d[bit / 8] ^= 1 << (bit % 8);
        // which packet owns the bit
        let mut start = 0;
        let mut owner = 0;
        for (i, s) in sents.iter().enumerate() {
            if bit / 8 < start + s.wire.len() {
                owner = i;
                break;
            }
            start += s.wire.len();
        }
        let (_, r) = ctx.ends(c.dir);
        let before = r.phase();
        let out = match receive(&r.view(), &d, expected) {
            Ok(o) => o,
            Err(p) => {
                res.c(sub).receive_attempts += 1;
                *res.c(sub).hist.entry(format!("packet {owner} -> PANIC")).or_default() += 1;
                res.found.add(format!("panic/{}", p.class()), format!("coalesced datagram, bit {bit} (packet {owner}, {}): {} at {}", region_in(&sents, bit), p.message, p.location), || rj(Some(bit)));
                continue;
            }
        };
        res.c(sub).rx(&out);
        let conn_err = !out.conn_errors.is_empty();
        // delivered packets must be untouched originals other than the owner
        let mut bad = None;
        for dl in &out.delivered {
            let hit = sents.iter().position(|s| matches_sent(dl, s).is_ok());
            match hit {
                Some(i) if i != owner => {}
                _ => bad = Some(dl.clone()),
            }
        }
        let outcome = if bad.is_some() { "tampered-accepted" } else if conn_err { "connection-error" } else { "discarded" };
        *res.c(sub).hist.entry(format!("packet {owner} {} -> {outcome}; {} others delivered", sents[owner].ptype.name(), out.delivered.len())).or_default() += 1;
        if let Some(b) = bad {
            res.found.add("tamper/accepted/coalesced".into(), format!("bit {bit} of packet {owner} flipped; delivered {:?} pn {} with {} body bytes", b.ptype, b.pn, b.body.len()), || rj(Some(bit)));
        }
        for (path, why) in &out.conn_errors {
            res.found.add(format!("tamper/connection-error-before-aead/{path}"), format!("coalesced datagram, bit {bit} (packet {owner}, {}): wrapper returned Some(Err(\"{why}\"))", region_in(&sents, bit)), || rj(Some(bit)));
        }
        if r.phase() != before {
            res.c(sub).rebuilds += 1;
            match mk() {
                Ok(x) => (ctx, sents, dgram) = x,
                Err(e) => {
                    res.found.add("machinery".into(), e, || rj(None));
                    return res;
                }
            }
        }
    }
    res
}

fn region_in(sents: &[Sent], bit: usize) -> String {
    let mut start = 0;
    for s in sents {
        if bit / 8 < start + s.wire.len() {
            return region(s, bit - start * 8);
        }
        start += s.wire.len();
    }
    "?".into()
}

// ------------------------------------------------------------------------------------------
// case lists
// ------------------------------------------------------------------------------------------

fn case(suite: &str, dir: Dir, ptype: PType, cid_len: usize, body: Body, pn: Pn, spin: bool, scenario: &str) -> Case {
    Case { suite: suite.into(), dir, ptype, cid_len, body, pn, spin, scenario: scenario.into() }
}

const SCENARIOS: [&str; 7] = ["k0", "snd-upd1", "rcv-upd1", "rcv-upd1-followed", "both-upd1", "snd-upd2", "rcv-upd2"];

fn cases(thorough: bool, with_no_phase_out: bool) -> Vec<Case> {
    let mut v = Vec::new();
    let types = |tokens: &[usize]| -> Vec<PType> {
        let mut t: Vec<PType> = tokens.iter().map(|n| PType::Initial { token: *n }).collect();
        t.extend([PType::ZeroRtt, PType::Handshake, PType::OneRtt]);
        t
    };
    let mut scen: Vec<&str> = SCENARIOS.to_vec();
    if with_no_phase_out {
        scen.push("snd-upd2-no-phase-out");
    }
    if !thorough {
        // A: the grid of the design, client → server
        for pt in types(&[0, 1, 64]) {
            for cid in [0, 8, 20] {
                for body in [Body::Min, Body::MinPlus1, Body::Len(100), Body::Full] {
                    for pn in [P1, P2, P3, P4] {
                        v.push(case("aes128gcm", Dir::C2S, pt, cid, body, pn, false, "k0"));
                    }
                }
            }
        }
        // B: server → client
        for pt in [PType::Initial { token: 0 }, PType::Handshake, PType::OneRtt] {
            for cid in [0, 8, 20] {
                for body in [Body::Min, Body::Len(100)] {
                    for pn in [P2_FIRST, P4, P2_MAX] {
                        v.push(case("aes128gcm", Dir::S2C, pt, cid, body, pn, true, "k0"));
                    }
                }
            }
        }
        // C: key updates on either side
        for s in scen.iter().filter(|s| **s != "k0") {
            for dir in [Dir::C2S, Dir::S2C] {
                for body in [Body::Min, Body::Len(100)] {
                    v.push(case("aes128gcm", dir, PType::OneRtt, 8, body, P2, dir == Dir::S2C, s));
                }
            }
        }
        // D: the other two AEADs / header-protection ciphers
        for suite in ["aes256gcm", "chacha20poly1305"] {
            for (pt, s) in [(PType::ZeroRtt, "k0"), (PType::Handshake, "k0"), (PType::OneRtt, "k0"), (PType::OneRtt, "snd-upd1")] {
                for body in [Body::Min, Body::Len(100), Body::Full] {
                    for pn in [P1, P2, P3, P4] {
                        v.push(case(suite, Dir::C2S, pt, 8, body, pn, true, s));
                    }
                }
            }
        }
    } else {
        let cids: Vec<usize> = (0..=20).collect();
        let bodies = [Body::Min, Body::MinPlus1, Body::Len(50), Body::Len(100), Body::Len(600), Body::Full];
        let pns = [P1, P2_FIRST, P2, P3, P4, P2_MAX, P4_MAXGAP];
        for (suite, _) in keys::SUITES {
            for dir in [Dir::C2S, Dir::S2C] {
                for pt in types(&[0, 1, 63, 64, 200]) {
                    if pt == PType::ZeroRtt && dir == Dir::S2C {
                        continue;
                    }
                    if matches!(pt, PType::Initial { .. }) && suite != "aes128gcm" {
                        continue; // Initial keys do not depend on the negotiated suite
                    }
                    for &cid in &cids {
                        // every CID length with two body sizes, the full body × pn grid at 0/8/20
                        let grid = matches!(cid, 0 | 8 | 20);
                        for body in bodies {
                            if !grid && !matches!(body, Body::Min | Body::Len(100)) {
                                continue;
                            }
                            for pn in pns {
                                if !grid && !matches!(pn, p if p == P1 || p == P4) {
                                    continue;
                                }
                                v.push(case(suite, dir, pt, cid, body, pn, cid % 2 == 1, "k0"));
                            }
                        }
                    }
                }
                for s in scen.iter().filter(|s| **s != "k0") {
                    for cid in [0, 8, 20] {
                        for body in [Body::Min, Body::Len(100), Body::Full] {
                            for pn in [P1, P2, P4] {
                                v.push(case(suite, dir, PType::OneRtt, cid, body, pn, true, s));
                            }
                        }
                    }
                }
            }
        }
    }
    v
}

fn two_bit_cases() -> Vec<Case> {
    let mut v = Vec::new();
    for pt in [PType::Initial { token: 0 }, PType::ZeroRtt, PType::Handshake, PType::OneRtt] {
        for pn in [P1, P4] {
            v.push(case("aes128gcm", Dir::C2S, pt, 0, Body::Min, pn, false, "k0"));
        }
    }
    v.push(case("chacha20poly1305", Dir::C2S, PType::OneRtt, 8, Body::Min, P2, true, "snd-upd1"));
    v
}

/// Does anything in the tree outside `keys.rs` call `phase_out(`? (text scan; decides whether
/// the "nobody phases out" receiver is the real one)
fn phase_out_callers() -> Vec<String> {
    fn walk(dir: &std::path::Path, out: &mut Vec<String>) {
        let Ok(rd) = std::fs::read_dir(dir) else { return };
        let mut entries: Vec<_> = rd.flatten().map(|e| e.path()).collect();
        entries.sort();
        for p in entries {
            let name = p.file_name().and_then(|n| n.to_str()).unwrap_or("");
            if p.is_dir() {
                if matches!(name, "target" | ".git" | "tests" | "examples" | "benches") {
                    continue;
                }
                walk(&p, out);
            } else if name.ends_with(".rs") && !p.ends_with("qbase/src/packet/keys.rs") {
                if let Ok(s) = std::fs::read_to_string(&p) {
                    if s.lines().any(|l| l.contains(".phase_out(") && !l.trim_start().starts_with("//")) {
                        out.push(p.display().to_string());
                    }
                }
            }
        }
    }
    let mut out = Vec::new();
    walk(std::path::Path::new("/repo"), &mut out);
    out
}

// ------------------------------------------------------------------------------------------
// entry points
// ------------------------------------------------------------------------------------------

fn replay(args: &Args, path: &std::path::Path) -> i32 {
    let r = mc_core::report::load_replay(path);
    let sub = r["sub"].as_str().unwrap_or("").to_string();
    let _ = args;
    if sub == "coalesced" {
        let c: CoalescedCase = match serde_json::from_value(r["case"].clone()) {
            Ok(c) => c,
            Err(e) => {
                eprintln!("replay: bad case: {e}");
                return 2;
            }
        };
        let bits: Vec<usize> = r["bit"].as_u64().map(|b| b as usize).into_iter().collect();
        let mut code = 0;
        for _attempt in 0..8 {
            let res = run_coalesced(&c, Some(bits.clone()));
            code = print_found(&res);
            if code != 0 {
                break;
            }
        }
        return code;
    }
    let case: Case = match serde_json::from_value(r["case"].clone()) {
        Ok(c) => c,
        Err(e) => {
            eprintln!("replay: bad case: {e}");
            return 2;
        }
    };
    let tamper: Tamper = match serde_json::from_value(r["tamper"].clone()) {
        Ok(t) => t,
        Err(e) => {
            eprintln!("replay: bad tamper: {e}");
            return 2;
        }
    };
    println!("replay: case {}", serde_json::to_string(&case).unwrap());
    println!("replay: tamper {tamper:?}");
    // Handshake / 0-RTT / 1-RTT keys are fresh random keys in every run. A witness that goes
    // through a garbled header-protection mask (wrong key, flipped sample bit) reproduces with
    // probability 3/4 per key set, so such a replay is repeated with fresh keys.
    const ATTEMPTS: usize = 8;
    for attempt in 1..=ATTEMPTS {
        let code = replay_once(&case, &tamper);
        if code != 0 {
            println!("replay: reproduced on attempt {attempt} of {ATTEMPTS}");
            return code;
        }
        if matches!(tamper, Tamper::None) {
            break;
        }
    }
    println!("replay: no violation");
    0
}

fn replay_once(case: &Case, tamper: &Tamper) -> i32 {
    let (case, tamper) = (case.clone(), tamper.clone());
    let live = match build(&case) {
        Ok(l) => l,
        Err((sig, detail)) => {
            println!("replay: {sig} — {detail}");
            return if sig == "machinery" { 2 } else { 1 };
        }
    };
    println!("replay: protected packet ({} bytes): {}", live.sent.wire.len(), hex(&live.sent.wire[..live.sent.wire.len().min(64)]));
    match check_roundtrip(&case, &live) {
        Ok(_) => println!("replay: untouched packet round-trips"),
        Err((sig, detail)) => {
            println!("replay: {sig} — {detail}");
            return 1;
        }
    }
    if tamper == Tamper::None {
        return 0;
    }
    let clause = match &tamper {
        Tamper::WrongPn { .. } => "wrongpn",
        Tamper::WrongKey { .. } => "wrongkey",
        _ => "tamper",
    };
    match eval_tamper(&case, &live, &tamper) {
        Err(p) => {
            println!("replay: panic/{} — {} at {}", p.class(), p.message, p.location);
            1
        }
        Ok((out, changed)) => {
            println!(
                "replay: outcome {} via {} ({}); {} packet(s) parsed, {} handed to CipherPacket::decrypt_*; receiver key state changed: {}",
                out.verdict.name(), out.path, out.why, out.packets, out.wrapper_calls,
                if matches!(tamper, Tamper::WrongKey { .. }) { "n/a".to_string() } else { changed.to_string() }
            );
            let mut code = 0;
            if let Some((sig, detail)) = judge(&case, clause, &tamper, &live, &out) {
                println!("replay: {sig} — {detail}");
                code = 1;
            }
            if changed && out.verdict == Verdict::Dropped && !matches!(tamper, Tamper::WrongKey { .. }) {
                match check_roundtrip(&case, &live) {
                    Ok(_) => println!("replay: genuine packet still delivered after the unauthenticated key update"),
                    Err((sig, detail)) => {
                        println!("replay: tamper/receiver-state-corrupted/{} — {detail}", sig.replace('/', "."));
                        code = 1;
                    }
                }
            }
            code
        }
    }
}

fn print_found(res: &CaseResult) -> i32 {
    if res.found.v.is_empty() {
        println!("replay: no violation");
        return 0;
    }
    for (sig, (detail, _, hits, _)) in &res.found.v {
        println!("replay: {sig} (x{hits}) — {detail}");
    }
    if res.found.v.keys().all(|k| k == "machinery") { 2 } else { 1 }
}

pub fn run(args: &Args) -> i32 {
    if let Some(p) = &args.replay {
        mc_core::panics::install_hook();
        return replay(args, p);
    }
    let mut report = Report::new(args, "exploration");
    let started = Instant::now();
    let cap = Duration::from_secs(if args.thorough { 420 } else { 50 });

    // machinery self-check: the handshake must produce every key set
    for (name, cs) in keys::SUITES {
        match keys::handshake(cs, true) {
            Ok(h) if h.zero_rtt.is_some() => {}
            Ok(_) => {
                eprintln!("machinery error: resumed handshake with {name} yielded no 0-RTT keys");
                return 2;
            }
            Err(e) => {
                eprintln!("machinery error: rustls handshake with {name} failed: {e}");
                return 2;
            }
        }
    }
    report.assume("keys: Initial = rustls::quic::Keys::initial(V1, TLS13_AES_128_GCM_SHA256, RFC 9001 A.1 DCID); Handshake, 0-RTT (resumed session), 1-RTT keys and Secrets from a real in-process rustls (ring) QUIC handshake with /repo/tests/keychain/localhost, fresh per case — key bytes differ from run to run, outcome classes do not");
    report.assume("receiver model: all of its side's keys installed; routing = DCID equality (QuicRouter::find_entry); VN/Retry ignored (RcvdPacketQueue::deliver); pn decoder = PacketNumber::decode(largest received + 1) with no duplicate/too-old hit (RcvdJournal::decode_pn on empty slots); the <1100-byte Initial datagram filter of qtraversal::route is above this layer and not applied");
    report.assume("receive wrapper: the real qinterface::component::route::CipherPacket::{new, decrypt_long_packet, decrypt_short_packet}; None = dropped, Some(Ok) = accepted, Some(Err) = connection error (callers `.transpose()?` it into Event::Failed)");
    let callers = phase_out_callers();
    let with_no_phase_out = callers.is_empty();
    if with_no_phase_out {
        report.assume("no caller of OneRttPacketKeys::phase_out() exists in /repo outside qbase/src/packet/keys.rs (text scan at run time): the scenario 'snd-upd2-no-phase-out' is the receiver the tree actually builds");
    } else {
        report.notes.push(format!("phase_out() is called from {callers:?}: scenario 'snd-upd2-no-phase-out' skipped (whether it is called at the right time is for the full-stack checks)"));
    }

    report.notes.push("observed, not judged: a tampered short-header packet whose key-phase bit differs after unmasking makes OneRttPacketKeys::get_remote() run update() (the receiver's own send keys and phase rotate) BEFORE the AEAD check; the packet is then dropped and the genuine packet is still delivered (checked after every such event; counted in unauthenticated_key_updates_at_receiver)".into());
    report.notes.push("observed, not judged: PacketNumber::encode() leaves bits above the 24th set inside PacketNumber::U24, so encode(pn, la).decode(e) without the wire round trip mis-decodes for pn >= 2^24; on the wire only 3 bytes are written, so the receive path is unaffected".into());
    report.notes.push("observed: the short-header fixed bit is never checked by be_packet_type (flip => AEAD failure => drop); the long-header fixed bit is checked at parse (InvalidFixedBit => drop); qtraversal::route builds PacketReader with a hard-coded dcid_len of 8, this check drives PacketReader with the receiver's real CID length".into());

    let all = cases(args.thorough, with_no_phase_out);
    let mut merged: BTreeMap<&'static str, Counts> = BTreeMap::new();
    let mut samples: BTreeMap<&'static str, Vec<Value>> = BTreeMap::new();
    let mut done = 0usize;
    let mut capped = false;
    let mut all_found = Found::default();
    let absorb = |all_found: &mut Found, results: Vec<CaseResult>, merged: &mut BTreeMap<&'static str, Counts>, samples: &mut BTreeMap<&'static str, Vec<Value>>| {
        for r in results {
            all_found.merge(r.found);
            for (sub, c) in &r.counts {
                merged.entry(sub).or_default().merge(c);
            }
            if let Some(s) = r.sample {
                let sub = if r.counts.contains_key("coalesced") {
                    "coalesced"
                } else if r.counts.contains_key("key-update") {
                    "key-update"
                } else {
                    "roundtrip"
                };
                let e = samples.entry(sub).or_default();
                if e.len() < 3 {
                    e.push(s);
                }
            }
        }
    };
    if ["roundtrip", "bitflip", "wrong-pn", "wrong-key", "key-update"].iter().any(|s| args.wants(s)) {
        for chunk in all.chunks(256) {
            if started.elapsed() > cap {
                capped = true;
                break;
            }
            let results = par_map(chunk, |c| run_case(c, Mode::Normal));
            done += chunk.len();
            absorb(&mut all_found, results, &mut merged, &mut samples);
        }
        if capped {
            report.caps_hit.push(format!("wall-clock cap {:?}: {done} of {} cases explored (in list order)", cap, all.len()));
        }
    }
    if args.wants("coalesced") {
        let mut cc = Vec::new();
        for (suite, _) in keys::SUITES.iter().take(if args.thorough { 3 } else { 1 }) {
            for cid in [0usize, 8, 20] {
                for dir in [Dir::C2S, Dir::S2C] {
                    cc.push(CoalescedCase { suite: suite.to_string(), cid_len: cid, dir });
                }
            }
        }
        let results = par_map(&cc, |c| run_coalesced(c, None));
        absorb(&mut all_found, results, &mut merged, &mut samples);
    }
    if args.thorough && args.wants("bitflip2") && started.elapsed() < cap {
        let tb = two_bit_cases();
        let results = par_map(&tb, |c| run_case(c, Mode::TwoBitOnly));
        for mut r in results {
            // the round trip of these cases is already counted in the grid
            r.counts.retain(|k, _| *k == "bitflip2");
            r.sample = None;
            absorb(&mut all_found, vec![r], &mut merged, &mut samples);
        }
    }

    for (sig, (detail, replay, hits, _rank)) in all_found.v {
        if sig == "machinery" {
            eprintln!("machinery error: {detail}");
            return 2;
        }
        report.violation(&sig, &detail, replay);
        for _ in 1..hits {
            report.violation(&sig, "", Value::Null);
        }
    }

    let rules: BTreeMap<&str, &str> = BTreeMap::from([
        ("roundtrip", "evaluations = datagrams presented to the receive path; non-trivial = distinct cases (suite, direction, type, token, cid length, body size, pn, pn length) whose untouched packet was delivered with identical header fields, unmasked first byte, pn bytes, decoded pn, key phase and body"),
        ("key-update", "as roundtrip, after the scenario's update()/exchange/phase_out() prefix on the two ArcOneRttKeys"),
        ("bitflip", "every single-bit flip of every round-tripping packet (all 8·len positions, also for full 1200-byte datagrams); evaluations = tampered datagrams presented; non-trivial = distinct (case, bit)"),
        ("bitflip2", "every pair of bit positions of minimum-size packets"),
        ("wrong-pn", "the untouched packet under a receiver position whose decode() differs from the sent pn; positions that decode to the sent pn are counted in same_pn_skipped, not evaluated"),
        ("wrong-key", "the untouched packet against: the other direction's keys, another epoch's keys, the right header key with a wrong packet key, another connection's keys, and (1-RTT) a receiver two key generations ahead"),
        ("coalesced", "Initial+Handshake+1-RTT in one datagram, every single-bit flip: nothing but untouched neighbours may be delivered, no connection error"),
    ]);
    for (sub, c) in &merged {
        let mut extra = Map::new();
        extra.insert("cases".into(), json!(c.cases));
        extra.insert("roundtrip_ok".into(), json!(c.roundtrip_ok));
        extra.insert("handed_to_cipher_packet_decrypt".into(), json!(c.wrapper_calls));
        extra.insert("reverification_receives_after_unauthenticated_key_update".into(), json!(c.reverifications));
        extra.insert("unauthenticated_key_updates_at_receiver".into(), json!(c.unauth_key_updates));
        extra.insert("context_rebuilds".into(), json!(c.rebuilds));
        extra.insert("same_pn_skipped".into(), json!(c.same_pn_skipped));
        extra.insert("outcomes".into(), json!(c.hist));
        report.sub(
            sub,
            Coverage {
                evaluations: c.receive_attempts,
                distinct_nontrivial: c.distinct,
                exhaustive: !capped,
                rule: rules.get(sub).copied().unwrap_or("").to_string(),
                samples: samples.get(sub).cloned().unwrap_or_default(),
                extra,
                ..Default::default()
            },
        );
    }
    report.finish()
}
