//! C14 (sub-check `router-entries`) — the routes a connection registers by hand
//! (`QuicRouter::insert`, e.g. a server connection's original-DCID route) under creation and
//! dropping of several connections that claim the *same* signpost: an entry handle removes the
//! route only while the route is its own.
//!
//! E1 closure over the real `QuicRouter`: three connections (one receive queue each), two
//! signposts; ops: connection c registers signpost s (the route now belongs to c), c drops its
//! handle, c calls `remove()` on its handle. After every op a packet for every signpost is
//! handed to `try_deliver` and the queues are drained.
//! Reference: owner[s] = the last registrant; cleared when that registrant drops / removes its
//! handle. Judged: a live owner receives the packet (exactly its queue); with no handle alive
//! for s the packet is unrouted. (Who gets it when the owner is gone but an older registrant
//! still holds a handle is left open.)
use std::{net::SocketAddr, sync::Arc, time::Duration};

use bytes::{BufMut, BytesMut};
use futures::FutureExt;
use mc_core::{Args, ExploreCfg, Fail, Report, System, ensure, explore};
use qbase::{
    cid::ConnectionId,
    net::route::{Link, Pathway},
    packet::{GetDcid, Packet, PacketReader},
};
use qinterface::{
    bind_uri::BindUri,
    component::route::{QuicRouter, QuicRouterEntry, RcvdPacketQueue, Way},
};
use serde::{Deserialize, Serialize};
use serde_json::json;

const CONNS: usize = 3;
const SIGNPOSTS: usize = 2;

#[derive(Debug, Clone, PartialEq, Serialize, Deserialize)]
pub enum EOp {
    Register { conn: usize, sp: usize },
    DropHandle { conn: usize, sp: usize },
    Remove { conn: usize, sp: usize },
}

pub struct ESys {
    router: Arc<QuicRouter>,
    queues: Vec<Arc<RcvdPacketQueue>>,
    /// handles[conn][sp]
    handles: Vec<Vec<Option<QuicRouterEntry>>>,
    way: Way,
    // reference
    owner: [Option<usize>; SIGNPOSTS],
    /// `remove()` was called on the handle (it is still held)
    removed: Vec<Vec<bool>>,
}

fn cid_of(sp: usize) -> ConnectionId {
    ConnectionId::from_slice(&[0x0d, 0xc1, 0xd0, sp as u8, 9, 9, 9, 1])
}

impl ESys {
    pub fn new() -> ESys {
        let a: SocketAddr = "127.0.0.1:4433".parse().unwrap();
        let b: SocketAddr = "127.0.0.1:5544".parse().unwrap();
        let way: Way = (BindUri::from(a), Pathway::new(a.into(), b.into()), Link::new(b, a));
        ESys {
            router: Arc::new(QuicRouter::new()),
            queues: (0..CONNS).map(|_| Arc::new(RcvdPacketQueue::new())).collect(),
            handles: (0..CONNS).map(|_| (0..SIGNPOSTS).map(|_| None).collect()).collect(),
            way,
            owner: [None; SIGNPOSTS],
            removed: vec![vec![false; SIGNPOSTS]; CONNS],
        }
    }

    fn lookup(&self, sp: usize) -> Result<Vec<usize>, Fail> {
        let cid = cid_of(sp);
        let mut dgram = BytesMut::with_capacity(29);
        dgram.put_u8(0x40);
        dgram.put_slice(&cid);
        dgram.put_slice(&[0x5a; 20]);
        let packet = match PacketReader::new(dgram, 8).next() {
            Some(Ok(p @ Packet::Data(_))) => p,
            _ => return Err(Fail::new("machinery/packet-not-parsed", "PacketReader on a 29-byte short-header packet".to_string())),
        };
        let routed = match self.router.try_deliver(packet, self.way.clone()).now_or_never() {
            None => return Err(Fail::new("route/delivery-blocked", format!("try_deliver for signpost {sp} did not complete although every queue is empty"))),
            Some(r) => r.is_ok(),
        };
        let mut hit = Vec::new();
        for (qi, q) in self.queues.iter().enumerate() {
            while let Some(Some((pkt, _))) = q.one_rtt().recv().now_or_never() {
                ensure!(pkt.dcid() == &cid, "route/foreign-packet-in-queue", "queue {qi} holds a packet for {:?}", pkt.dcid());
                hit.push(qi);
            }
        }
        ensure!(routed == !hit.is_empty(), "route/verdict-and-queues-disagree", "try_deliver said routed={routed} for signpost {sp}, queues hit: {hit:?}");
        Ok(hit)
    }

    fn check(&self) -> Result<(), Fail> {
        for sp in 0..SIGNPOSTS {
            let got = self.lookup(sp)?;
            ensure!(got.len() <= 1, "route/delivered-to-two-queues", "one packet for signpost {sp} arrived in queues {got:?}");
            let holders: Vec<usize> = (0..CONNS).filter(|&c| self.handles[c][sp].is_some() && !self.removed[c][sp]).collect();
            match (self.owner[sp], got.first().copied()) {
                (Some(o), Some(g)) => ensure!(
                    o == g,
                    "route/entry-misrouted",
                    "signpost {sp} was last registered by connection {o}, whose handle is alive, but the packet arrived at connection {g}"
                ),
                (Some(o), None) => {
                    return Err(Fail::new(
                        "route/live-entry-unrouted",
                        format!("signpost {sp} was last registered by connection {o}, whose handle is alive (handles alive: {holders:?}), but the router has no route for it: another connection's stale handle removed it"),
                    ));
                }
                (None, Some(g)) => ensure!(
                    !holders.is_empty(),
                    "route/dropped-entry-still-routed",
                    "no connection holds a handle for signpost {sp} any more, yet a packet for it was delivered to connection {g}"
                ),
                (None, None) => {}
            }
        }
        Ok(())
    }
}

impl System for ESys {
    type Op = EOp;

    fn ops(&self) -> Vec<EOp> {
        let mut v = Vec::new();
        for conn in 0..CONNS {
            for sp in 0..SIGNPOSTS {
                match &self.handles[conn][sp] {
                    None => v.push(EOp::Register { conn, sp }),
                    Some(_) => {
                        v.push(EOp::DropHandle { conn, sp });
                        if !self.removed[conn][sp] {
                            v.push(EOp::Remove { conn, sp });
                        }
                    }
                }
            }
        }
        v
    }

    fn step(&mut self, op: &EOp) -> Result<(), Fail> {
        match *op {
            EOp::Register { conn, sp } => {
                let e = self.router.insert(cid_of(sp).into(), self.queues[conn].clone());
                self.handles[conn][sp] = Some(e);
                self.removed[conn][sp] = false;
                self.owner[sp] = Some(conn);
            }
            EOp::DropHandle { conn, sp } => {
                let e = self.handles[conn][sp].take();
                drop(e);
                self.removed[conn][sp] = false;
                if self.owner[sp] == Some(conn) {
                    self.owner[sp] = None;
                }
            }
            EOp::Remove { conn, sp } => {
                if let Some(e) = &self.handles[conn][sp] {
                    e.remove();
                }
                self.removed[conn][sp] = true;
                if self.owner[sp] == Some(conn) {
                    self.owner[sp] = None;
                }
            }
        }
        self.check()
    }

    fn canon(&self) -> String {
        // the router table is observed through the lookups; the reference + who holds what
        // determines every future
        let held: Vec<Vec<(bool, bool)>> = (0..CONNS).map(|c| (0..SIGNPOSTS).map(|s| (self.handles[c][s].is_some(), self.removed[c][s])).collect()).collect();
        let routes: Vec<Vec<usize>> = (0..SIGNPOSTS).map(|s| self.lookup(s).unwrap_or_default()).collect();
        format!("{held:?}|{:?}|{routes:?}", self.owner)
    }

    fn outcome(&self) -> Option<String> {
        Some(format!("{:?}", self.owner))
    }
}

pub fn run_sub(report: &mut Report, args: &Args) {
    if !args.wants("router-entries") {
        return;
    }
    let cfg = ExploreCfg { time_cap: Duration::from_secs(if args.thorough { 120 } else { 20 }), ..Default::default() };
    let stats = explore(ESys::new, &cfg);
    mc_core::explore::file_violations(report, "router-entries", json!({"conns": CONNS, "signposts": SIGNPOSTS}), &stats);
    report.sub(
        "router-entries",
        stats.coverage(&format!(
            "BFS to closure over all histories of {CONNS} connections registering / dropping / explicitly removing their QuicRouter::insert handles for {SIGNPOSTS} shared signposts (a later registration takes the route over) on the real QuicRouter; after every operation a packet for every signpost goes through try_deliver: the last registrant receives it while its handle is alive, nobody once no handle is left"
        )),
    );
}

pub fn replay(hist: &serde_json::Value) -> Result<(), Fail> {
    mc_core::explore::replay(ESys::new, hist)
}
