//! C16 — no wake-up is ever lost; C17a — the connection state machine under racing closes.
//!
//! E2 (controlled scheduler): for each hand-written waiter/notifier protocol, one or two
//! waiters (`loop { poll; if ready break; sleep until woken }`, optionally giving up) and
//! one to three notifiers run as logical threads; every interleaving at operation granularity
//! (plus the `sched_point` hooks inside the multi-step gm-quic functions) is enumerated.
//! A *deadlock* — a waiter asleep although the script made its condition true or closed the
//! object — is a lost wake-up.
use std::{
    collections::BTreeMap,
    future::Future,
    pin::Pin,
    sync::{
        Arc, Mutex,
        atomic::{AtomicBool, Ordering},
    },

    time::Duration,
};

use bytes::Bytes;
use mc_core::{
    Args, Report,
    sched::{self, Body, Ctx, Execution, SchedCfg, Scenario},
};
use qbase::{
    cid::ConnectionId,
    error::{ErrorKind, QuicError},
    frame::{MaxStreamDataFrame, MaxStreamsFrame, PathChallengeFrame, StreamCtlFrame, StreamFrame, io::ReceiveFrame},
    net::tx::{ArcSendWaker, ArcSendWakers, Signals},
    param::{ArcParameters, ClientParameters, ParameterId, Parameters, ServerParameters},
    role::Role,
    sid::{ArcLocalStreamIds, Dir, StreamId},
    util::ArcAsyncDeque,
    varint::VarInt,
};
use qconnection::path::{AntiAmplifier, SendBuffer};

use crate::pipe::{Cap, Cfg, Endpoint, SideCfg};

/// What the logical threads report; the judge reads it after the execution.
#[derive(Default)]
pub struct Obs {
    pub results: Mutex<BTreeMap<String, String>>,
}

impl Obs {
    pub fn set(&self, k: &str, v: impl Into<String>) {
        self.results.lock().unwrap().insert(k.to_string(), v.into());
    }
    pub fn append(&self, k: &str, v: impl std::fmt::Display) {
        let mut g = self.results.lock().unwrap();
        let e = g.entry(k.to_string()).or_default();
        e.push_str(&format!("{v},"));
    }
    pub fn get(&self, k: &str) -> Option<String> {
        self.results.lock().unwrap().get(k).cloned()
    }
}

pub type Build = Box<dyn Fn() -> (Arc<Obs>, Vec<(String, Body)>) + Send + Sync>;
pub type Expect = Box<dyn Fn(&Obs) -> Result<String, String> + Send + Sync>;
pub type MayBlock = Box<dyn Fn(&Obs) -> Vec<&'static str> + Send + Sync>;

pub fn nobody() -> MayBlock {
    Box::new(|_| Vec::new())
}

pub struct Sc {
    pub name: &'static str,
    pub build: Build,
    /// checks the reported results of a *completed* execution; returns an outcome label
    pub expect: Expect,
    /// threads that may legitimately never finish, given what was observed (none by default)
    pub may_block: MayBlock,
}

impl Scenario for Sc {
    type Shared = Obs;
    fn build(&self) -> (Arc<Obs>, Vec<(String, Body)>) {
        (self.build)()
    }
    fn judge(&self, obs: &Obs, exec: &Execution) -> Result<String, (String, String)> {
        if exec.deadlocked {
            let allowed = (self.may_block)(obs);
            let stuck: Vec<&String> = exec.unfinished.iter().filter(|n| !allowed.contains(&n.as_str())).collect();
            if !stuck.is_empty() {
                return Err((
                    format!("lost-wakeup/{}", self.name),
                    format!(
                        "{:?} sleep(s) forever although every notifier has run; schedule {:?}; log {:?}",
                        stuck,
                        exec.schedule(),
                        exec.log
                    ),
                ));
            }
        }
        match (self.expect)(obs) {
            Ok(label) => Ok(if exec.deadlocked { format!("{label}+blocked") } else { label }),
            Err(e) => Err((format!("wrong-result/{}", self.name), format!("{e}; schedule {:?}; log {:?}", exec.schedule(), exec.log))),
        }
    }
}

pub fn body(f: impl FnOnce(&Ctx) + Send + 'static) -> Body {
    Box::new(f)
}

fn vi(v: u64) -> VarInt {
    VarInt::from_u64(v).unwrap()
}

fn any_ok() -> Expect {
    Box::new(|_| Ok("done".into()))
}

pub fn expect_eq(key: &'static str, allowed: &'static [&'static str]) -> Expect {
    Box::new(move |o| {
        let v = o.get(key).unwrap_or_else(|| "<none>".into());
        if allowed.contains(&v.as_str()) { Ok(format!("{key}={v}")) } else { Err(format!("{key} = {v}, allowed {allowed:?}")) }
    })
}

// ------------------------------------------------------------------------------------------
// scenarios
// ------------------------------------------------------------------------------------------

pub fn pipe_cfg(window: u64, streams: u64) -> Cfg {
    let side = SideCfg { max_data: 1 << 20, bidi_local: window, bidi_remote: window, uni: window, streams_bidi: streams, streams_uni: streams };
    Cfg { client: side.clone(), server: side, cap: 1200, demand_concurrency: false, scripts: [vec![], vec![]], read_caps: vec![], max_packets: 0 }
}

pub fn scenarios() -> Vec<Sc> {
    let mut v: Vec<Sc> = Vec::new();

    // ---- SendWaker: plain wait / wake -------------------------------------------------
    v.push(Sc {
        name: "sendwaker/wait-vs-wake",
        build: Box::new(|| {
            let obs = Arc::new(Obs::default());
            let w = ArcSendWaker::new();
            let (w1, w2) = (w.clone(), w.clone());
            let o = obs.clone();
            (
                obs,
                vec![
                    ("waiter".into(), body(move |c| {
                        let mut f = Box::pin(w1.wait_for(Signals::CREDIT));
                        c.block_on("wait_for(CREDIT)", |cx| f.as_mut().poll(cx));
                        o.set("waiter", "woken");
                    })),
                    ("notifier".into(), body(move |c| {
                        c.point("wake_by(CONGESTION)");
                        w2.wake_by(Signals::CONGESTION);
                        c.point("wake_by(CREDIT)");
                        w2.wake_by(Signals::CREDIT);
                    })),
                ],
            )
        }),
        expect: expect_eq("waiter", &["woken"]),
        may_block: nobody(),
    });

    // ---- SendWaker: the real usage pattern "attempt fails with signals S → wait_for(S)" ----
    v.push(Sc {
        name: "sendwaker/attempt-then-wait",
        build: Box::new(|| {
            let obs = Arc::new(Obs::default());
            let w = ArcSendWaker::new();
            let ready = Arc::new(AtomicBool::new(false));
            let (w1, w2, r1, r2) = (w.clone(), w.clone(), ready.clone(), ready.clone());
            let o = obs.clone();
            (
                obs,
                vec![
                    ("waiter".into(), body(move |c| {
                        loop {
                            c.point("attempt");
                            if r1.load(Ordering::SeqCst) {
                                break;
                            }
                            let mut f = Box::pin(w1.wait_for(Signals::TRANSPORT | Signals::CREDIT));
                            c.block_on("wait_for", |cx| f.as_mut().poll(cx));
                        }
                        o.set("waiter", "sent");
                    })),
                    ("notifier".into(), body(move |c| {
                        c.point("make-true");
                        r2.store(true, Ordering::SeqCst);
                        c.point("wake_by(TRANSPORT)");
                        w2.wake_by(Signals::TRANSPORT);
                    })),
                ],
            )
        }),
        expect: expect_eq("waiter", &["sent"]),
        may_block: nobody(),
    });

    // ---- Wakers::combine_with: many tasks share one readiness source -----------------------
    // (how every path's poll_send / poll_recv reaches the UDP socket in qinterface::io::handy)
    for (name, two) in [("wakers/combine_with-vs-source-ready", false), ("wakers/combine_with-two-tasks-vs-source-ready", true)] {
        v.push(Sc {
            name,
            build: Box::new(move || {
                use qbase::util::Wakers;
                /// a one-shot readiness source, like an IO driver registration
                #[derive(Default)]
                struct Source {
                    ready: AtomicBool,
                    waker: Mutex<Option<std::task::Waker>>,
                }
                let obs = Arc::new(Obs::default());
                let src = Arc::new(Source::default());
                let wakers: Arc<Wakers> = Arc::new(Wakers::new());
                let mut t: Vec<(String, Body)> = Vec::new();
                for i in 0..(if two { 2 } else { 1 }) {
                    let (src, wakers, o) = (src.clone(), wakers.clone(), obs.clone());
                    t.push((format!("task{i}"), body(move |c| {
                        c.block_on("combine_with", |cx| {
                            wakers.combine_with(cx, |inner| {
                                if src.ready.load(Ordering::SeqCst) {
                                    return std::task::Poll::Ready(());
                                }
                                *src.waker.lock().unwrap() = Some(inner.waker().clone());
                                // the source may fire at any moment after the registration,
                                // in particular before combine_with has returned
                                // (an edge-triggered source: it does not check again before returning)
                                c.point("inner-poll:registered-with-source");
                                std::task::Poll::Pending
                            })
                        });
                        o.set(&format!("task{i}"), "ready");
                    })));
                }
                let src2 = src.clone();
                t.push(("driver".into(), body(move |c| {
                    c.point("source-becomes-ready");
                    src2.ready.store(true, Ordering::SeqCst);
                    let w = src2.waker.lock().unwrap().take();
                    if let Some(w) = w {
                        w.wake();
                    }
                })));
                (obs, t)
            }),
            expect: expect_eq("task0", &["ready"]),
            may_block: nobody(),
        });
    }

    // ---- AsyncDeque -------------------------------------------------------------------
    for (name, close_too) in [("asyncdeque/pop-vs-push", false), ("asyncdeque/pop-vs-push-and-close", true)] {
        v.push(Sc {
            name,
            build: Box::new(move || {
                let obs = Arc::new(Obs::default());
                let q: ArcAsyncDeque<u32> = ArcAsyncDeque::new();
                let (q1, q2, q3) = (q.clone(), q.clone(), q.clone());
                let o = obs.clone();
                let mut t: Vec<(String, Body)> = vec![
                    ("waiter".into(), body(move |c| {
                        let r = c.block_on("poll_pop", |cx| q1.poll_pop(cx));
                        o.set("waiter", format!("{r:?}"));
                    })),
                    ("pusher".into(), body(move |c| {
                        c.point("push_back");
                        q2.push_back(7);
                    })),
                ];
                if close_too {
                    t.push(("closer".into(), body(move |c| {
                        c.point("close");
                        q3.close();
                    })));
                }
                (obs, t)
            }),
            expect: expect_eq("waiter", &["Some(7)", "None"]),
            may_block: nobody(),
        });
    }

    // ---- ArcReceiving -----------------------------------------------------------------
    for (name, reset) in [("receiving/poll-vs-recv_frame", false), ("receiving/poll-vs-reset", true)] {
        v.push(Sc {
            name,
            build: Box::new(move || {
                let obs = Arc::new(Obs::default());
                let r: qbase::ArcReceiving<u32> = Default::default();
                let (mut r1, r2) = (r.clone(), r.clone());
                let o = obs.clone();
                (
                    obs,
                    vec![
                        ("waiter".into(), body(move |c| {
                            let got = c.block_on("poll", |cx| Pin::new(&mut r1).poll(cx));
                            o.set("waiter", format!("{:?}", got.map_err(|_| "reset")));
                        })),
                        ("notifier".into(), body(move |c| {
                            c.point("notify");
                            if reset {
                                r2.reset();
                            } else {
                                let _ = r2.recv_frame(5);
                            }
                        })),
                    ],
                )
            }),
            expect: expect_eq("waiter", &["Ok(Some(5))", "Err(\"reset\")"]),
            may_block: nobody(),
        });
    }

    // ---- transport parameters: remote_ready vs the two halves of readiness / conn error ----
    for (name, fail) in [("params/ready-vs-recv+scid", false), ("params/ready-vs-conn-error", true)] {
        v.push(Sc {
            name,
            build: Box::new(move || {
                let obs = Arc::new(Obs::default());
                let cid = |b: u8| ConnectionId::from_slice(&[b; 8]);
                let mut cp = ClientParameters::default();
                cp.set(ParameterId::InitialSourceConnectionId, cid(1)).unwrap();
                let ps = ArcParameters::from(Parameters::new_client(cp, None, cid(9)));
                let (p1, p2, p3) = (ps.clone(), ps.clone(), ps.clone());
                let o = obs.clone();
                let mut t: Vec<(String, Body)> = vec![("waiter".into(), body(move |c| {
                    let mut f = Box::pin(p1.remote_ready());
                    let r = c.block_on("remote_ready", |cx| f.as_mut().poll(cx).map(|r| r.map(|_| ()).map_err(|e| e.to_string())));
                    o.set("waiter", if r.is_ok() { "ready" } else { "error" });
                }))];
                if fail {
                    t.push(("failer".into(), body(move |c| {
                        c.point("on_conn_error");
                        p2.on_conn_error(&QuicError::with_default_fty(ErrorKind::Internal, "x").into());
                    })));
                } else {
                    t.push(("tls".into(), body(move |c| {
                        c.point("recv_remote_params");
                        let mut sp = ServerParameters::default();
                        sp.set(ParameterId::InitialSourceConnectionId, cid(2)).unwrap();
                        sp.set(ParameterId::OriginalDestinationConnectionId, cid(9)).unwrap();
                        if let Ok(mut g) = p2.lock_guard() {
                            let _ = g.recv_remote_params(sp);
                        }
                    })));
                    t.push(("packet".into(), body(move |c| {
                        c.point("initial_scid_from_peer");
                        if let Ok(mut g) = p3.lock_guard() {
                            let _ = g.initial_scid_from_peer_need_equal(cid(2));
                        }
                    })));
                }
                (obs, t)
            }),
            expect: expect_eq("waiter", if fail { &["error"] } else { &["ready"] }),
            may_block: nobody(),
        });
    }

    // ---- local stream ids: a stale (given-up) waiter ahead of a live one ----------------
    v.push(Sc {
        name: "local-sid/stale-waiter-then-live-waiter-vs-max-streams",
        build: Box::new(|| {
            let obs = Arc::new(Obs::default());
            #[derive(Clone)]
            struct Sink;
            impl qbase::frame::io::SendFrame<qbase::frame::StreamsBlockedFrame> for Sink {
                fn send_frame<I: IntoIterator<Item = qbase::frame::StreamsBlockedFrame>>(&self, _: I) {}
            }
            let ids = ArcLocalStreamIds::new(Role::Client, 0, 0, Sink, ArcSendWakers::default());
            let (i1, i2, i3) = (ids.clone(), ids.clone(), ids.clone());
            let (o1, o2) = (obs.clone(), obs.clone());
            (
                obs,
                vec![
                    ("impatient".into(), body(move |c| {
                        // polls once (registering its waker) and gives up, like a timed-out open
                        c.point("poll-once");
                        let w = c.waker();
                        let mut cx = std::task::Context::from_waker(&w);
                        let r = i1.poll_alloc_sid(&mut cx, Dir::Bi);
                        o1.set("impatient", if r.is_ready() { "got" } else { "gave-up" });
                    })),
                    ("patient".into(), body(move |c| {
                        let r = c.block_on("poll_alloc_sid", |cx| i2.poll_alloc_sid(cx, Dir::Bi));
                        o2.set("patient", if r.is_some() { "got" } else { "exhausted" });
                    })),
                    ("peer".into(), body(move |c| {
                        c.point("MAX_STREAMS(1)");
                        i3.recv_max_streams_frame(MaxStreamsFrame::with(Dir::Bi, vi(1)));
                    })),
                ],
            )
        }),
        // one id is granted: if the impatient task polled after the grant it took the id and the
        // patient one legitimately keeps waiting; if it gave up, the id is the patient one's
        expect: Box::new(|o| {
            let (i, p) = (o.get("impatient").unwrap_or_default(), o.get("patient").unwrap_or_else(|| "waiting".into()));
            match (i.as_str(), p.as_str()) {
                ("gave-up", "got") | ("got", "waiting") => Ok(format!("impatient={i},patient={p}")),
                _ => Err(format!("impatient={i}, patient={p}")),
            }
        }),
        may_block: Box::new(|o| if o.get("impatient").as_deref() == Some("got") { vec!["patient"] } else { vec![] }),
    });

    // ---- stream writer blocked on the window vs MAX_STREAM_DATA / connection error -------
    for (name, fail) in [("writer/blocked-write-vs-max-stream-data", false), ("writer/blocked-write-vs-conn-error", true)] {
        v.push(Sc {
            name,
            build: Box::new(move || {
                let obs = Arc::new(Obs::default());
                let cfg = pipe_cfg(2, 4);
                let mut ep = Endpoint::new(Role::Client, &cfg);
                let sid = ep.open(true).expect("open");
                let mut h = ep.take_handle(0);
                let ep = Arc::new(ep);
                let ep2 = ep.clone();
                let o = obs.clone();
                (
                    obs,
                    vec![
                        ("app".into(), body(move |c| {
                            let w = h.writer.as_mut().unwrap();
                            let r1 = c.block_on("write-1", |cx| w.poll_write(cx, Bytes::from_static(b"ab")));
                            let r2 = c.block_on("write-2", |cx| w.poll_write(cx, Bytes::from_static(b"cd")));
                            o.set("app", format!("{}{}", if r1.is_ok() { "ok" } else { "err" }, if r2.is_ok() { "+ok" } else { "+err" }));
                        })),
                        ("peer".into(), body(move |c| {
                            c.point("notify");
                            if fail {
                                ep2.streams().on_conn_error(&QuicError::with_default_fty(ErrorKind::Internal, "x").into());
                            } else {
                                let _ = ep2.peer_ctl(StreamCtlFrame::MaxStreamData(MaxStreamDataFrame::new(sid, vi(100))));
                            }
                        })),
                    ],
                )
            }),
            expect: expect_eq("app", if fail { &["ok+err", "err+err"] } else { &["ok+ok"] }),
            may_block: nobody(),
        });
    }

    // ---- stream writer flush / shutdown vs acknowledgement --------------------------------
    v.push(Sc {
        name: "writer/flush-and-shutdown-vs-ack",
        build: Box::new(|| {
            let obs = Arc::new(Obs::default());
            let cfg = pipe_cfg(100, 4);
            let mut ep = Endpoint::new(Role::Client, &cfg);
            ep.open(true).expect("open");
            let mut h = ep.take_handle(0);
            let ep = Arc::new(Mutex::new(ep));
            let ep2 = ep.clone();
            let o = obs.clone();
            (
                obs,
                vec![
                    ("app".into(), body(move |c| {
                        let w = h.writer.as_mut().unwrap();
                        let _ = c.block_on("write", |cx| w.poll_write(cx, Bytes::from_static(b"abc")));
                        let f = c.block_on("flush", |cx| w.poll_flush(cx));
                        let s = c.block_on("shutdown", |cx| w.poll_shutdown(cx));
                        o.set("app", format!("{}{}", if f.is_ok() { "flushed" } else { "flush-err" }, if s.is_ok() { "+shut" } else { "+shut-err" }));
                    })),
                    ("transport".into(), body(move |c| {
                        // assemble-and-ack until nothing more comes out, as the burst/ack tasks do
                        for round in 0..6 {
                            c.point("assemble+ack");
                            let mut ep = ep2.lock().unwrap();
                            let frames = ep.assemble_frames(1200);
                            for f in frames {
                                ep.ack_frame(f);
                            }
                            drop(ep);
                            let _ = round;
                        }
                    })),
                ],
            )
        }),
        // the transport thread runs a bounded number of rounds: if the app writes late, the last
        // frames are never acknowledged and the app legitimately keeps waiting
        expect: Box::new(|o| Ok(o.get("app").unwrap_or_else(|| "waiting".into()))),
        may_block: Box::new(|_| vec!["app"]),
    });

    // ---- stream reader vs data / FIN / reset / connection error ----------------------------
    for (name, what) in [("reader/read-vs-data", 0u8), ("reader/read-vs-fin-only", 1), ("reader/read-vs-reset", 2), ("reader/read-vs-conn-error", 3)] {
        v.push(Sc {
            name,
            build: Box::new(move || {
                let obs = Arc::new(Obs::default());
                let cfg = pipe_cfg(100, 4);
                let mut ep = Endpoint::new(Role::Server, &cfg);
                let sid = StreamId::new(Role::Client, Dir::Uni, 0);
                // the stream exists (peer sent an empty frame), the application holds the reader
                let _ = ep.peer_stream(StreamFrame::new(sid, 0, 0), Bytes::new());
                ep.accept_all().expect("accept");
                let mut h = ep.take_handle(0);
                let ep = Arc::new(ep);
                let ep2 = ep.clone();
                let o = obs.clone();
                (
                    obs,
                    vec![
                        ("app".into(), body(move |c| {
                            let r = h.reader.as_mut().unwrap();
                            let mut buf = Cap::new(8);
                            let res = c.block_on("read", |cx| r.poll_read(cx, &mut buf));
                            o.set("app", match res {
                                Ok(()) => format!("read{}", buf.len()),
                                Err(_) => "err".into(),
                            });
                        })),
                        ("peer".into(), body(move |c| {
                            c.point("notify");
                            match what {
                                0 => {
                                    let _ = ep2.peer_stream(StreamFrame::new(sid, 0, 2), Bytes::from_static(b"hi"));
                                }
                                1 => {
                                    let mut f = StreamFrame::new(sid, 0, 0);
                                    f.set_eos_flag(true);
                                    let _ = ep2.peer_stream(f, Bytes::new());
                                }
                                2 => {
                                    let _ = ep2.peer_ctl(StreamCtlFrame::ResetStream(qbase::frame::ResetStreamFrame::new(sid, vi(1), vi(0))));
                                }
                                _ => ep2.streams().on_conn_error(&QuicError::with_default_fty(ErrorKind::Internal, "x").into()),
                            }
                        })),
                    ],
                )
            }),
            expect: expect_eq("app", match what { 0 => &["read2"], 1 => &["read0"], _ => &["err"] }),
            may_block: nobody(),
        });
    }

    // ---- accept vs the peer opening a stream / connection error -----------------------------
    for (name, fail) in [("listener/accept-uni-vs-peer-open", false), ("listener/accept-uni-vs-conn-error", true)] {
        v.push(Sc {
            name,
            build: Box::new(move || {
                let obs = Arc::new(Obs::default());
                let cfg = pipe_cfg(100, 4);
                let ep = Arc::new(Endpoint::new(Role::Server, &cfg));
                let (e1, e2) = (ep.clone(), ep.clone());
                let o = obs.clone();
                (
                    obs,
                    vec![
                        ("app".into(), body(move |c| {
                            let mut f = e1.streams().accept_uni();
                            let r = c.block_on("accept_uni", |cx| Pin::new(&mut f).poll(cx));
                            o.set("app", if r.is_ok() { "accepted" } else { "err" });
                        })),
                        ("peer".into(), body(move |c| {
                            c.point("notify");
                            if fail {
                                e2.streams().on_conn_error(&QuicError::with_default_fty(ErrorKind::Internal, "x").into());
                            } else {
                                let _ = e2.peer_stream(StreamFrame::new(StreamId::new(Role::Client, Dir::Uni, 1), 0, 1), Bytes::from_static(b"x"));
                            }
                        })),
                    ],
                )
            }),
            expect: expect_eq("app", if fail { &["err"] } else { &["accepted"] }),
            may_block: nobody(),
        });
    }

    // ---- SendBuffer::write vs the burst loop -----------------------------------------------
    v.push(Sc {
        name: "sendbuffer/write-vs-burst-loop",
        build: Box::new(|| {
            let obs = Arc::new(Obs::default());
            let tx = ArcSendWaker::new();
            let sb: Arc<SendBuffer<PathChallengeFrame>> = Arc::new(SendBuffer::new(tx.clone()));
            let (b1, b2) = (sb.clone(), sb.clone());
            let o = obs.clone();
            (
                obs,
                vec![
                    ("burst".into(), body(move |c| {
                        loop {
                            c.point("try_load");
                            let mut pkt = Cap::new(64);
                            match b1.try_load_frames_into(&mut pkt) {
                                Ok(()) => break,
                                Err(signals) => {
                                    let mut f = Box::pin(tx.wait_for(signals));
                                    c.block_on("wait_for", |cx| f.as_mut().poll(cx));
                                }
                            }
                        }
                        o.set("burst", "sent");
                    })),
                    ("path".into(), body(move |c| {
                        c.point("write");
                        b2.write(PathChallengeFrame::from_slice(&[1; 8]));
                    })),
                ],
            )
        }),
        expect: expect_eq("burst", &["sent"]),
        may_block: nobody(),
    });

    // ---- AntiAmplifier: balance()+wait vs on_rcvd / grant / abort ---------------------------
    for (name, what) in [("antiamplifier/balance-vs-on_rcvd", 0u8), ("antiamplifier/balance-vs-grant", 1), ("antiamplifier/balance-vs-abort", 2)] {
        v.push(Sc {
            name,
            build: Box::new(move || {
                let obs = Arc::new(Obs::default());
                let tx = ArcSendWaker::new();
                let aa: Arc<AntiAmplifier> = Arc::new(AntiAmplifier::new(tx.clone()));
                let (a1, a2) = (aa.clone(), aa.clone());
                let o = obs.clone();
                (
                    obs,
                    vec![
                        ("burst".into(), body(move |c| {
                            let r = loop {
                                c.point("balance");
                                match a1.balance() {
                                    Ok(x) => break x,
                                    Err(signals) => {
                                        let mut f = Box::pin(tx.wait_for(signals));
                                        c.block_on("wait_for", |cx| f.as_mut().poll(cx));
                                    }
                                }
                            };
                            o.set("burst", match r { Some(_) => "may-send", None => "path-gone" });
                        })),
                        ("rx".into(), body(move |c| {
                            c.point("notify");
                            match what {
                                0 => a2.on_rcvd(100),
                                1 => a2.grant(),
                                _ => a2.abort(),
                            }
                        })),
                    ],
                )
            }),
            expect: expect_eq("burst", if what == 2 { &["path-gone"] } else { &["may-send"] }),
            may_block: nobody(),
        });
    }

    v
}

// ------------------------------------------------------------------------------------------
// C17a: ArcConnState under racing transitions
// ------------------------------------------------------------------------------------------

pub fn conn_state_scenarios() -> Vec<Sc> {
    use qconnection::state::ArcConnState;
    let mut v = Vec::new();
    // (name, handshake thread?, second closer uses enter_draining?)
    for (name, with_handshake, with_draining) in [
        ("connstate/two-closings-vs-waiter", false, false),
        ("connstate/closing-vs-draining-vs-waiter", false, true),
        ("connstate/handshaked-vs-closing-vs-draining", true, true),
    ] {
        v.push(Sc {
            name,
            build: Box::new(move || {
                let obs = Arc::new(Obs::default());
                let st = ArcConnState::new();
                let mut t: Vec<(String, Body)> = Vec::new();
                let code = |s: &ArcConnState| s.current().map(qconnection::state::encode).unwrap_or(0);
                {
                    let (s, o) = (st.clone(), obs.clone());
                    t.push(("waiter".into(), body(move |c| {
                        let mut f = Box::pin(s.terminated());
                        let e = c.block_on("terminated", |cx| f.as_mut().poll(cx));
                        o.append("order", code(&s));
                        o.set("terminated", e.to_string());
                    })));
                }
                if with_handshake {
                    let (s, o) = (st.clone(), obs.clone());
                    t.push(("handshake".into(), body(move |c| {
                        c.point("enter_handshaked");
                        let _ = s.enter_handshaked();
                        o.append("order", code(&s));
                    })));
                }
                {
                    let (s, o) = (st.clone(), obs.clone());
                    t.push(("closer-1".into(), body(move |c| {
                        c.point("enter_closing(e1)");
                        let e: qbase::error::Error = QuicError::with_default_fty(ErrorKind::Internal, "e1").into();
                        if s.enter_closing(&e).is_some() {
                            o.append("winners", "e1");
                        }
                        o.append("order", code(&s));
                    })));
                }
                {
                    let (s, o) = (st.clone(), obs.clone());
                    t.push(("closer-2".into(), body(move |c| {
                        if with_draining {
                            c.point("enter_draining(ccf)");
                            let ccf = qbase::frame::ConnectionCloseFrame::new_quic(ErrorKind::NoViablePath, qbase::frame::FrameType::Padding.into(), "e2");
                            if let Some(old) = s.enter_draining(&ccf) {
                                if old != qconnection::state::CLOSING {
                                    o.append("winners", "e2");
                                }
                            }
                        } else {
                            c.point("enter_closing(e2)");
                            let e: qbase::error::Error = QuicError::with_default_fty(ErrorKind::NoViablePath, "e2").into();
                            if s.enter_closing(&e).is_some() {
                                o.append("winners", "e2");
                            }
                        }
                        o.append("order", code(&s));
                    })));
                }
                (obs, t)
            }),
            expect: Box::new(|o| {
                let term = o.get("terminated").ok_or("the terminated() waiter did not complete")?;
                let winners = o.get("winners").unwrap_or_default();
                let winners: Vec<&str> = winners.split(',').filter(|x| !x.is_empty()).collect();
                if winners.len() != 1 {
                    return Err(format!("the terminating error must be fixed exactly once, but {winners:?} calls report having set it"));
                }
                if !term.contains(winners[0]) {
                    return Err(format!("terminating error is {term:?} but the call that won the transition carried {}", winners[0]));
                }
                let order = o.get("order").unwrap_or_default();
                let codes: Vec<u8> = order.split(',').filter_map(|x| x.parse().ok()).collect();
                if !codes.windows(2).all(|w| w[0] <= w[1]) {
                    return Err(format!("observed state codes went backwards: {codes:?}"));
                }
                Ok(format!("winner={}", winners[0]))
            }),
            may_block: nobody(),
        });
    }
    v
}

fn run_set(args: &Args, set: Vec<Sc>, level_note: &str) -> i32 {
    qbase::verif::install_sched_handler(sched::hook_point);
    let mut report = Report::new(args, "model_checking");
    report.assume("interleavings at the granularity of lock-protected operations plus the sched_point hooks between the lock/atomic regions of SendBuffer::write, AntiAmplifier::* and ArcConnState::enter_*; weak-memory effects and interleavings inside one lock region are out of scope");
    report.assume(level_note);
    if args.replay.is_some() {
        println!("replay: re-run `./check {} --only <scenario name>`; the schedule in the replay file is the exact choice sequence", args.property);
        return 2;
    }
    let cfg = SchedCfg {
        preemption_bound: if args.thorough { usize::MAX } else { 3 },
        max_schedules: if args.thorough { 400_000 } else { 30_000 },
        time_cap: Duration::from_secs(if args.thorough { 300 } else { 20 }),
    };
    for sc in set {
        if !args.wants(sc.name) {
            continue;
        }
        // quick tier: scenarios with four or more logical threads are closed at preemption
        // bound 2 (bound 3 does not finish within the per-scenario time cap)
        let threads = sc.build().1.len();
        let mut cfg = cfg.clone();
        if !args.thorough && threads >= 4 {
            cfg.preemption_bound = 2;
        }
        let stats = sched::explore(&sc, &cfg);
        sched::file_violations(&mut report, sc.name, &stats);
        report.sub(
            sc.name,
            stats.coverage(&format!(
                "stateless DFS over all schedules of the scenario's {threads} logical threads with preemption bound {}; distinct = distinct observation logs",
                if cfg.preemption_bound == usize::MAX { "unbounded".to_string() } else { cfg.preemption_bound.to_string() }
            )),
        );
    }
    report.finish()
}

pub fn run(args: &Args) -> i32 {
    let mut set = scenarios();
    set.extend(crate::c16b::more_scenarios());
    run_set(args, set, "a deadlock with every notifier finished and the awaited condition made true is judged a lost wake-up")
}

/// C15, clause "sending resumes as soon as more is received or the address is validated": the
/// anti-amplification waiter/notifier protocols (also part of C16), filed under C15.
pub fn run_c15w(args: &Args) -> i32 {
    let set: Vec<Sc> = scenarios().into_iter().filter(|s| s.name.starts_with("antiamplifier/")).collect();
    run_set(args, set, "C15 (resume clause): a sender parked on an exhausted anti-amplification credit vs on_rcvd / grant / abort; a deadlock with the credit raised or the limit lifted is a lost wake-up")
}

pub fn run_c17a(args: &Args) -> i32 {
    let mut set = conn_state_scenarios();
    set.extend(crate::c16b::close_scenarios());
    run_set(args, set, "C17a: racing enter_handshaked / enter_closing / enter_draining with a terminated() waiter")
}
