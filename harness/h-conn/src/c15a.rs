//! C15 part (a) — an unvalidated address never receives more than 3x what it sent.
//!
//! E1 closure over the real `qconnection::path::AntiAmplifier` and the real
//! `qconnection::path::Constraints`, driven with the send-side call protocol of
//! `qconnection/src/path/burst.rs` + `path.rs`, which the harness mirrors line by line
//! (none of `Burst` / `PacketsAssembler` / `Path` can be built without a whole connection):
//!
//! * `Burst::burst` (burst.rs:515ff): for every segment buffer (`max_segments` of them, each
//!   `min(max_segment_size, mtu)` long) call `load_spaces`, on `Err(Signals)` fall back to
//!   `load_ping`, then `load_heartbeat`; the fold keeps collecting segments while each one is
//!   at least as long as the previous one, stops after the first shorter one, stops at the
//!   first error (an error on the very first segment is the burst's error).
//! * `load_spaces` / `load_ping` / `load_heartbeat` each build a **fresh**
//!   `PacketsAssembler::new` (burst.rs:108ff), i.e. once per *segment*:
//!   `cc.send_quota()?` (Err(CONGESTION) below one mtu, qcongestion/src/congestion.rs:519),
//!   then `anti_amplifier.balance()?` (`None` ⇒ `PathDeactived`), then
//!   `Constraints::new(credit_limit, send_quota)`.
//! * `PacketsAssembler::assemble` (burst.rs:210ff), once per packet of the segment:
//!   `constraints.constrain(buffer)`, build the packet inside the constrained slice,
//!   `constraints.commit(sent_bytes, in_flight)` + `cc.on_pkt_sent(..)`, caller advances
//!   `buffer = buffer[sent_bytes..]`.
//! * `load_spaces` tail (burst.rs:412ff): `if loaded_initial { buffer.put_bytes(0,
//!   buffer.remaining_mut()); return Ok((origin, ..)) }` — `buffer` here is the *unconstrained*
//!   segment buffer, `origin` its full length.
//! * `Path::send_packets` (path.rs:263ff): `anti_amplifier.on_sent(Σ segment lengths)`, then
//!   `balance()` once more (its `Err` only marks the congestion status).
//! * the sending task (path.rs:155ff): `Ok(segments)` ⇒ `send_packets`; `Err(Signals(s))` ⇒
//!   `tx_waker.wait_for(s).await`; `Err(PathDeactived)` ⇒ the task ends.
//! * `Path::on_packet_rcvd` ⇒ `on_rcvd(size)`; `grant_anti_amplification` ⇒ `grant()`.
//!
//! What the harness supplies (the environment): how many bytes a packet writes into the slice
//! it was given. It is the greedy data source — a packet fills the constrained slice (with
//! `pkts = 2` the first packet of a segment takes half of it) — and it refuses slices shorter
//! than `MIN_PACKET` = 21 bytes, the smallest buffer in which the real
//! `PacketWriter::new_short` (empty DCID) builds a packet. The congestion controller is a
//! counter: `send_quota()` = quota − bytes committed in this burst.
//!
//! Reference: Σ received, Σ sent, state. Oracle after every op:
//! * `amplification/…`: while not granted, Σ sent ≤ 3·Σ received;
//! * `credit/…`: the allowance observed through `balance()` never exceeds
//!   3·Σ received − Σ sent (no wrap into a huge value); after `rcvd` it is > 0, after `grant`
//!   it is at least one mtu, after `abort` the path is reported gone;
//! * `wake/…`: a sending task suspended in `wait_for(signals)` after a burst failed with
//!   `Err(signals)` is woken by `rcvd` / `grant` / `abort` (real `ArcSendWaker`, counting
//!   waker). While it is suspended it runs no burst. Two classes: the burst failed because
//!   `balance()` returned `Err(CREDIT)` (`wake/sender-not-woken-by-…`), or `balance()` returned
//!   a credit in which no packet fits, the burst failed with the packet writer's `CONGESTION`
//!   and the task therefore does not wait for `CREDIT` at all
//!   (`wake/credit-below-one-packet/…`).
//!
//! A step can break several clauses; the explorer keeps the first one per transition, the
//! others are collected in a side table and filed too. A history is not extended past its
//! first violation (that also keeps the state space finite: with the wrap the credit is
//! unbounded).
use std::{
    collections::BTreeMap,
    future::Future,
    pin::Pin,
    sync::{
        Arc, Mutex,
        atomic::{AtomicUsize, Ordering},
    },
    task::{Context, Poll, Wake, Waker},
    time::Duration,
};

use mc_core::{Args, ExploreCfg, Fail, Report, System, explore};
use qbase::net::tx::{ArcSendWaker, Signals};
use qconnection::path::{AntiAmplifier, Constraints};
use serde::{Deserialize, Serialize};
use serde_json::{Value, json};

const MTU: usize = 1200;
/// Smallest buffer the real `PacketWriter::new_short` accepts with an empty DCID (1 + 20).
const MIN_PACKET: usize = 21;

#[derive(Debug, Clone, Serialize, Deserialize, PartialEq)]
pub enum Op {
    /// a datagram of `n` bytes arrives on the path (`Path::on_packet_rcvd`)
    Rcvd { n: usize },
    /// the sending task runs `Burst::burst` once and, if it produced segments,
    /// `Path::send_packets`. `initial`: the first packet of every segment is an Initial packet
    /// (⇒ `load_spaces` pads the segment to its full size).
    Burst {
        segments: usize,
        quota: usize,
        pkts: usize,
        initial: bool,
        /// the first packet of every segment carries nothing that is in flight (an ACK-only
        /// packet): `constraints.commit(len, false)`, no congestion quota consumed
        #[serde(default)]
        ack_first: bool,
    },
    /// `Path::grant_anti_amplification`
    Grant,
    /// `AntiAmplifier::abort`
    Abort,
}

#[derive(Debug, Clone, Serialize, Deserialize)]
pub struct Cfg {
    pub max_arrivals: usize,
    pub sizes: Vec<usize>,
    pub segments: Vec<usize>,
    pub quotas: Vec<usize>,
    pub pkts: Vec<usize>,
    pub initial: Vec<bool>,
}

impl Cfg {
    fn quick() -> Cfg {
        Cfg {
            max_arrivals: 3,
            sizes: vec![1200, 40, 1],
            segments: vec![1, 2, 4],
            quotas: vec![1 << 20, 1200],
            pkts: vec![1, 2],
            initial: vec![false, true],
        }
    }
    fn thorough() -> Cfg {
        Cfg {
            max_arrivals: 5,
            sizes: vec![1200, 40, 1, 1205, 1472],
            // qudp::BATCH_SIZE = 64 is what the real UDP interface answers to max_segments()
            segments: vec![1, 2, 3, 4, 16, 64],
            quotas: vec![1 << 20, 1200, 2400],
            pkts: vec![1, 2, 3],
            initial: vec![false, true],
        }
    }
}

#[derive(Debug, Clone, Copy, PartialEq, Eq)]
enum RefState {
    Normal,
    Granted,
    Aborted,
}

/// What `balance()` said, in a printable form.
#[derive(Debug, Clone, Copy, PartialEq, Eq)]
enum Obs {
    Credit(usize),
    Gone,
    Wait(u16),
}

fn observe(aa: &AntiAmplifier) -> Obs {
    match aa.balance() {
        Ok(Some(c)) => Obs::Credit(c),
        Ok(None) => Obs::Gone,
        Err(s) => Obs::Wait(s.bits()),
    }
}

struct Count(AtomicUsize);

impl Wake for Count {
    fn wake(self: Arc<Self>) {
        self.0.fetch_add(1, Ordering::SeqCst);
    }
    fn wake_by_ref(self: &Arc<Self>) {
        self.0.fetch_add(1, Ordering::SeqCst);
    }
}

/// The sending task suspended in `tx_waker.wait_for(signals)`.
struct Parked {
    fut: Pin<Box<dyn Future<Output = ()>>>,
    count: Arc<Count>,
    waker: Waker,
    signals: u16,
    seen: usize,
    /// what balance() reported when the task went to sleep
    credit_then: usize,
}

/// The congestion controller as far as `PacketsAssembler` uses it.
struct Cc {
    quota: usize,
}

impl Cc {
    /// qcongestion/src/congestion.rs:519 — a quota below one mtu is `Err(CONGESTION)`.
    fn send_quota(&self) -> Result<usize, Signals> {
        if self.quota >= MTU { Ok(self.quota) } else { Err(Signals::CONGESTION) }
    }
    fn on_pkt_sent(&mut self, n: usize) {
        self.quota = self.quota.saturating_sub(n);
    }
}

enum BurstError {
    Signals(Signals),
    PathDeactived,
}

/// One segment as `load_spaces` produced it.
#[derive(Debug, Clone, Copy)]
struct Segment {
    /// bytes written by packets (what `Constraints::commit` was told)
    packets: usize,
    /// length of the segment handed to the IO layer (≥ `packets` when padded)
    len: usize,
    /// the credit `balance()` reported to this segment's assembler
    credit_seen: usize,
}

pub struct Sys {
    cfg: Arc<Cfg>,
    tx_waker: ArcSendWaker,
    aa: AntiAmplifier,
    parked: Option<Parked>,
    sender_done: bool,
    // reference
    rcvd: usize,
    sent: usize,
    arrivals: usize,
    state: RefState,
    obs: Obs,
    // bookkeeping
    hist: Vec<Op>,
    side: Side,
    counters: Arc<Counters>,
    pub log: Vec<String>,
    verbose: bool,
}

/// signature → (detail, shortest history, hits): failures of a step beyond the first one.
pub type Side = Arc<Mutex<BTreeMap<String, (String, Vec<Op>, u64)>>>;

/// What the explored transitions exercised (summed over all explored transitions, not states).
#[derive(Default)]
pub struct Counters {
    bursts_sent: AtomicUsize,
    bursts_multi_segment: AtomicUsize,
    bursts_refused_no_credit: AtomicUsize,
    bursts_refused_no_room: AtomicUsize,
    bursts_path_gone: AtomicUsize,
    woken_by_rcvd: AtomicUsize,
    woken_by_grant: AtomicUsize,
    woken_by_abort: AtomicUsize,
    credit_equals_reference: AtomicUsize,
    credit_below_reference: AtomicUsize,
}

impl Counters {
    fn json(&self) -> Value {
        let g = |a: &AtomicUsize| a.load(Ordering::Relaxed);
        json!({
            "bursts_that_sent": g(&self.bursts_sent),
            "bursts_with_more_than_one_segment": g(&self.bursts_multi_segment),
            "bursts_refused_by_balance_Err_CREDIT": g(&self.bursts_refused_no_credit),
            "bursts_refused_credit_below_one_packet": g(&self.bursts_refused_no_room),
            "bursts_path_gone": g(&self.bursts_path_gone),
            "parked_sender_woken_by_rcvd": g(&self.woken_by_rcvd),
            "parked_sender_woken_by_grant": g(&self.woken_by_grant),
            "parked_sender_woken_by_abort": g(&self.woken_by_abort),
            "balance_equals_3x_received_minus_sent": g(&self.credit_equals_reference),
            "balance_below_3x_received_minus_sent": g(&self.credit_below_reference),
        })
    }
}

impl Sys {
    pub fn new(cfg: Arc<Cfg>, side: Side, counters: Arc<Counters>, verbose: bool) -> Sys {
        let tx_waker = ArcSendWaker::new();
        let aa = AntiAmplifier::new(tx_waker.clone());
        let obs = observe(&aa);
        Sys {
            cfg,
            tx_waker,
            aa,
            parked: None,
            sender_done: false,
            rcvd: 0,
            sent: 0,
            arrivals: 0,
            state: RefState::Normal,
            obs,
            hist: Vec::new(),
            side,
            counters,
            log: Vec::new(),
            verbose,
        }
    }

    fn allowed(&self) -> usize {
        (3 * self.rcvd).saturating_sub(self.sent)
    }

    fn note(&mut self, s: impl FnOnce() -> String) {
        if self.verbose {
            self.log.push(s());
        }
    }

    /// `PacketsAssembler::new`: quota first, then the anti-amplification balance.
    fn assembler(&self, cc: &Cc) -> Result<(Constraints, usize), BurstError> {
        let send_quota = cc.send_quota().map_err(BurstError::Signals)?;
        let credit_limit = match self.aa.balance() {
            Ok(Some(c)) => c,
            Ok(None) => return Err(BurstError::PathDeactived),
            Err(s) => return Err(BurstError::Signals(s)),
        };
        Ok((Constraints::new(credit_limit, send_quota), credit_limit))
    }

    /// `Burst::load_spaces` with `pkts` packets wanting to go into this segment.
    #[allow(clippy::too_many_arguments)]
    fn load_spaces(
        &self,
        buffer: &mut [u8],
        cc: &mut Cc,
        pkts: usize,
        initial: bool,
        ack_first: bool,
    ) -> Result<Segment, BurstError> {
        let origin = buffer.len();
        let (mut constraints, credit_seen) = self.assembler(cc)?;
        let mut signals = Signals::empty();
        let mut written = 0usize;
        let mut loaded_initial = false;
        for k in 0..pkts {
            // PacketsAssembler::assemble
            let constrained = constraints.constrain(&mut buffer[written..]);
            if constrained.len() < MIN_PACKET {
                signals |= Signals::CONGESTION; // PacketWriter::new_* refuses the buffer
                continue;
            }
            let ack_only = ack_first && k == 0;
            let want = if ack_only {
                // an ACK-only packet: small, not in flight
                MIN_PACKET.max(30).min(constrained.len())
            } else if k + 1 < pkts {
                (constrained.len() / 2).max(MIN_PACKET)
            } else {
                constrained.len()
            };
            constrained[..want].fill(0xA0 + k as u8);
            constraints.commit(want, !ack_only);
            if !ack_only {
                cc.on_pkt_sent(want);
            }
            written += want;
            if k == 0 && initial {
                loaded_initial = true;
            }
        }
        if loaded_initial {
            // burst.rs: buffer.put_bytes(0, buffer.remaining_mut()); return Ok((origin, ..))
            buffer[written..].fill(0);
            return Ok(Segment { packets: written, len: origin, credit_seen });
        }
        if written > 0 {
            Ok(Segment { packets: written, len: written, credit_seen })
        } else {
            Err(BurstError::Signals(signals))
        }
    }

    /// `load_ping` / `load_heartbeat` when `load_spaces` could not place a packet: a fresh
    /// assembler each, and the same too-small slice.
    fn load_fallback(&self, cc: &Cc) -> Result<Segment, BurstError> {
        let (_constraints, _) = self.assembler(cc)?;
        // space.new_packet(..) fails before any package (ping, heartbeat) is consulted
        Err(BurstError::Signals(Signals::CONGESTION))
    }

    /// `Burst::burst`: the segments of one burst.
    fn burst(
        &self,
        segments: usize,
        quota: usize,
        pkts: usize,
        initial: bool,
        ack_first: bool,
    ) -> Result<Vec<Segment>, BurstError> {
        let mut buffers: Vec<Vec<u8>> = vec![vec![0u8; MTU]; segments];
        let mut cc = Cc { quota };
        let mut out: Vec<Segment> = Vec::with_capacity(segments);
        for buffer in buffers.iter_mut() {
            let loaded = self
                .load_spaces(&mut buffer[..MTU], &mut cc, pkts, initial, ack_first)
                .or_else(|e| match e {
                    BurstError::Signals(s) => self.load_fallback(&cc).map_err(|e| match e {
                        BurstError::Signals(s2) => BurstError::Signals(s | s2),
                        e => e,
                    }),
                    e => Err(e),
                })
                .or_else(|e| match e {
                    BurstError::Signals(s) => self.load_fallback(&cc).map_err(|e| match e {
                        BurstError::Signals(s2) => BurstError::Signals(s | s2),
                        e => e,
                    }),
                    e => Err(e),
                });
            match loaded {
                Err(e) if out.is_empty() => return Err(e),
                Err(_) => break,
                Ok(seg) if seg.len < out.last().map(|s| s.len).unwrap_or_default() => {
                    out.push(seg);
                    break;
                }
                Ok(seg) => out.push(seg),
            }
        }
        Ok(out)
    }

    /// Suspends the sending task in `tx_waker.wait_for(signals)`. A stale satisfied bit makes
    /// the first poll return at once; the task would then run another (identical) burst and
    /// wait again, which is what the second poll stands for.
    fn park(&mut self, signals: Signals) -> Result<(), Fail> {
        let count = Arc::new(Count(AtomicUsize::new(0)));
        let waker = Waker::from(count.clone());
        for _round in 0..3 {
            let w = self.tx_waker.clone();
            let mut fut: Pin<Box<dyn Future<Output = ()>>> =
                Box::pin(async move { w.wait_for(signals).await });
            let mut cx = Context::from_waker(&waker);
            if fut.as_mut().poll(&mut cx).is_pending() {
                let seen = count.0.load(Ordering::SeqCst);
                let credit_then = match observe(&self.aa) {
                    Obs::Credit(c) => c,
                    _ => 0,
                };
                self.parked = Some(Parked { fut, count, waker, signals: signals.bits(), seen, credit_then });
                return Ok(());
            }
            // spurious (a stale satisfied bit): the task loops, the burst fails the same way
            // because nothing changed in between, and it waits again
        }
        Err(Fail::new(
            "wake/wait_for-never-pends",
            format!("wait_for({signals:?}) returned Ready three times in a row although nothing happened in between"),
        ))
    }

    /// After an event that must wake a parked sender.
    fn expect_woken(&mut self, by: &str, fails: &mut Vec<Fail>) {
        let Some(mut p) = self.parked.take() else { return };
        let fired = p.count.0.load(Ordering::SeqCst) > p.seen;
        let mut cx = Context::from_waker(&p.waker);
        let ready = p.fut.as_mut().poll(&mut cx) == Poll::Ready(());
        let awaited = Signals::from_bits_truncate(p.signals);
        if !fired && awaited.contains(Signals::CREDIT) {
            fails.push(Fail::new(
                format!("wake/sender-not-woken-by-{by}"),
                format!(
                    "the sending task waits in wait_for({awaited:?}) after balance() refused; {by} did not call its waker (the wait_for future is {} when polled anyway)",
                    if ready { "ready" } else { "still pending" }
                ),
            ));
        } else if !fired {
            // balance() did not refuse: it reported a credit too small to hold any packet, so
            // the burst failed with the packet writer's CONGESTION and the task does not wait
            // for CREDIT at all
            fails.push(Fail::new(
                "wake/credit-below-one-packet/sender-waits-without-CREDIT",
                format!(
                    "the last burst found a credit of {} byte(s): balance() = Ok, but no packet fits into a {}-byte slice, so the burst failed with {awaited:?} and the sending task waits for exactly these signals; {by} wakes CREDIT only, which the waiting task ignores (waker fired: false, wait_for is {}) — nothing in AntiAmplifier resumes sending although {}",
                    p.credit_then,
                    p.credit_then,
                    if ready { "ready" } else { "still pending" },
                    match by { "rcvd" => "more was received", "grant" => "the address is validated", _ => "the path is gone" }
                ),
            ));
        } else if !ready {
            fails.push(Fail::new(
                format!("wake/woken-but-still-pending-after-{by}"),
                format!(
                    "{by} called the waker of the sending task, but wait_for({:?}) is still pending",
                    Signals::from_bits_truncate(p.signals)
                ),
            ));
        }
        if fired && ready {
            let c = match by {
                "rcvd" => &self.counters.woken_by_rcvd,
                "grant" => &self.counters.woken_by_grant,
                _ => &self.counters.woken_by_abort,
            };
            c.fetch_add(1, Ordering::Relaxed);
        }
        if !ready {
            self.parked = Some(p);
        }
    }

    /// Applies one op to the real objects and the reference and evaluates every clause.
    pub fn step_all(&mut self, op: &Op) -> Vec<Fail> {
        let mut fails = Vec::new();
        self.hist.push(op.clone());
        let before_allowed = self.allowed();
        let before_state = self.state;
        let mut burst_segments: Option<Vec<Segment>> = None;
        match *op {
            Op::Rcvd { n } => {
                self.aa.on_rcvd(n);
                self.rcvd += n;
                self.arrivals += 1;
                if before_state == RefState::Normal && n > 0 {
                    self.expect_woken("rcvd", &mut fails);
                }
            }
            Op::Grant => {
                self.aa.grant();
                if before_state == RefState::Normal {
                    self.state = RefState::Granted;
                    self.expect_woken("grant", &mut fails);
                }
            }
            Op::Abort => {
                self.aa.abort();
                if before_state == RefState::Normal {
                    self.state = RefState::Aborted;
                    self.expect_woken("abort", &mut fails);
                }
            }
            Op::Burst { segments, quota, pkts, initial, ack_first } => {
                if self.parked.is_some() || self.sender_done {
                    // the sending task is suspended / has ended: it cannot run a burst
                    self.note(|| "burst: the sending task is not runnable".into());
                } else {
                    match self.burst(segments, quota, pkts, initial, ack_first) {
                        Ok(segs) => {
                            // Path::send_packets
                            let total: usize = segs.iter().map(|s| s.len).sum();
                            self.aa.on_sent(total);
                            let _ = self.aa.balance();
                            if before_state == RefState::Normal {
                                // the property is about the time before validation
                                self.sent += total;
                            }
                            self.counters.bursts_sent.fetch_add(1, Ordering::Relaxed);
                            if segs.len() > 1 {
                                self.counters.bursts_multi_segment.fetch_add(1, Ordering::Relaxed);
                            }
                            self.note(|| format!("burst: segments {segs:?}, on_sent({total})"));
                            burst_segments = Some(segs);
                        }
                        Err(BurstError::Signals(s)) => {
                            if s.contains(Signals::CREDIT) {
                                self.counters.bursts_refused_no_credit.fetch_add(1, Ordering::Relaxed);
                            } else {
                                self.counters.bursts_refused_no_room.fetch_add(1, Ordering::Relaxed);
                            }
                            self.note(|| format!("burst: Err({s:?}), the task waits"));
                            if let Err(f) = self.park(s) {
                                fails.push(f);
                            }
                        }
                        Err(BurstError::PathDeactived) => {
                            self.counters.bursts_path_gone.fetch_add(1, Ordering::Relaxed);
                            self.note(|| "burst: PathDeactived, the task ends".into());
                            self.sender_done = true;
                        }
                    }
                }
            }
        }
        self.obs = observe(&self.aa);
        let (obs, rcvd, sent) = (self.obs, self.rcvd, self.sent);
        self.note(|| format!("{op:?}: balance() = {obs:?}; Σreceived {rcvd}, Σsent {sent}"));

        // --- amplification: Σ sent ≤ 3·Σ received while the address is not validated
        if before_state == RefState::Normal && self.sent > 3 * self.rcvd {
            let (sig, why) = match &burst_segments {
                Some(segs) => {
                    let packets: usize = segs.iter().map(|s| s.packets).sum();
                    if segs.iter().any(|s| s.packets > s.credit_seen) {
                        (
                            "amplification/packets-of-one-segment-exceed-its-credit",
                            "the packets written into one segment exceed the credit that segment's assembler was given",
                        )
                    } else if packets > before_allowed {
                        (
                            "amplification/burst-segments-reuse-one-credit",
                            "every segment of the burst builds a fresh PacketsAssembler, which reads the same, not yet decremented, credit (on_sent runs only after the whole burst)",
                        )
                    } else {
                        (
                            "amplification/initial-padding-beyond-credit",
                            "load_spaces pads an Initial-bearing segment to the full segment size outside the constrained slice",
                        )
                    }
                }
                None => ("amplification/sent-exceeds-3x-received", "outside a burst"),
            };
            fails.push(Fail::new(
                sig,
                format!(
                    "Σ sent {} > 3·Σ received {} before validation: allowance before the burst {before_allowed}, {op:?} produced {:?} — {why}",
                    self.sent,
                    3 * self.rcvd,
                    burst_segments.as_deref().unwrap_or(&[]),
                ),
            ));
        }

        // --- credit: what balance() reports
        match (self.state, self.obs) {
            (RefState::Normal, Obs::Credit(c)) => {
                let allowed = self.allowed();
                if c == allowed {
                    self.counters.credit_equals_reference.fetch_add(1, Ordering::Relaxed);
                } else if c < allowed {
                    self.counters.credit_below_reference.fetch_add(1, Ordering::Relaxed);
                }
                if c > allowed {
                    let sig = if c > usize::MAX / 2 {
                        "credit/wrapped-below-zero"
                    } else {
                        "credit/above-3x-received-minus-sent"
                    };
                    fails.push(Fail::new(
                        sig,
                        format!(
                            "balance() reports an allowance of {c} ({}) but 3·Σ received − Σ sent = 3·{} − {} = {} (after {op:?})",
                            if c > usize::MAX / 2 { format!("usize::MAX − {}", usize::MAX - c) } else { "bytes".into() },
                            self.rcvd,
                            self.sent,
                            (3 * self.rcvd) as i128 - self.sent as i128,
                        ),
                    ));
                }
            }
            (RefState::Normal, Obs::Gone) => fails.push(Fail::new(
                "credit/open-path-reported-gone",
                format!("balance() = Ok(None) on a path that was neither granted nor aborted (after {op:?})"),
            )),
            (RefState::Normal, Obs::Wait(_)) => {
                if matches!(op, Op::Rcvd { n } if *n > 0) && self.allowed() > 0 {
                    fails.push(Fail::new(
                        "credit/no-allowance-after-receive",
                        format!(
                            "after {op:?} balance() still refuses although 3·Σ received − Σ sent = {}",
                            self.allowed()
                        ),
                    ));
                }
            }
            (RefState::Granted, Obs::Credit(c)) if c >= MTU => {}
            (RefState::Granted, o) => fails.push(Fail::new(
                "credit/still-limited-after-grant",
                format!("the address is validated but balance() = {o:?} (after {op:?})"),
            )),
            (RefState::Aborted, Obs::Gone) => {}
            (RefState::Aborted, o) => fails.push(Fail::new(
                "credit/aborted-path-not-reported-gone",
                format!("the path was aborted but balance() = {o:?} (after {op:?})"),
            )),
        }
        if matches!(op, Op::Rcvd { n } if *n > 0)
            && self.state == RefState::Normal
            && matches!(self.obs, Obs::Credit(0))
        {
            fails.push(Fail::new(
                "credit/no-allowance-after-receive",
                format!("after {op:?} balance() = Ok(Some(0))"),
            ));
        }
        fails
    }
}

impl System for Sys {
    type Op = Op;

    fn ops(&self) -> Vec<Op> {
        let mut v = Vec::new();
        if self.arrivals < self.cfg.max_arrivals {
            for &n in &self.cfg.sizes {
                v.push(Op::Rcvd { n });
            }
        }
        if self.parked.is_none() && !self.sender_done {
            for &segments in &self.cfg.segments {
                for &quota in &self.cfg.quotas {
                    for &pkts in &self.cfg.pkts {
                        for &initial in &self.cfg.initial {
                            v.push(Op::Burst { segments, quota, pkts, initial, ack_first: false });
                            // an ACK-only packet coalesced in front of the others
                            if pkts >= 2 {
                                v.push(Op::Burst { segments, quota, pkts, initial, ack_first: true });
                            }
                        }
                    }
                }
            }
        }
        v.push(Op::Grant);
        v.push(Op::Abort);
        v
    }

    fn step(&mut self, op: &Op) -> Result<(), Fail> {
        let mut fails = self.step_all(op);
        if fails.is_empty() {
            return Ok(());
        }
        let first = fails.remove(0);
        if !fails.is_empty() {
            let mut side = self.side.lock().unwrap();
            for f in fails {
                if f.sig == first.sig {
                    continue;
                }
                let key = |h: &Vec<Op>| {
                    let j = serde_json::to_string(h).unwrap_or_default();
                    (h.len(), j.len(), j)
                };
                match side.get_mut(&f.sig) {
                    Some(e) => {
                        e.2 += 1;
                        if key(&self.hist) < key(&e.1) {
                            e.0 = f.detail;
                            e.1 = self.hist.clone();
                        }
                    }
                    None => {
                        side.insert(f.sig, (f.detail, self.hist.clone(), 1));
                    }
                }
            }
        }
        Err(first)
    }

    fn canon(&self) -> String {
        format!(
            "{:?}|{:?}|{}|{}|{}|{:?}|{}",
            self.obs,
            self.state,
            self.rcvd,
            self.sent,
            self.arrivals,
            self.parked.as_ref().map(|p| p.signals),
            self.sender_done
        )
    }

    fn outcome(&self) -> Option<String> {
        Some(format!(
            "{:?}/{}{}{}",
            self.state,
            match self.obs {
                Obs::Credit(0) => "credit0",
                Obs::Credit(usize::MAX) => "unlimited",
                Obs::Credit(_) => "credit",
                Obs::Gone => "gone",
                Obs::Wait(_) => "refused",
            },
            if self.parked.is_some() { "/parked" } else { "" },
            if self.sender_done { "/task-ended" } else { "" },
        ))
    }
}

fn replay(r: &Value) -> i32 {
    let cfg: Cfg = r
        .get("config")
        .and_then(|c| serde_json::from_value(c.clone()).ok())
        .unwrap_or_else(Cfg::quick);
    let hist: Vec<Op> = match serde_json::from_value(r["history"].clone()) {
        Ok(h) => h,
        Err(e) => {
            eprintln!("replay: cannot parse history: {e}");
            return 2;
        }
    };
    let mut sys = Sys::new(Arc::new(cfg), Side::default(), Arc::default(), true);
    let mut failed = false;
    for op in &hist {
        let fails = match mc_core::panics::catch(|| sys.step_all(op)) {
            Ok(f) => f,
            Err(p) => vec![Fail::new(
                format!("panic/{}", p.class()),
                format!("panic at {}: {}", p.location, p.message),
            )],
        };
        for l in sys.log.drain(..) {
            println!("  {l}");
        }
        for f in &fails {
            failed = true;
            println!("replay: {} — {}", f.sig, f.detail);
        }
    }
    if !failed {
        println!("replay: no violation");
    }
    failed as i32
}

pub fn run(args: &Args) -> i32 {
    let mut report = Report::new(args, "model_checking");
    report.assume("the send-side protocol (Burst::burst → load_spaces/load_ping/load_heartbeat → PacketsAssembler::new → assemble → commit; Path::send_packets → on_sent) is mirrored in the harness from qconnection/src/path/burst.rs and path.rs, because Burst/Path need a whole connection; AntiAmplifier, Constraints and ArcSendWaker are the real objects");
    report.assume("data source = greedy: a packet fills the slice Constraints::constrain hands it (with pkts = k the first k−1 packets take half each); slices below 21 bytes hold no packet (PacketWriter::new_short minimum with an empty DCID)");
    report.assume("congestion controller = counter: send_quota() is quota − bytes committed in this burst, Err(CONGESTION) below one mtu (qcongestion ArcCC::send_quota)");
    report.assume("canonical state = (balance() observation, reference state, Σ received, Σ sent, arrivals, parked signals, task ended); stale satisfied bits inside SendWaker are not part of it: they only make a later wait_for return once spuriously, after which the task re-runs an identical burst (park() absorbs that)");
    report.assume("sequential histories only; interleavings of on_sent/balance/on_rcvd are part (c)");
    report.notes.push("qconnection::path::{AntiAmplifier, Constraints} are publicly reachable (path.rs: `pub use aa::*; pub use util::*;`), no hook needed; the real UDP interface answers max_segments() = qudp::BATCH_SIZE = 64 (qinterface/src/io/handy.rs)".into());
    report.notes.push("balance() is called once per *segment* (each load_spaces/load_ping/load_heartbeat builds a fresh PacketsAssembler), on_sent once per burst in Path::send_packets; AntiAmplifier::abort has no caller in qconnection".into());

    if let Some(p) = &args.replay {
        return replay(&mc_core::report::load_replay(p));
    }

    let cfg = Arc::new(if args.thorough { Cfg::thorough() } else { Cfg::quick() });
    let cfg_json = serde_json::to_value(&*cfg).unwrap();
    let side: Side = Side::default();
    let counters: Arc<Counters> = Arc::default();
    let ecfg = ExploreCfg {
        time_cap: Duration::from_secs(if args.thorough { 600 } else { 25 }),
        ..Default::default()
    };
    let stats = {
        let (cfg, side, counters) = (cfg.clone(), side.clone(), counters.clone());
        explore(move || Sys::new(cfg.clone(), side.clone(), counters.clone(), false), &ecfg)
    };
    mc_core::explore::file_violations(&mut report, "closure", cfg_json.clone(), &stats);
    for (sig, (detail, hist, hits)) in side.lock().unwrap().iter() {
        if !report.has_signature(sig) {
            for _ in 0..(*hits).min(1) {
                report.violation(
                    sig,
                    detail,
                    json!({"sub": "closure", "config": cfg_json, "history": serde_json::to_value(hist).unwrap()}),
                );
            }
        }
    }
    let mut cov = stats.coverage(&format!(
        "BFS to closure over all histories of rcvd(n in {:?}) (at most {} arrivals), burst(segments in {:?}, quota in {:?}, packets per segment in {:?}, initial-bearing in {:?}, with and without an ACK-only (not in flight) first packet; mtu {MTU}), grant, abort on the real AntiAmplifier + Constraints + ArcSendWaker; a history is not extended past its first violation",
        cfg.sizes, cfg.max_arrivals, cfg.segments, cfg.quotas, cfg.pkts, cfg.initial
    ));
    cov.extra.insert(
        "violating_transitions_by_signature".into(),
        json!(
            stats
                .violations
                .iter()
                .map(|(s, v)| (s.clone(), v.2))
                .chain(side.lock().unwrap().iter().map(|(s, v)| (format!("{s} (secondary)"), v.2)))
                .collect::<BTreeMap<_, _>>()
        ),
    );
    cov.extra.insert("exercised_over_all_transitions_and_replays".into(), counters.json());
    report.sub("closure", cov);
    report.finish()
}
